-------------------------------- MODULE C09 --------------------------------
(***************************************************************************)
(* Property C09: date/time arithmetic matches calendar arithmetic and      *)
(* preserves type, precision and offset; quantities add, subtract and      *)
(* compare only within one unit.                                           *)
(*                                                                         *)
(* This module is the case space, the source text of every case and the    *)
(* oracle (Permitted).  C09_MC explores it and emits cases, C09_Sim        *)
(* samples the full product, C09_Judge judges observations.                *)
(*                                                                         *)
(* A case is [kind, x, op, q, q2]:                                         *)
(*   "ar"   x op q                      (op "+" or "-")                    *)
(*   "inv"  (x op q) op' q  and  ((x op q) op' q) = x                      *)
(*   "cmp"  (x op q) <= (x op q2)       (monotone in the amount)           *)
(*   "qq"   q op q2                     (op + - = != < <= > >=)            *)
(* x is an abstract temporal item, q = [th, unit] (FPTemporal).            *)
(***************************************************************************)
EXTENDS FPValues, FPTemporal

(******************************** pools ************************************)
NoOff == [tz |-> FALSE, off |-> 0]
Offsets == {NoOff, [tz |-> TRUE, off |-> 0], [tz |-> TRUE, off |-> 330], [tz |-> TRUE, off |-> -660]}

MkDate(p, y, mo, d) ==
  [t |-> "date", p |-> p, y |-> y, mo |-> IF p >= 2 THEN mo ELSE 1, d |-> IF p >= 3 THEN d ELSE 1]

MkTime(p, ms) ==
  [t |-> "time", p |-> p, h |-> ms \div 3600000,
   mi |-> IF p >= 5 THEN (ms \div 60000) % 60 ELSE 0,
   sec |-> IF p >= 6 THEN (ms \div 1000) % 60 ELSE 0,
   ms |-> IF p >= 7 THEN ms % 1000 ELSE 0,
   fd |-> IF p = 7 THEN 3 ELSE 0]

MkDT(p, y, mo, d, ms, o) ==
  [t |-> "dt", p |-> p, y |-> y, mo |-> IF p >= 2 THEN mo ELSE 1, d |-> IF p >= 3 THEN d ELSE 1,
   h |-> IF p >= 4 THEN ms \div 3600000 ELSE 0,
   mi |-> IF p >= 5 THEN (ms \div 60000) % 60 ELSE 0,
   sec |-> IF p >= 6 THEN (ms \div 1000) % 60 ELSE 0,
   ms |-> IF p >= 7 THEN ms % 1000 ELSE 0,
   fd |-> IF p = 7 THEN 3 ELSE 0,
   tz |-> p >= 4 /\ o.tz, off |-> IF p >= 4 /\ o.tz THEN o.off ELSE 0]

Qty(th, unit) == [th |-> th, unit |-> unit]

(* the amounts of the property's quantifier, in thousandths *)
Amounts == {0, 1000, 11000, 12000, 13000, 23000, 24000, 25000, 59000, 60000, 61000,
            365000, 366000, 1000000, 1500, -1000, -13000}
FewAmounts  == {0, 1000, 25000, 61000, 1500, -13000}
UcumAmounts == {1000, 24000, -1000}

OtherUnits == {"mg", "kg", "cm"}
AllUnits == TemporalUnits \cup OtherUnits
Kw1Units == {u \in TemporalUnits : UnitTable[u].cls = "kw1"}
KwNUnits == {u \in TemporalUnits : UnitTable[u].cls = "kwN"}
DateRanks == {"year", "month", "week", "day"}

(* the 4-year leap cycle 2019-03 .. 2023-02 and the edges of the range *)
CycleMonths == {ym \in (2019..2023) \X (1..12) : (ym[1] = 2019 => ym[2] >= 3) /\ (ym[1] = 2023 => ym[2] <= 2)}
CycleMarks  == {<<ym[1], ym[2], d>> : ym \in CycleMonths, d \in {1, 15, 28, 29, 30, 31}}
CycleDays   == {c \in CycleMarks : c[3] \in {1, 15, MonthLen(c[1], c[2])}}
EveryDay    == {<<ym[1], ym[2], d>> : ym \in CycleMonths, d \in 1..31}
AllCycleDays == {c \in EveryDay : c[3] <= MonthLen(c[1], c[2])}
EdgeDays    == {<<1, 1, 1>>, <<1, 1, 31>>, <<1, 12, 31>>, <<2, 1, 1>>, <<9998, 12, 31>>, <<9999, 1, 1>>, <<9999, 11, 30>>, <<9999, 12, 31>>}

(* times of day (ms): midnight, the last millisecond, a mid-morning time    *)
(* with every component non-zero, 08:00, noon, 23:30                        *)
T0 == 0
TEnd == 86399999
TMid == 37815250
T8 == 28800000
TNoon == 43200000
T2330 == 84600000
DayTimes == {T0, TEnd, TMid, T8, TNoon, T2330}

(********************************* text ************************************)
Pad2(n) == IF n < 10 THEN "0" \o ToString(n) ELSE ToString(n)
Pad3(n) == IF n < 10 THEN "00" \o ToString(n) ELSE IF n < 100 THEN "0" \o ToString(n) ELSE ToString(n)
Pad4(n) == IF n < 10 THEN "000" \o ToString(n) ELSE IF n < 100 THEN "00" \o ToString(n)
           ELSE IF n < 1000 THEN "0" \o ToString(n) ELSE ToString(n)
AbsInt(n) == IF n < 0 THEN 0 - n ELSE n

DatePart(x) == Pad4(x.y) \o (IF x.p >= 2 THEN "-" \o Pad2(x.mo) ELSE "") \o (IF x.p >= 3 THEN "-" \o Pad2(x.d) ELSE "")
TimePart(x) == Pad2(x.h) \o (IF x.p >= 5 THEN ":" \o Pad2(x.mi) ELSE "") \o (IF x.p >= 6 THEN ":" \o Pad2(x.sec) ELSE "")
                \o (IF x.p >= 7 THEN "." \o Pad3(x.ms) ELSE "")
OffPart(x) == IF ~x.tz THEN "" ELSE IF x.off = 0 THEN "Z"
              ELSE (IF x.off < 0 THEN "-" ELSE "+") \o Pad2(AbsInt(x.off) \div 60) \o ":" \o Pad2(AbsInt(x.off) % 60)

(* the FHIRPath literal of a temporal item *)
XText(x) ==
  CASE x.t = "date" -> "@" \o DatePart(x)
    [] x.t = "dt"   -> "@" \o DatePart(x) \o "T" \o (IF x.p >= 4 THEN TimePart(x) \o OffPart(x) ELSE "")
    [] x.t = "time" -> "@T" \o TimePart(x)

(* at most three decimals *)
AmountText(th) ==
  LET a == AbsInt(th)
      ip == a \div 1000
      fp == a % 1000
  IN ToString(ip) \o (IF fp = 0 THEN ""
                      ELSE "." \o (IF fp % 100 = 0 THEN ToString(fp \div 100)
                                   ELSE IF fp % 10 = 0 THEN Pad2(fp \div 10) ELSE Pad3(fp)))
SignedAmountText(th) == (IF th < 0 THEN "-" ELSE "") \o AmountText(th)

(* calendar keywords are written bare, every other unit quoted *)
UnitLit(u) == IF ClsOf(u) \in {"kw1", "kwN"} THEN u ELSE "'" \o u \o "'"
QText(q) == IF q.th < 0 THEN "(-" \o AmountText(q.th) \o " " \o UnitLit(q.unit) \o ")"
            ELSE AmountText(q.th) \o " " \o UnitLit(q.unit)

OtherOp(op) == IF op = "+" THEN "-" ELSE "+"

(* where the value can be supplied as a FHIR element: date -> Patient.birthDate, *)
(* dateTime / time -> Observation.value[x]; FHIR has no hour or minute precision  *)
(* and requires an offset on every dateTime with a time part                      *)
FhirOk(x) == CASE x.t = "date" -> TRUE
               [] x.t = "dt"   -> x.p <= 3 \/ (x.p >= 6 /\ x.tz /\ x.y \in 1700..2200)   \* jsonformat drops the fraction of far years
               [] x.t = "time" -> x.p >= 6
FhirPath(x) == IF x.t = "date" THEN "Patient.birthDate" ELSE "Observation.value"

Text(c) ==
  CASE c.kind = "ar"  -> XText(c.x) \o " " \o c.op \o " " \o QText(c.q)
    [] c.kind = "inv" -> "(" \o XText(c.x) \o " " \o c.op \o " " \o QText(c.q) \o ") " \o OtherOp(c.op) \o " " \o QText(c.q)
    [] c.kind = "cmp" -> "(" \o XText(c.x) \o " " \o c.op \o " " \o QText(c.q) \o ") <= (" \o XText(c.x) \o " " \o c.op \o " " \o QText(c.q2) \o ")"
    [] c.kind = "qq"  -> QText(c.q) \o " " \o c.op \o " " \o QText(c.q2)

(* the same with both operands taken from the environment (%x, %q, %r) *)
EnvText(c) ==
  CASE c.kind = "ar"  -> "%x " \o c.op \o " %q"
    [] c.kind = "inv" -> "(%x " \o c.op \o " %q) " \o OtherOp(c.op) \o " %q"
    [] c.kind = "cmp" -> "(%x " \o c.op \o " %q) <= (%x " \o c.op \o " %r)"
    [] c.kind = "qq"  -> "%q " \o c.op \o " %r"

(* the value taken from a FHIR element of the input resource; "" = not applicable *)
FhirText(c) ==
  IF c.kind = "ar" /\ FhirOk(c.x) THEN FhirPath(c.x) \o " " \o c.op \o " " \o QText(c.q) ELSE ""

(* ((x op q) op' q) = x *)
EqText(c) == IF c.kind = "inv" THEN "(" \o Text(c) \o ") = " \o XText(c.x) ELSE ""

CaseId(c) == c.kind \o ":" \o Text(c)

(* (x op q) = <the literal of the primary reference result>: a second look at the result  *)
(* through the implementation's own equality, so that a hidden component finer or coarser *)
(* than the precision shows (Appendix F rule 4)                                           *)
ResultText(c) ==
  IF c.kind = "ar" /\ IsTemporalUnit(c.q.unit) /\ ~TimeHasNoUnit(c.x, RankOf(c.q.unit))
  THEN LET r == Primary(c.x, c.op, RankOf(c.q.unit), c.q.th) IN
       IF r.oob THEN "" ELSE "(" \o Text(c) \o ") = " \o XText(r.v)
  ELSE ""

Emit(c) == [id |-> CaseId(c), cs |-> c, text |-> Text(c), etext |-> EnvText(c), ftext |-> FhirText(c), qtext |-> EqText(c),
            rtext |-> ResultText(c),
            xs |-> IF c.kind = "qq" THEN "" ELSE XText(c.x),
            n1 |-> SignedAmountText(c.q.th), n2 |-> SignedAmountText(c.q2.th)]

(******************************** oracle ***********************************)
(* Permitted outcomes as [any, err, none, items, bools]:                    *)
(*   any   every outcome that is not a panic or a timeout (rule 5)          *)
(*   err   an error is permitted                                            *)
(*   none  the empty collection is permitted                                *)
(*   items the permitted single results (abstract items)                    *)
(*   bools the permitted single Boolean results                             *)
Perm(any, err, none, items, bools) == [any |-> any, err |-> err, none |-> none, items |-> items, bools |-> bools]

PermittedAr(x, op, q) ==
  IF ~IsTemporalUnit(q.unit) THEN Perm(FALSE, TRUE, FALSE, {}, {})                     \* rule 6: error, hard
  ELSE LET rank == RankOf(q.unit)
           ucum == ClsOf(q.unit) = "ucum"
       IN IF TimeHasNoUnit(x, rank) THEN Perm(FALSE, TRUE, FALSE, {x}, {})             \* unsupported on a Time: error, or whole days wrap
          ELSE LET R == Results(x, op, rank, q.th)
                   its == {r.v : r \in {rr \in R : ~rr.oob}}
                   pr == Primary(x, op, rank, q.th)
               IN Perm(\E r \in R : r.oob, ucum, FALSE, its, {SameTemporal(v, pr.v) : v \in its})

PermittedInv(x, op, q) ==
  LET P1 == PermittedAr(x, op, q) IN
  IF P1.any THEN Perm(TRUE, TRUE, FALSE, {}, {})
  ELSE LET Ps == {PermittedAr(r, OtherOp(op), q) : r \in P1.items}
           its == UNION {P.items : P \in Ps}
       IN Perm(\E P \in Ps : P.any, P1.err, FALSE, its, {SameTemporal(r, x) : r \in its})

PermittedCmp(x, op, q, q2) ==
  LET A == PermittedAr(x, op, q)
      C == PermittedAr(x, op, q2)
  IN Perm(A.any \/ C.any, A.err \/ C.err, FALSE, {}, {LeItem(r1, r2) : r1 \in A.items, r2 \in C.items})

(* quantity op quantity: [same, plural, r, units] *)
QQRef(op, q, q2) ==
  LET arith == op \in {"+", "-"}
      same  == q.unit = q2.unit
  IN [arith |-> arith, same |-> same, plural |-> ~same /\ SameCalendarUnit(q.unit, q2.unit),
      r |-> IF arith THEN QArith(op, q.th, q.unit, q2.th, q.unit) ELSE QCompare(op, q.th, q.unit, q2.th, q.unit),
      units |-> {q.unit, q2.unit}]

UnitCps ==
  [year |-> <<121, 101, 97, 114>>, years |-> <<121, 101, 97, 114, 115>>,
   month |-> <<109, 111, 110, 116, 104>>, months |-> <<109, 111, 110, 116, 104, 115>>,
   week |-> <<119, 101, 101, 107>>, weeks |-> <<119, 101, 101, 107, 115>>,
   day |-> <<100, 97, 121>>, days |-> <<100, 97, 121, 115>>,
   hour |-> <<104, 111, 117, 114>>, hours |-> <<104, 111, 117, 114, 115>>,
   minute |-> <<109, 105, 110, 117, 116, 101>>, minutes |-> <<109, 105, 110, 117, 116, 101, 115>>,
   second |-> <<115, 101, 99, 111, 110, 100>>, seconds |-> <<115, 101, 99, 111, 110, 100, 115>>,
   millisecond |-> <<109, 105, 108, 108, 105, 115, 101, 99, 111, 110, 100>>,
   milliseconds |-> <<109, 105, 108, 108, 105, 115, 101, 99, 111, 110, 100, 115>>,
   a |-> <<97>>, mo |-> <<109, 111>>, wk |-> <<119, 107>>, d |-> <<100>>, h |-> <<104>>,
   min |-> <<109, 105, 110>>, s |-> <<115>>, ms |-> <<109, 115>>,
   mg |-> <<109, 103>>, kg |-> <<107, 103>>, cm |-> <<99, 109>>]

(******************************* acceptance ********************************)
IsErr(out) == out.k \in {"err", "cerr"}
One(out) == out.k = "ok" /\ Len(out.items) = 1
Empty(out) == out.k = "ok" /\ Len(out.items) = 0

(* a value channel (the result of x op q, or of (x op q) op' q) *)
AcceptValue(out, P) ==
  /\ ~IsFailure(out)
  /\ \/ P.any
     \/ IsErr(out) /\ P.err
     \/ Empty(out) /\ P.none
     \/ One(out) /\ \E r \in P.items : ItemSame(out.items[1], r)

(* a Boolean channel *)
AcceptBool(out, P) ==
  /\ ~IsFailure(out)
  /\ \/ P.any
     \/ IsErr(out) /\ P.err
     \/ One(out) /\ out.items[1].t = "b" /\ out.items[1].b \in P.bools

AcceptQQ(out, R) ==
  /\ ~IsFailure(out)
  /\ \/ (IsErr(out) \/ Empty(out)) /\ ~R.same
     \/ /\ One(out) /\ (R.same \/ R.plural)
        /\ LET it == out.items[1] IN
           IF R.arith
           THEN it.t = "q" /\ DEq(DOfItem(it.val), R.r.val) /\ \E u \in R.units : it.unit = UnitCps[u]
           ELSE it.t = "b" /\ it.b = R.r.b

(***************************** classification ******************************)
(* does a Time result pass midnight (part of the signature: the hidden day) *)
Wraps(x, op, q) ==
  /\ x.t = "time" /\ IsTemporalUnit(q.unit) /\ ~TimeHasNoUnit(x, RankOf(q.unit))
  /\ LET dl == Delta("trunc", x.p, RankOf(q.unit), q.th) IN
     dl.dd # 0 \/ XMs(x) + SignOf(op) * dl.ms \notin 0..(DayMs - 1)

(* what a rejected observation looks like (part of the signature) *)
AmtClass(th) == (IF th < 0 THEN "neg" ELSE IF th = 0 THEN "zero" ELSE "pos") \o "-" \o (IF th % 1000 = 0 THEN "int" ELSE "frac")

ExpClass(P, x) ==
  IF P.any THEN "any"
  ELSE IF P.items = {} THEN "err"
  ELSE IF \A r \in P.items : SameTemporal(r, x) THEN "same" ELSE "moved"

ShapeClass(out, x) ==   \* "" when out is one item of x's type, precision and offset
  IF IsFailure(out) THEN out.k
  ELSE IF IsErr(out) THEN "err"
  ELSE IF out.k # "ok" THEN "malformed"
  ELSE IF Len(out.items) = 0 THEN "empty"
  ELSE IF Len(out.items) > 1 THEN "multi"
  ELSE LET it == out.items[1] IN
       IF it.t = "unk" THEN "unk"            \* a value the projection cannot read (e.g. year 10000)
       ELSE IF it.t # x.t THEN "type"
       ELSE IF it.p # x.p THEN "prec"
       ELSE IF x.t = "dt" /\ (it.tz # x.tz \/ it.off # x.off) THEN "offset"
       ELSE ""

Is(out, r) == ~r.oob /\ ItemSame(out.items[1], r.v)

ObsClassAr(out, c) ==
  LET sc == ShapeClass(out, c.x) IN
  IF sc # "" THEN sc
  ELSE IF ~IsTemporalUnit(c.q.unit) \/ TimeHasNoUnit(c.x, RankOf(c.q.unit))
       THEN (IF ItemSame(out.items[1], c.x) THEN "unchanged" ELSE "other")
  ELSE LET a1 == IF Is(out, InstantFloor(c.x, c.op, RankOf(c.q.unit), c.q.th)) THEN "instant-floor" ELSE ""
           a2 == IF ItemSame(out.items[1], c.x) THEN "unchanged" ELSE IF Is(out, MinusOne(c.x)) THEN "minus-one" ELSE ""
       IN IF a1 = "" /\ a2 = "" THEN "other"            \* every named reading the result agrees with, joined by "+"
          ELSE IF a1 # "" /\ a2 # "" THEN a1 \o "+" \o a2
          ELSE a1 \o a2

ObsClassInv(out, c) ==
  LET sc == ShapeClass(out, c.x) IN
  IF sc # "" THEN sc
  ELSE IF ItemSame(out.items[1], c.x) THEN "x"
  ELSE IF Is(out, MinusOne(c.x)) THEN "minus-one"
  ELSE "other"

ObsClassBool(out) ==
  IF IsFailure(out) THEN out.k
  ELSE IF IsErr(out) THEN "err"
  ELSE IF out.k # "ok" THEN "malformed"
  ELSE IF Len(out.items) = 0 THEN "empty"
  ELSE IF Len(out.items) > 1 THEN "multi"
  ELSE IF out.items[1].t # "b" THEN "type"
  ELSE IF out.items[1].b THEN "true" ELSE "false"

ObsClassQQ(out) ==
  IF IsFailure(out) THEN out.k
  ELSE IF IsErr(out) THEN "err"
  ELSE IF out.k # "ok" THEN "malformed"
  ELSE IF Len(out.items) = 0 THEN "empty"
  ELSE IF Len(out.items) > 1 THEN "multi"
  ELSE IF out.items[1].t = "b" THEN (IF out.items[1].b THEN "true" ELSE "false")
  ELSE IF out.items[1].t = "q" THEN "quantity"
  ELSE "type"
=============================================================================
