"""C19 - Reference and identity parsing and formatting are mutual inverses."""
import copy, filecmp, os, shutil
from lib import driver as D

MUTANTS = ["dropVersion", "typeCaseInsensitive", "leftOnlyLiteralGuard", "versionWildcard", "keepTrailingSlash", "fragmentKeepsHash", "canonSwapOrder"]
CHUNK = 60000            # observation records per judge run (bounds TLC's heap)
JUDGE_WORKERS = 5        # TLC re-reads the observation file once per worker (WorkerValue.demux): few workers are faster


def run(ctx):
    binary = D.build_harness(ctx, "c19")
    spec = D.stage_spec(ctx)
    # the R4 resource list is re-derived from the google/fhir descriptors on every run
    D.run_harness(ctx, binary, ["types", os.path.join(spec, "C19Types.tla")])
    if not filecmp.cmp(os.path.join(spec, "C19Types.tla"), os.path.join(D.SPEC, "gen", "C19Types.tla"), shallow=False):
        raise D.Inconclusive("spec/gen/C19Types.tla is stale: regenerate it with `c19 types spec/gen/C19Types.tla`")

    # role 1: the laws on the small exhaustive pool (string neighbours, reference pools); mutant twins must fail
    D.model_check(ctx, "C19_MC", "C19_laws.cfg")
    for m in (MUTANTS if ctx.tier == "thorough" else MUTANTS[:4]):
        D.mutant_twin(ctx, "C19_MC", "C19_mut_%s.cfg" % m, m)
    # role 1 + 2: the same laws on every generated case (all 146 resource types), one case per transition
    mc = D.model_check(ctx, "C19_MC", "C19_%s.cfg" % ctx.tier, timeout=900)
    cases, seen = [], set()
    for c in mc.records:
        if c["id"] not in seen:
            seen.add(c["id"])
            cases.append(c)
    cases.sort(key=lambda c: c["id"])
    types = {c["type"] for c in cases if c["kind"] == "rest"}
    if len(types) != 146 or len(cases) < 5000:
        raise D.Inconclusive("generator emitted %d cases over %d resource types" % (len(cases), len(types)))
    D.write_ndjson(ctx.path("cases.ndjson"), cases)

    # direction A (replay of TLC's cases) and direction B (seeded byte-mutated neighbours, generated Go-side)
    raw_n = 1500 if ctx.tier == "quick" else 50000
    D.run_harness(ctx, binary, ["run", ctx.path("cases.ndjson"), ctx.path("obs.ndjson"), str(raw_n)])
    obs = D.read_ndjson(ctx.path("obs.ndjson"))
    obs.sort(key=lambda o: o["id"])          # the harness writes from many goroutines
    n_raw = sum(1 for o in obs if o["cs"]["kind"] == "raw")
    if n_raw < raw_n * 0.8:
        raise D.Inconclusive("only %d byte-mutated neighbours were generated" % n_raw)

    # dead-driver guard: every aspect of every case kind must have been observed
    seen_aspects = {(o["cs"]["kind"], o["aspect"]) for o in obs}
    expected = {("rest", a) for a in ("identity", "litfmt", "litparse", "identurl", "strongweak", "readback", "fromres")} | \
               {("frag", a) for a in ("litparse", "identurl", "fragref", "readback")} | \
               {("urn", a) for a in ("litparse", "identurl", "weakref", "readback")} | \
               {("canon", "canon"), ("canon", "litparse"), ("pool", "isrel"), ("raw", "raw"), ("empty", "litparse")}
    if expected - seen_aspects:
        raise D.Inconclusive("dead driver: no observation for %s" % sorted(expected - seen_aspects))

    # role 3: judge, in chunks
    verdicts = judge_all(ctx, obs, "judge")
    D.check_complete(verdicts, obs)
    if ctx.tier == "thorough":
        corrupt_probe(ctx, obs)

    by_id = {o["id"]: dict(o, src=o["cs"]["text"], out={k: v.get("k") for k, v in o.items() if isinstance(v, dict) and "k" in v}) for o in obs}
    keys = set()
    evaluations = 0
    for o in obs:
        probes = [(k, v) for k, v in o.items() if isinstance(v, dict) and "k" in v]
        evaluations += len(probes) if probes else (len(o["m"]) ** 2 if "m" in o else 1)
        cs = o["cs"]
        keys.add((o["aspect"], cs["kind"], cs["ridc"], cs["verc"], cs["basec"], cs["x"] if cs["kind"] == "raw" else "",
                  tuple(sorted((k, v["k"]) for k, v in probes))))
    step = max(1, len(obs) // 6)
    samples = [{"src": o["cs"]["text"][:120], "aspect": o["aspect"],
                "out": {k: (v.get("k"), v.get("str", v.get("s", ""))[:80]) for k, v in o.items() if isinstance(v, dict) and "k" in v}}
               for o in obs[::step]]
    ctx.extra["cases_generated"] = len(cases)
    ctx.extra["byte_mutated_neighbours"] = n_raw
    ctx.extra["resource_types"] = len(types)
    return D.finish(ctx, verdicts, by_id, evaluations=evaluations,
                    rule="every R4 resource type x id/version/base-URL class pools x reference forms (TLC-generated, each case's laws "
                         "model-checked), observed through up to six aspects (identity, literal format, literal parse, identity-from-URL, "
                         "strong/weak, FHIRPath read-back), plus seeded byte-mutated neighbours; distinct = (aspect, case class without the "
                         "resource type, mutation operator, outcome kind of every probe)",
                    nontrivial_keys=list(keys), samples=samples, exhaustive=False,
                    assumptions=["service base URLs are judged exactly inside the strict zone http(s)://seg(/seg)* over [A-Za-z0-9.:-]; "
                                 "outside it acceptance is not fixed by the property (error or a consistent round trip are both permitted)",
                                 "the FHIRPath read-back is evaluated on a Basic resource whose subject holds the reference"])


def judge_all(ctx, obs, tag):
    verdicts = []
    for n, start in enumerate(range(0, len(obs), CHUNK)):
        path = ctx.path("%s-%d.ndjson" % (tag, n))
        D.write_ndjson(path, obs[start:start + CHUNK])
        verdicts += D.judge(ctx, "C19_Judge", "C19_judge.cfg", path, params={"CasesFile": ctx.path("cases.ndjson")},
                            tag="%s-%d" % (tag, n), workers=JUDGE_WORKERS)
    return verdicts


def corrupt_probe(ctx, obs):
    """Binding demonstration: alter one field of genuine records; the judge must reject exactly those."""
    def first(pred):
        return next((copy.deepcopy(o) for o in obs if pred(o)), None)
    v1 = first(lambda o: o["aspect"] == "litparse" and o["cs"]["kind"] == "rest" and o["p1"]["k"] == "ok" and o["p1"]["ver"] != "")
    v2 = first(lambda o: o["aspect"] == "readback" and o["cs"]["kind"] == "rest" and o["fs"]["k"] == "ok")
    v3 = first(lambda o: o["aspect"] == "isrel" and all(c in "TF" for row in o["m"] for c in row))
    victims = [v for v in (v1, v2, v3) if v is not None]
    if len(victims) == 3:
        v1["p1"]["ver"] = ""                                   # the version is lost
        v2["fs"]["s"] = v2["fs"]["s"].lower() + "x"             # the typed reference reads back differently
        v3["m"][0][1] = "F" if v3["m"][0][1] == "T" else "T"    # symmetry broken
    if len(victims) != 3:
        raise D.Inconclusive("corrupted-record probe: no suitable records")
    good = [o for o in obs if o["aspect"] == "litparse" and o["cs"]["kind"] == "rest" and o["p1"]["k"] == "ok"][-1]
    D.write_ndjson(ctx.path("corrupt.ndjson"), victims + [good])
    vs = D.judge(ctx, "C19_Judge", "C19_judge.cfg", ctx.path("corrupt.ndjson"), params={"CasesFile": ctx.path("cases.ndjson")},
                 tag="judge-corrupt", workers=2)
    bad = sorted(v["id"] for v in vs if not v["ok"])
    if bad != sorted(v["id"] for v in victims):
        raise D.Inconclusive("corrupted-record probe: judge rejected %s, expected %s" % (bad, sorted(v["id"] for v in victims)))
    ctx.extra["corrupted_records_rejected"] = len(victims)
