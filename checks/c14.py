"""C14 - String functions operate on characters (code points) and are mutually consistent."""
import copy, os, re
from lib import driver as D, machine as M, nodetrace as NT

MUTANTS = ["byteLength", "substringBytes", "indexOfBytes", "noBoundsCheck", "negLengthIsRest",
           "containsPrefixOnly", "replaceFirstOnly"]
QUICK_MUTANTS = ["byteLength", "substringBytes", "indexOfBytes", "noBoundsCheck"]

# (cfg, minimum number of cases the generator must emit) per tier
MODEL = {"quick": ("C14_mc_quick.cfg", 50000), "thorough": ("C14_mc_thorough.cfg", 300000)}
# tlc -simulate: traces per worker, workers; every trace is one string of 5..12 symbols with PerString cases
SIM = {"quick": (12, 4), "thorough": (250, 8)}
SIM_DEPTH = 45


def run(ctx):
    binary = D.build_harness(ctx, "c14")
    D.stage_spec(ctx)
    if getattr(ctx, "replay", None):
        return replay(ctx, binary)
    cfg, floor = MODEL[ctx.tier]
    # roles 1 + 2: the laws of FPStrings on every string of the model, one case per explored transition
    mc = D.model_check(ctx, "C14_MC", cfg, timeout=600)
    if len(mc.records) < floor:
        raise D.Inconclusive("generator emitted only %d cases (expected at least %d)" % (len(mc.records), floor))
    for m in (MUTANTS if ctx.tier == "thorough" else QUICK_MUTANTS):
        D.mutant_twin(ctx, "C14_MC", "C14_mut_%s.cfg" % m, m, timeout=300)
    # beyond the exhaustive bound: strings of 5..12 symbols drawn by the simulator, cases from the same space
    num, workers = SIM[ctx.tier]
    sim = D.model_check(ctx, "C14_Sim", "C14_sim.cfg", simulate="num=%d" % num, depth=SIM_DEPTH, workers=workers, timeout=600)
    m = re.search(r"The number of states generated: (\d+)", sim.stdout)   # the simulator reports its states differently
    if m:
        ctx.states += int(m.group(1))
        ctx.transitions += int(m.group(1))
    if len(sim.records) < num * workers * 10:
        raise D.Inconclusive("simulation emitted only %d cases" % len(sim.records))
    cases, seen = [], set()
    for r in mc.records + sim.records:
        if r["id"] not in seen:
            seen.add(r["id"])
            cases.append(r)
    n_long = sum(1 for r in cases if len(r["cs"]["s"]) >= 5)
    D.write_ndjson(ctx.path("cases.ndjson"), cases)
    n_exhaustive, n_cases = len(mc.records), len(cases)
    del cases, seen
    mc.records, sim.records = [], []          # several hundred thousand records: free them before reading the observations
    # direction A: every case in the real code
    D.run_harness(ctx, binary, ["run", ctx.path("cases.ndjson"), ctx.path("obs.ndjson")], timeout=900)
    obs = D.read_ndjson(ctx.path("obs.ndjson"))
    if len(obs) != n_cases:
        raise D.Inconclusive("harness wrote %d observations for %d cases" % (len(obs), n_cases))
    # role 3 (the driver judges large files in chunks)
    verdicts = D.judge(ctx, "C14_Judge", "C14_judge.cfg", ctx.path("obs.ndjson"), timeout=900)
    D.check_complete(verdicts, obs)
    malformed = [v for v in verdicts if v.get("sig", "").startswith("malformed|")]
    if malformed:
        raise D.Inconclusive("judge found %d malformed observation(s), e.g. %s" % (len(malformed), malformed[0]["id"]))
    dead_driver(obs)
    if ctx.tier == "thorough":
        corrupt_probe(ctx, obs)
    if os.environ.get("C14_NO_KNOWN") and D.REPO != "/repo":
        # trials on a scratch tree that already carries proposed_fixes/C14-*.diff: judge it as it will be judged once the
        # fix is committed and the known-finding lines are deleted (never honoured for /repo itself)
        D.load_known = lambda prop: []
    by_id = {o["id"]: o for o in obs}
    keys = [nontrivial_key(o) for o in obs]
    step = max(1, len(obs) // 5)
    ctx.extra["cases_exhaustive"] = n_exhaustive
    ctx.extra["cases_sampled_len_5_to_12"] = n_long
    ctx.extra["patients_via_jsonformat"] = sum(1 for o in obs if o.get("res") == "jsonformat")
    # programs of the whole abstract machine whose last step is one of this property's operations (lib/machine.py)
    verdicts = M.extend(ctx, verdicts, by_id)
    # node-level trace validation (spec/FPNodeTrace.tla): every node inside the repository's own tests, inside the machine
    # programs and inside a spread of the cases above is a checked transition; the value laws apply this property's reference
    # module to the logged values of every node's operands
    verdicts = NT.extend(ctx, verdicts, by_id, reruns=[
        (binary, ["run", NT.sample_cases(ctx, ctx.path("cases.ndjson"), 1500 if ctx.tier == "quick" else 12000), ctx.path("obs_traced.ndjson")])])
    return D.finish(
        ctx, verdicts, by_id, evaluations=len(obs),
        rule="every string over {a, b, U+00E9, U+20AC, U+1F600, U+0301} up to the tier's length x every function x every "
             "position/length/pattern the quantifier names (literal receivers), every other receiver kind on the short strings, "
             "plus simulator-drawn strings of 5..12 symbols; distinct = (function, receiver kind, ascii/multibyte receiver, "
             "argument kinds, receiver length, outcome kind, number of result items)",
        nontrivial_keys=keys,
        samples=[{"src": o["src"], "cs": o["cs"], "out": o["out"]} for o in obs[::step]],
        exhaustive=False,
        assumptions=["code points outside the model alphabet are not exercised (upper/lower carry the case mapping of the alphabet only)",
                     "strings longer than 12 code points are not exercised",
                     "matches/replaceMatches are judged by outcome kind only (regular expressions are not modelled)"])


def replay(ctx, binary):
    """Re-execute the case of a replay file against the current tree and judge it again."""
    import json
    rec = json.load(open(ctx.replay))
    if rec.get("property") != "C14" or "observation" not in rec:
        raise D.Inconclusive("not a C14 replay file: %s" % ctx.replay)
    D.write_ndjson(ctx.path("replay-obs.ndjson"), [rec["observation"]])
    D.write_params(ctx, {"ObsFile": ctx.path("replay-obs.ndjson")})
    cases = D.run_tlc(ctx, "C14_Render", "C14_render.cfg", workers=1).records
    if len(cases) != 1 or cases[0]["id"] != rec["observation"]["id"]:
        raise D.Inconclusive("the specification does not render the recorded case (malformed record)")
    D.write_ndjson(ctx.path("cases.ndjson"), cases)
    D.run_harness(ctx, binary, ["run", ctx.path("cases.ndjson"), ctx.path("obs.ndjson")])
    obs = D.read_ndjson(ctx.path("obs.ndjson"))
    verdicts = D.judge(ctx, "C14_Judge", "C14_judge.cfg", ctx.path("obs.ndjson"))
    D.check_complete(verdicts, obs)
    print("REPLAY %s: src=%s out=%s verdict=%s" % (obs[0]["id"], obs[0]["src"], json.dumps(obs[0]["out"])[:300],
                                                   "ok" if verdicts[0]["ok"] else verdicts[0]["sig"]))
    # no evidence is written for a replay (finish() would overwrite evidence/C14.json)
    v = verdicts[0]
    if v["ok"]:
        return 0
    if v["sig"].startswith("malformed|"):
        raise D.Inconclusive("malformed observation in replay")
    k = D.match_known(D.load_known(ctx.prop), v["sig"])
    if k is not None:
        print("KNOWN-FINDING: property=%s %s [%s]" % (ctx.prop, k["what"], v["sig"]))
        return 0
    print("VIOLATION property=%s replay=%s" % (ctx.prop, ctx.replay))
    print("  signature: %s" % v["sig"])
    return 1


def nontrivial_key(o):
    c, out = o["cs"], o["out"]
    multibyte = any(x > 127 for x in c["s"])
    return (c["fn"], c["rk"], multibyte, tuple(a["k"] + a["src"] for a in c["a"]), len(c["s"]), out["k"], len(out.get("items", [])))


def dead_driver(obs):
    """All records of one trivial shape, or no call that returned a value, is a machinery failure."""
    fns = {o["cs"]["fn"] for o in obs}
    kinds = {o["cs"]["rk"] for o in obs}
    values = sum(1 for o in obs if o["out"]["k"] == "ok" and o["out"]["items"])
    multibyte = sum(1 for o in obs if any(x > 127 for x in o["cs"]["s"]))
    if len(fns) < 16 or len(kinds) < 25 or values < len(obs) // 4 or multibyte < len(obs) // 4:
        raise D.Inconclusive("dead driver: %d functions, %d receiver kinds, %d calls with a value, %d multibyte receivers in %d records"
                             % (len(fns), len(kinds), values, multibyte, len(obs)))


def corrupt_probe(ctx, obs):
    """Binding demonstration: altered records must be rejected, exactly them."""
    picks = []
    for want_fn, alter in (("upper", lambda it: it["cp"].append(97)),
                           ("indexOf", lambda it: it.__setitem__("i", it["i"] + 1)),
                           ("startsWith", lambda it: it.__setitem__("b", not it["b"])),
                           ("toChars", None)):
        for o in obs:
            c = o["cs"]
            if c["fn"] == want_fn and c["rk"] == "lit" and o["out"]["k"] == "ok" and len(o["out"]["items"]) >= 1 \
                    and all(x < 128 for x in c["s"]) and all(a["k"] in "si" for a in c["a"]):
                v = copy.deepcopy(o)
                if alter is None:
                    v["out"]["items"].pop()
                else:
                    alter(v["out"]["items"][0])
                v["id"] = "corrupt:" + v["id"]
                picks.append(v)
                break
    if len(picks) != 4:
        raise D.Inconclusive("corrupted-record probe: no suitable records")
    genuine = [o for o in obs if o["cs"]["fn"] == "lower" and o["cs"]["rk"] == "lit"][:3]
    D.write_ndjson(ctx.path("corrupt.ndjson"), picks + genuine)
    vs = D.judge(ctx, "C14_Judge", "C14_judge.cfg", ctx.path("corrupt.ndjson"), tag="judge-corrupt")
    bad = sorted(v["id"] for v in vs if not v["ok"])
    if bad != sorted(p["id"] for p in picks):
        raise D.Inconclusive("corrupted-record probe: judge rejected %s, expected exactly the %d corrupted records" % (bad, len(picks)))
    ctx.extra["corrupted_record_rejected"] = True
