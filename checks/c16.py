"""C16 - Every built-in function is callable under its specification name and arity."""
from lib import driver as D

MUTANTS = ["arityOffByOne", "acceptUnknown", "notImplementedYieldsValue", "probeMissing", "experimentalLeaks", "customLeaks"]
# process histories: each is one harness process running, per letter, an epoch of all cases of a configuration
# (D default, E WithExperimentalFuncs, X WithExperimentalFuncs + AddFunction("zzCustom")), so that every configuration is
# compiled fresh, after each of the others, and X also after X
ORDERS = ["DEXED", "XXDE", "EDE"]
CFG = {"D": "default", "E": "experimental", "X": "custom"}

def run(ctx):
    binary = D.build_harness(ctx, "c16")
    D.stage_spec(ctx, params={"ObsFile": ""})
    # role 1 + 2: well-formedness of the N1 table, the acceptance rule as a machine, one case per (name, count, config)
    mc = D.model_check(ctx, "C16_MC", "C16_mc.cfg")
    cases = mc.records
    names = {c["name"] for c in cases}
    if len(cases) != len(names) * 5 * 3 or len(names) < 70:
        raise D.Inconclusive("generator emitted %d cases for %d names (want names x 5 counts x 3 configurations)" % (len(cases), len(names)))
    # quick keeps to the twins of the acceptance rule and of history independence; thorough runs all six
    for m in (MUTANTS if ctx.tier == "thorough" else ["arityOffByOne", "experimentalLeaks", "customLeaks"]):
        D.mutant_twin(ctx, "C16_MC", "C16_mut_%s.cfg" % m, m)
    D.write_ndjson(ctx.path("cases.ndjson"), cases)
    # direction A: every case (plus the names only the implementation's tables know) in the real code
    obs = []
    for order in ORDERS:
        D.run_harness(ctx, binary, ["run", ctx.path("cases.ndjson"), ctx.path("obs-%s.ndjson" % order), order])
        obs += D.read_ndjson(ctx.path("obs-%s.ndjson" % order))
    D.write_ndjson(ctx.path("obs.ndjson"), obs)
    verdicts = D.judge(ctx, "C16_Judge", "C16_judge.cfg", ctx.path("obs.ndjson"))
    D.check_complete(verdicts, obs)
    if any(v.get("sig", "").startswith("malformed") for v in verdicts):
        raise D.Inconclusive("judge found malformed records: %s" % [v["id"] for v in verdicts if v.get("sig", "").startswith("malformed")][:5])
    # dead-driver checks
    accepts = [o for o in obs if o["kind"] == "accept"]
    probes = [o for o in obs if o["kind"] == "probe"]
    evals = [o for o in obs if o["kind"] == "eval"]
    impl_only = sorted({o["cs"]["name"] for o in accepts if o["cs"]["origin"] == "impl"})
    epochs = {(o["proc"], o["epoch"], o["cs"]["cfg"], tuple(o["hist"])) for o in accepts}
    want_epochs = {(o, i + 1, CFG[o[i]], tuple(CFG[x] for x in o[:i])) for o in ORDERS for i in range(len(o))}
    if epochs != want_epochs:
        raise D.Inconclusive("process histories not as planned: %s" % sorted(epochs))
    if len(accepts) < 2 * 3 * len(cases) or len(probes) < 1200 or len(evals) < 600:
        raise D.Inconclusive("dead driver: %d accept, %d eval, %d probe records" % (len(accepts), len(evals), len(probes)))
    # guards count records that exist, not outcomes that a defect of the tree under test could change (only a loose floor on values)
    if sum(1 for o in probes if o["out"]["k"] == "ok") < 300:
        raise D.Inconclusive("dead driver: fewer than 300 probes evaluated to a value")
    custom = [o for o in probes if o["cs"]["name"] == "zzCustom"]
    if len([o for o in custom if o["cs"]["cfg"] == "custom"]) != sum(o.count("X") for o in ORDERS):      # one probe in every X epoch
        raise D.Inconclusive("dead driver: the custom function was probed in %d epochs" % len(custom))
    if ctx.tier == "thorough":
        corrupt_probe(ctx, obs)
    by_id = {o["id"]: o for o in obs}
    keys = [(o["kind"], o["pos"], len(o["hist"]), o["cs"]["name"], o["cs"]["count"], o["tbl"]["present"], o["out"]["k"]) for o in obs]
    ctx.extra.update({"spec_names": len(names), "names_only_in_implementation": impl_only,
                      "compilations": len(accepts), "default_calls_evaluated": len(evals), "probes_evaluated": len(probes)})
    step = max(1, len(obs) // 5)
    return D.finish(ctx, verdicts, by_id, evaluations=len(accepts) + len(evals) + len(probes),
                    rule="exhaustive: every name of the N1 function list (FPFunctions) and every name of the implementation's base and experimental "
                         "tables and the custom name zzCustom x argument counts 0..4 x {default, WithExperimentalFuncs, WithExperimentalFuncs + AddFunction(zzCustom)}, "
                         "each configuration compiled fresh, after each other one, and the custom one after itself, within one process "
                         "(histories D,E,X,E,D / X,X,D,E / E,D,E; the table read through funcs.Clone() must stay what it was at process start): Compile vs the implementation's table, the table's bounds vs "
                         "the specification's counts, every accepted call evaluated (no arity complaint; not-implemented names never a value), and "
                         "every probe of every callable (name, count) against the value stated in the table; distinct = (record kind, name, count, "
                         "in table, outcome kind)",
                    nontrivial_keys=keys,
                    samples=[{"id": o["id"], "src": o["src"], "tbl": o["tbl"], "out": o["out"]} for o in obs[::step]],
                    exhaustive=True,
                    assumptions=["probes run on <<MR1 Patient>> with %ints, %two, %strs, %tt, %tf, %ff and a fixed OverrideTime",
                                 "argument counts above 4 are not explored",
                                 "a probe states the N1 value of its own function on operands where N1 is unambiguous; it tests the binding of the "
                                 "name, not the full semantics of the function (C05, C08, C10, C13, C14)"])


def corrupt_probe(ctx, obs):
    """Binding demonstration: altered records must be rejected, exactly they."""
    import copy
    victims = []
    for o in obs:   # (a) the table entry of an accepted call claims narrower bounds
        if o["kind"] == "accept" and o["cs"]["name"] == "substring" and o["cs"]["count"] == 2 and o["out"]["k"] == "ok":
            v = copy.deepcopy(o); v["tbl"]["max"] = 1; victims.append(v); break
    for o in obs:   # (b) a probe result is replaced by another function's result
        if o["kind"] == "probe" and o["cs"]["name"] == "first" and o["out"]["k"] == "ok":
            v = copy.deepcopy(o); v["out"]["items"] = [{"t": "i", "i": 3}]; victims.append(v); break
    for o in obs:   # (d) the table read after an experimental epoch has gained an entry
        if o["kind"] == "accept" and o["cs"]["name"] == "join" and o["cs"]["cfg"] == "default" and o["epoch"] == 3 and o["pos"] == "plain" and o["cs"]["count"] == 0:
            v = copy.deepcopy(o); v["tbl"] = {"present": True, "min": 0, "max": 1, "sym": "impl.Join"}; v["out"] = {"k": "ok", "items": []}; victims.append(v); break
    for o in obs:   # (c) an accepted call complains about arity when evaluated
        if o["kind"] == "eval" and o["cs"]["name"] == "where" and o["out"]["k"] == "ok":
            v = copy.deepcopy(o); v["out"] = {"k": "err", "cls": ["WrongArity"], "msg": "x"}; victims.append(v); break
    if len(victims) != 4:
        raise D.Inconclusive("corrupted-record probe: found only %d suitable records" % len(victims))
    D.write_ndjson(ctx.path("corrupt.ndjson"), victims)
    vs = D.judge(ctx, "C16_Judge", "C16_judge.cfg", ctx.path("corrupt.ndjson"), tag="judge-corrupt")
    if len(vs) != 4 or any(v["ok"] for v in vs):
        raise D.Inconclusive("corrupted-record probe: judge accepted a corrupted record: %s" % [v["id"] for v in vs if v["ok"]])
    ctx.extra["corrupted_record_rejected"] = True
