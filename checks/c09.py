"""C09 - Date/time arithmetic matches calendar arithmetic and preserves precision; quantities
add, subtract and compare only within one unit.

  role 1  C09_Cal  : FPCalendar laws (400-year cycle, sampled 0001..9999, every day of the case years)
          C09_MC   : FPTemporal laws on every enumerated case; four mutant twins must fail
  role 2  C09_MC   : one JSON case per explored transition (quick / thorough pools)
          C09_Sim  : tlc -simulate sampling of the full product (thorough)
  run     harness/cmd/c09: literal / env / FHIR element / direct API / equality channels
  role 3  C09_Judge: one verdict per observation, in chunks judged by parallel TLC runs
"""
import collections, copy, os, re, threading, time
from concurrent.futures import ThreadPoolExecutor
from lib import driver as D

MUTANTS = ["noClamp", "weekIs5Days", "countNotDuration", "dropOffset"]
CHUNK = 8000          # observations per judge run (TLC keeps one copy of the observations per worker)
JUDGES = 4            # judge runs in flight
JUDGE_WORKERS = 4


class _SeedCtx:
    """The same scratch context under another -seed (parallel simulation runs)."""
    def __init__(self, ctx, seed):
        object.__setattr__(self, "_c", ctx)
        object.__setattr__(self, "seed", seed)

    def __getattr__(self, k):
        return getattr(self._c, k)

    def __setattr__(self, k, v):
        setattr(self._c, k, v)


def _par(jobs, width):
    """Run thunks concurrently; the first Inconclusive (or any error) propagates."""
    with ThreadPoolExecutor(max_workers=width) as ex:
        futs = [ex.submit(j) for j in jobs]
        return [f.result() for f in futs]


def judge_chunks(ctx, obs, tag="judge"):
    """Split the observations, judge the chunks with parallel TLC runs, return all verdicts."""
    base = ctx.path(tag + ".obs")
    D.write_params(ctx, {"ObsFile": base})
    names = []
    for k in range(0, len(obs), CHUNK):
        suffix = ".%d" % (k // CHUNK)
        D.write_ndjson(base + suffix, obs[k:k + CHUNK])
        cfg = "C09_%s_%d.cfg" % (tag, k // CHUNK)
        with open(ctx.path("spec", cfg), "w") as f:
            f.write('SPECIFICATION Spec\nCONSTANT Mutant = "none"\nCONSTANT Chunk = "%s"\n' % suffix)
        names.append(cfg)

    def one(cfg):
        def go():
            r = D.run_tlc(ctx, "C09_Judge", cfg, workers=JUDGE_WORKERS, timeout=1500, tag=cfg[:-4])
            if r.violated:
                raise D.Inconclusive("judge reported a TLC-level violation %s:\n%s" % (r.violated, r.stdout[-2000:]))
            return r.records
        return go
    out = []
    for recs in _par([one(c) for c in names], JUDGES):
        out.extend(recs)
    return out


def run(ctx):
    thorough = ctx.tier == "thorough"
    binary = D.build_harness(ctx, "c09")
    D.stage_spec(ctx)

    # role 1 (calendar laws, temporal laws) + role 2 (cases), with the mutant twins alongside
    box = {}

    def cal():
        box["cal"] = D.model_check(ctx, "C09_Cal", "C09_cal.cfg", workers=4)

    def gen():
        box["mc"] = D.model_check(ctx, "C09_MC", "C09_mc_%s.cfg" % ctx.tier, workers=max(4, D.NCPU - 6), timeout=1500)

    def twin(m):
        return lambda: D.mutant_twin(ctx, "C09_MC", "C09_mut_%s.cfg" % m, m, workers=2)

    def sim(k, num):
        def go():
            r = D.run_tlc(_SeedCtx(ctx, ctx.seed * 16 + k), "C09_Sim", "C09_sim.cfg", workers=1, simulate="num=%d" % num, depth=100,
                          tag="sim%d" % k, timeout=1200)
            if r.violated or r.error:
                raise D.Inconclusive("sampling run failed:\n" + r.stdout[-2000:])
            box["sim%d" % k] = r.records
        return go

    jobs = [gen, cal] + [twin(m) for m in (MUTANTS if thorough else MUTANTS[:2])]
    nsim = 4 if thorough else 1
    jobs += [sim(k, 500 if thorough else 40) for k in range(nsim)]      # 100 cases per trace
    _par(jobs, 5)
    if box["cal"].distinct < 600:
        raise D.Inconclusive("calendar laws were checked on only %d years" % box["cal"].distinct)

    cases, seen = [], set()
    for r in box["mc"].records + [c for k in range(nsim) for c in box["sim%d" % k]]:
        if r["id"] not in seen:
            seen.add(r["id"])
            cases.append(r)
    floor = 150000 if thorough else 40000
    if len(cases) < floor:
        raise D.Inconclusive("generator emitted only %d cases" % len(cases))
    D.write_ndjson(ctx.path("cases.ndjson"), cases)

    # direction A: replay every case in the real code
    D.run_harness(ctx, binary, ["run", ctx.path("cases.ndjson"), ctx.path("obs.ndjson")])
    obs = D.read_ndjson(ctx.path("obs.ndjson"))

    # role 3
    verdicts = judge_chunks(ctx, obs)
    D.check_complete(verdicts, obs)
    malformed = [v for v in verdicts if v.get("sig", "").startswith("malformed|")]
    if malformed:
        raise D.Inconclusive("%d malformed record(s), e.g. %s: %s" % (len(malformed), malformed[0]["id"], malformed[0]["sig"]))
    if thorough:
        corrupt_probe(ctx, obs, verdicts)

    by_id = {o["id"]: o for o in obs}
    kinds = collections.Counter(o["cs"]["kind"] for o in obs)
    if min(kinds.get(k, 0) for k in ("ar", "inv", "cmp", "qq")) == 0:
        raise D.Inconclusive("dead driver: a case kind is missing %s" % dict(kinds))
    nchan = sum(1 for o in obs for c in o["outs"].values() if c["k"] != "na")
    moved = sum(1 for o in obs if o["cs"]["kind"] == "ar" and o["outs"]["direct"]["k"] == "ok")
    if moved < len(obs) // 4:
        raise D.Inconclusive("dead driver: only %d direct calls returned a value" % moved)
    keys = [(o["cs"]["kind"], o["cs"]["x"]["t"], o["cs"]["x"]["p"], o["cs"]["op"], o["cs"]["q"]["unit"],
             (o["cs"]["q"]["th"] > 0) - (o["cs"]["q"]["th"] < 0), o["cs"]["q"]["th"] % 1000 == 0, o["outs"]["lit"]["k"]) for o in obs]
    step = max(1, len(obs) // 6)
    return D.finish(
        ctx, verdicts, by_id, evaluations=nchan,
        rule="cases enumerated by TLC from the property's quantifier (%s tier: %d cases = %s%s); every case is run through up to six "
             "channels (literal text, environment variables, FHIR element, direct system.*.Add/Sub, result = reference literal, "
             "inverse = x); distinct = (kind, type, precision, operator, unit spelling, amount sign, amount integral, outcome kind)"
             % (ctx.tier, len(obs), ", ".join("%s %d" % kv for kv in sorted(kinds.items())),
                "; of which %d sampled by tlc -simulate" % sum(len(box["sim%d" % k]) for k in range(nsim))),
        nontrivial_keys=keys,
        samples=[{"src": o["src"], "out": o["outs"]["lit"], "direct": o["outs"]["direct"]} for o in obs[::step]],
        exhaustive=False,
        assumptions=["amounts have at most three decimals and magnitude at most 2000 (the property lists 0..1000, fractional, negative)",
                     "FHIR element operands are Patient.birthDate and Observation.value[x] parsed by jsonformat with default time zone UTC",
                     "a result outside 0001-01-01..9999-12-31 may be any non-panicking outcome (Appendix F rule 5)"],
        extra={"calendar_years_checked": box["cal"].distinct, "channels_run": nchan})


def corrupt_probe(ctx, obs, verdicts):
    """Binding demonstration: shift one accepted result by a day; exactly that record must be rejected."""
    good = {v["id"] for v in verdicts if v["ok"]}
    victim = other = None
    for o in obs:
        out = o["outs"]["direct"]
        if o["id"] not in good or o["cs"]["kind"] != "ar" or out["k"] != "ok" or len(out["items"]) != 1:
            continue
        it = out["items"][0]
        if victim is None and it["t"] == "date" and it["p"] == 3 and it["d"] < 28 and o["outs"]["lit"] == out:
            victim = copy.deepcopy(o)
        elif other is None and it["t"] == "time":
            other = o
        if victim is not None and other is not None:
            break
    if victim is None or other is None:
        raise D.Inconclusive("corrupted-record probe: no suitable record")
    for ch in ("direct", "lit"):
        victim["outs"][ch]["items"][0]["d"] += 1
    vs = judge_chunks(ctx, [victim, other], tag="corrupt")
    bad = sorted(v["id"] for v in vs if not v["ok"])
    if bad != [victim["id"]]:
        raise D.Inconclusive("corrupted-record probe: the judge rejected %s, expected exactly %s" % (bad, [victim["id"]]))
    ctx.extra["corrupted_record_rejected"] = True
