"""C09 - Date/time arithmetic matches calendar arithmetic and preserves precision; quantities
add, subtract and compare only within one unit.

  role 1  C09_Cal  : FPCalendar laws (400-year cycle, sampled 0001..9999, every day of the case years)
          C09_MC   : FPTemporal laws on every enumerated case; four mutant twins must fail
  role 2  C09_MC   : one JSON case per explored transition (quick / thorough pools)
          C09_Sim  : tlc -simulate sampling of the full product
  run     harness/cmd/c09: literal / env / FHIR element / direct API / equality channels
  role 3  C09_Judge: one verdict per observation, in chunks judged by parallel TLC runs
"""
import collections, copy, json, os
from concurrent.futures import ThreadPoolExecutor
from lib import driver as D, machine as M, nodetrace as NT

MUTANTS = ["noClamp", "weekIs5Days", "countNotDuration", "dropOffset"]
CHUNK = 6000          # observations per judge run (TLC keeps one copy of the observations per worker)
JUDGES = 6            # judge runs in flight
JUDGE_WORKERS = 3


class _SeedCtx:
    """The same scratch context under another -seed (parallel simulation runs)."""
    def __init__(self, ctx, seed):
        object.__setattr__(self, "_c", ctx)
        object.__setattr__(self, "seed", seed)

    def __getattr__(self, k):
        return getattr(self._c, k)

    def __setattr__(self, k, v):
        setattr(self._c, k, v)


def _par(jobs, width):
    """Run thunks concurrently; the first Inconclusive (or any error) propagates."""
    with ThreadPoolExecutor(max_workers=width) as ex:
        futs = [ex.submit(j) for j in jobs]
        return [f.result() for f in futs]


def judge_lines(ctx, lines, tag="judge"):
    """Split the observation lines, judge the chunks with parallel TLC runs, return all verdicts."""
    base = ctx.path(tag + ".obs")
    D.write_params(ctx, {"ObsFile": base})
    names = []
    for k in range(0, len(lines), CHUNK):
        suffix = ".%d" % (k // CHUNK)
        with open(base + suffix, "w") as f:
            f.write("\n".join(lines[k:k + CHUNK]) + "\n")
        cfg = "C09_%s_%d.cfg" % (tag, k // CHUNK)
        with open(ctx.path("spec", cfg), "w") as f:
            f.write('SPECIFICATION Spec\nCONSTANT Mutant = "none"\nCONSTANT Chunk = "%s"\n' % suffix)
        names.append(cfg)

    def one(cfg):
        def go():
            r = D.run_tlc(ctx, "C09_Judge", cfg, workers=JUDGE_WORKERS, timeout=1500, tag=cfg[:-4])
            if r.violated:
                raise D.Inconclusive("judge reported a TLC-level violation %s:\n%s" % (r.violated, r.stdout[-2000:]))
            # the permitted set is only kept for rejected observations (memory)
            return [rec if not rec.get("ok") else {"id": rec["id"], "ok": True, "sig": ""} for rec in r.records]
        return go
    out = []
    for recs in _par([one(c) for c in names], JUDGES):
        out.extend(recs)
    return out


def run(ctx):
    thorough = ctx.tier == "thorough"
    binary = D.build_harness(ctx, "c09")
    D.stage_spec(ctx)

    # role 1 (calendar laws, temporal laws) + role 2 (cases), with the mutant twins alongside
    box = {}

    def cal():
        box["cal"] = D.model_check(ctx, "C09_Cal", "C09_cal.cfg", workers=4)

    def gen():
        box["mc"] = D.model_check(ctx, "C09_MC", "C09_mc_%s.cfg" % ctx.tier, workers=max(4, D.NCPU - 6), timeout=2400)

    def twin(m):
        return lambda: D.mutant_twin(ctx, "C09_MC", "C09_mut_%s.cfg" % m, m, workers=2)

    def sim(k, num):
        def go():
            r = D.run_tlc(_SeedCtx(ctx, ctx.seed * 16 + k), "C09_Sim", "C09_sim.cfg", workers=1, simulate="num=%d" % num, depth=100,
                          tag="sim%d" % k, timeout=1500)
            if r.violated or r.error:
                raise D.Inconclusive("sampling run failed:\n" + r.stdout[-2000:])
            box["sim%d" % k] = r
        return go

    jobs = [gen, cal] + [twin(m) for m in (MUTANTS if thorough else MUTANTS[:2])]
    nsim = 4 if thorough else 1
    jobs += [sim(k, 500 if thorough else 20) for k in range(nsim)]      # 100 cases per trace
    _par(jobs, 6)
    years = box["cal"].distinct
    if years < 600:
        raise D.Inconclusive("calendar laws were checked on only %d years" % years)

    seen, ncases, nsampled = set(), 0, 0
    with open(ctx.path("cases.ndjson"), "w") as f:
        for src in ["mc"] + ["sim%d" % k for k in range(nsim)]:
            for r in box[src].records:
                if r["id"] not in seen:
                    seen.add(r["id"])
                    f.write(json.dumps(r, separators=(",", ":")) + "\n")
                    ncases += 1
                    nsampled += src != "mc"
    box.clear()
    seen = None
    if ncases < (300000 if thorough else 40000):
        raise D.Inconclusive("generator emitted only %d cases" % ncases)

    # direction A: replay every case in the real code
    D.run_harness(ctx, binary, ["run", ctx.path("cases.ndjson"), ctx.path("obs.ndjson")])
    lines = [l for l in open(ctx.path("obs.ndjson")).read().split("\n") if l]

    # role 3
    verdicts = judge_lines(ctx, lines)
    if len(verdicts) != len(lines) or len({v["id"] for v in verdicts}) != len(lines):
        raise D.Inconclusive("judge returned %d verdicts for %d observations" % (len(verdicts), len(lines)))
    malformed = [v for v in verdicts if v.get("sig", "").startswith("malformed|")]
    if malformed:
        raise D.Inconclusive("%d malformed record(s), e.g. %s: %s" % (len(malformed), malformed[0]["id"], malformed[0]["sig"]))

    # one pass over the observations: counts, keys, samples, and the records of rejected observations
    rejected = {v["id"] for v in verdicts if not v["ok"]}
    probe = {}
    kinds, keys, samples, by_id = collections.Counter(), set(), [], {}
    nchan = values = 0
    step = max(1, len(lines) // 6)
    for n, l in enumerate(lines):
        o = json.loads(l)
        c = o["cs"]
        kinds[c["kind"]] += 1
        nchan += sum(1 for ch in o["outs"].values() if ch["k"] != "na")
        values += c["kind"] == "ar" and o["outs"]["direct"]["k"] == "ok"
        th = c["q"]["th"]
        keys.add((c["kind"], c["x"]["t"], c["x"]["p"], c["op"], c["q"]["unit"], (th > 0) - (th < 0), th % 1000 == 0, o["outs"]["lit"]["k"]))
        if n % step == 0:
            samples.append({"src": o["src"], "out": o["outs"]["lit"], "direct": o["outs"]["direct"]})
        if o["id"] in rejected:
            by_id[o["id"]] = o
        elif thorough and len(probe) < 2:
            pick_probe(o, probe)
    if min(kinds.get(k, 0) for k in ("ar", "inv", "cmp", "qq")) == 0:
        raise D.Inconclusive("dead driver: a case kind is missing %s" % dict(kinds))
    if values < len(lines) // 4:
        raise D.Inconclusive("dead driver: only %d direct calls returned a value" % values)
    if thorough:
        corrupt_probe(ctx, probe)

    # programs of the whole abstract machine whose last step is one of this property's operations (lib/machine.py)
    verdicts = M.extend(ctx, verdicts, by_id)
    # node-level trace validation (spec/FPNodeTrace.tla): every `temporal +/- quantity` node inside the repository's own tests,
    # the machine programs and a spread of the cases above is judged by FPTemporal on the node's logged operands (law temporal)
    verdicts = NT.extend(ctx, verdicts, by_id, reruns=[
        (binary, ["run", NT.sample_cases(ctx, ctx.path("cases.ndjson"), 1500 if ctx.tier == "quick" else 12000), ctx.path("obs_traced.ndjson")])])
    return D.finish(
        ctx, verdicts, by_id, evaluations=nchan,
        rule="cases enumerated by TLC from the property's quantifier (%s tier: %d cases = %s; of which %d sampled by tlc -simulate); "
             "every case is run through up to six channels (literal text, environment variables, FHIR element, direct "
             "system.*.Add/Sub, result = reference literal, inverse = x); distinct = (kind, type, precision, operator, unit "
             "spelling, amount sign, amount integral, outcome kind)"
             % (ctx.tier, len(lines), ", ".join("%s %d" % kv for kv in sorted(kinds.items())), nsampled),
        nontrivial_keys=list(keys), samples=samples, exhaustive=False,
        assumptions=["amounts have at most three decimals and magnitude at most 2000 (the property lists 0..1000, fractional, negative)",
                     "FHIR element operands are Patient.birthDate and Observation.value[x] parsed by jsonformat with default time zone UTC; "
                     "dateTime elements with a time part only for years 1700..2200 (jsonformat drops the fraction of far years)",
                     "a result outside 0001-01-01..9999-12-31 may be any non-panicking outcome (Appendix F rule 5)"],
        extra={"calendar_years_checked": years, "channels_run": nchan})


def pick_probe(o, probe):
    out = o["outs"]["direct"]
    if o["cs"]["kind"] != "ar" or out["k"] != "ok" or len(out["items"]) != 1:
        return
    it = out["items"][0]
    if "victim" not in probe and it["t"] == "date" and it["p"] == 3 and it["d"] < 28 and o["outs"]["lit"] == out:
        probe["victim"] = o
    elif "other" not in probe and it["t"] == "time":
        probe["other"] = o


def corrupt_probe(ctx, probe):
    """Binding demonstration: shift one accepted result by a day; exactly that record must be rejected."""
    if "victim" not in probe or "other" not in probe:
        raise D.Inconclusive("corrupted-record probe: no suitable record")
    victim = copy.deepcopy(probe["victim"])
    for ch in ("direct", "lit"):
        victim["outs"][ch]["items"][0]["d"] += 1
    vs = judge_lines(ctx, [json.dumps(victim), json.dumps(probe["other"])], tag="corrupt")
    bad = sorted(v["id"] for v in vs if not v["ok"])
    if bad != [victim["id"]]:
        raise D.Inconclusive("corrupted-record probe: the judge rejected %s, expected exactly %s" % (bad, [victim["id"]]))
    ctx.extra["corrupted_record_rejected"] = True
