"""C08 - Integer/Decimal arithmetic is exact; overflow and division by zero give empty.

Pipeline (lib/driver.py): TLC model-checks the laws of FPArith on the boundary pools and emits one case per
(operator, left operand, right operand); mutant twins of the constructive witnesses must violate a law; the Go
harness evaluates every case (and each operand alone) through the public API; the TLA+ judge decides every record
with the relational definitions of FPArith; `c08 xcheck` compares every accepted outcome and every proposed witness
with math/big (a disagreement is a specification bug: exit 2, never a verdict about the code).
The thorough tier adds seeded random int32 / decimal cases generated here and judged by the same TLA+ judge.
"""
import json, random, re
from lib import driver as D, machine as M, nodetrace as NT

MUTANTS = ["divRoundsDown", "noOverflowCheck", "negMinInt", "modSignOfDivisor",
           "quotient15", "ceilIsFloorPlusOne", "roundTruncates", "roundHalfDown"]
BINOPS = ["+", "-", "*", "/", "div", "mod"]
UNOPS = ["neg", "abs", "floor", "ceiling", "truncate", "round", "roundp"]
MININT, MAXINT = -2147483648, 2147483647
N_RANDOM = 20000


# ----------------------------------------------------------------------------- random cases (thorough tier)
# The records have exactly the shape C08_MC emits; the judge recomputes every text from `cs` and reports a record
# whose text differs as malformed (exit 2), so a rendering slip here can never become an alarm.

def op_i(n, src="env", ft=""):
    return {"t": "i", "i": n, "neg": False, "ds": [], "sc": 0, "src": src, "ft": ft}


def op_d(neg, ds, sc, src="env", ft=""):
    return {"t": "d", "i": 0, "neg": neg, "ds": ds, "sc": sc, "src": src, "ft": ft}


NO_OPERAND = {"t": "none", "i": 0, "neg": False, "ds": [], "sc": 0, "src": "", "ft": ""}


def mag_text(o):
    if o["t"] == "i":
        return str(abs(o["i"]))
    ds, sc = o["ds"], o["sc"]
    s = "".join(str(d) for d in ds)
    return s if sc == 0 else s[:len(ds) - sc] + "." + s[len(ds) - sc:]


def is_neg(o):
    return o["i"] < 0 if o["t"] == "i" else o["neg"]


def val_text(o):
    return ("-" if is_neg(o) else "") + mag_text(o)


def lit_text(o):
    return "(-" + mag_text(o) + ")" if is_neg(o) else mag_text(o)


def res_path(ft, slot):
    k = str(slot - 1)
    if ft in ("integer", "decimal"):
        return "Patient.extension[" + k + "].value"
    if ft == "positiveInt":
        return "Patient.telecom[" + k + "].rank"
    return "Patient.photo[" + k + "].size"


def operand_text(o, slot):
    if o["src"] == "lit":
        return lit_text(o)
    if o["src"] in ("env", "pb"):
        return "%a" if slot == 1 else "%b"
    if o["src"] == "res":
        return res_path(o["ft"], slot)
    return "{}"


def case_text(c):
    L = operand_text(c["l"], 1)
    Lp = "(" + L + ")" if c["l"]["src"] == "lit" and not is_neg(c["l"]) else L
    op = c["op"]
    if op in BINOPS:
        return L + " " + op + " " + operand_text(c["r"], 2)
    if op == "neg":
        return "-" + L
    if op == "roundp":
        return Lp + ".round(" + str(c["p"]) + ")"
    return Lp + "." + op + "()"


def dec_from_int(coef, sc, rng):
    """operand spelling coef * 10^-sc (coef a Python int), digits padded so that len(ds) > sc"""
    neg = coef < 0
    s = str(abs(coef))
    if len(s) <= sc:
        s = "0" * (sc + 1 - len(s)) + s
    return op_d(neg, [int(ch) for ch in s], sc)


def rand_int(rng):
    k = rng.random()
    if k < 0.35:
        return rng.randint(MININT, MAXINT)
    if k < 0.5:
        return max(MININT, min(MAXINT, rng.choice([MININT, MAXINT, 0]) + rng.randint(-3, 3)))
    if k < 0.65:
        return rng.randint(-100, 100)
    if k < 0.8:
        return rng.choice([1, -1]) * (46340 + rng.randint(-3, 3))
    e = rng.randint(1, 31)
    return max(MININT, min(MAXINT, rng.choice([1, -1]) * (2 ** e + rng.randint(-1, 1))))


def rand_dec(rng):
    k = rng.random()
    if k < 0.15:                       # short
        return dec_from_int(rng.randint(-99999, 99999), rng.randint(0, 4), rng)
    if k < 0.3:                        # a tie at some scale
        sc = rng.randint(1, 30)
        body = rng.randint(0, 10 ** rng.randint(1, 39 - 1) - 1)
        return dec_from_int(rng.choice([1, -1]) * (body * 10 + 5), sc, rng)
    if k < 0.45:                       # around the int32 / int64 / 2^53 boundaries with a fraction
        base = rng.choice([2 ** 31, 2 ** 31 - 1, 2 ** 32, 2 ** 53, 2 ** 63, 2 ** 64]) + rng.randint(-2, 2)
        sc = rng.randint(0, 12)
        frac = rng.choice([0, 5 * 10 ** (sc - 1) if sc else 0, rng.randint(0, 10 ** sc - 1), 10 ** sc - 1])
        return dec_from_int(rng.choice([1, -1]) * (base * 10 ** sc + frac), sc, rng)
    if k < 0.6:                        # just below / above an integer
        n = rng.randint(0, 1000)
        sc = rng.randint(16, 30)
        return dec_from_int(rng.choice([1, -1]) * (n * 10 ** sc + rng.choice([1, -1, 5, -5])), sc, rng) if n else \
            dec_from_int(rng.choice([1, -1]) * rng.choice([1, 5]), sc, rng)
    nd = rng.randint(1, 40)            # anything up to 40 significant digits, 0..30 fractional
    sc = rng.randint(0, 30)
    return dec_from_int(rng.choice([1, -1]) * rng.randint(0, 10 ** nd - 1), sc, rng)


def place(o, rng, slot_other_is_res=False):
    """pick a source for the operand"""
    o = dict(o)
    k = rng.random()
    if o["t"] == "i":
        n = o["i"]
        if k < 0.55:
            o["src"] = "env"
        elif k < 0.8 and n != MININT:
            o["src"] = "lit"
        else:
            fts = ["integer"] + (["positiveInt"] if n >= 1 else []) + (["unsignedInt"] if n >= 0 else [])
            o["src"], o["ft"] = rng.choice(["pb", "res"]), rng.choice(fts)
    else:
        if k < 0.55 or (o["sc"] == 0 and k < 0.85):
            o["src"] = "env"
        elif k < 0.85:
            o["src"] = "lit"
        else:
            o["src"], o["ft"] = rng.choice(["pb", "res"]), "decimal"
    return o


def structured_pair(rng, op):
    """operand pairs aimed at the boundaries of the operator"""
    k = rng.random()
    if op in ("+", "-") and k < 0.4:
        a = rand_int(rng)
        t = rng.choice([MAXINT, MININT]) + rng.randint(-2, 2)
        b = t - a if op == "+" else a - t
        if MININT <= b <= MAXINT:
            return op_i(a), op_i(b)
    if op == "*" and k < 0.4:
        a = rng.choice([1, -1]) * rng.randint(2, 70000)
        b = (2 ** 31) // a + rng.randint(-1, 1)
        if MININT <= b <= MAXINT:
            return op_i(a), op_i(b)
    if op in ("/", "div", "mod") and k < 0.5:
        # a = q*b + r with r near 0 or near b, decimals
        sc = rng.randint(0, 20)
        b = rng.choice([1, -1]) * rng.randint(1, 10 ** rng.randint(1, 20))
        q = rng.choice([rng.randint(-10, 10), rng.randint(MININT - 2, MAXINT + 2), rng.choice([MAXINT, MININT]) + rng.randint(-1, 1)])
        r = rng.choice([0, 1, -1, abs(b) - 1, 1 - abs(b)])
        a = q * b + r
        if rng.random() < 0.3 and sc == 0 and MININT <= a <= MAXINT and MININT <= b <= MAXINT:
            return op_i(a), op_i(b)
        return dec_from_int(a, sc, rng), dec_from_int(b, sc, rng)
    return None


def random_cases(seed, n):
    rng = random.Random(1000003 * seed + 8)
    out = []
    for j in range(n):
        binary = rng.random() < 0.7
        if binary:
            op = rng.choice(BINOPS)
            pair = structured_pair(rng, op)
            if pair is None:
                kinds = rng.random()
                a = rand_int(rng) if kinds < 0.45 or 0.8 <= kinds < 0.9 else None
                b = rand_int(rng) if kinds < 0.45 or kinds >= 0.9 else None
                pair = (op_i(a) if a is not None else rand_dec(rng), op_i(b) if b is not None else rand_dec(rng))
            if rng.random() < 0.04:
                pair = (pair[0], rng.choice([op_i(0), op_d(False, [0, 0], 1), op_d(True, [0, 0, 0], 2)]))
            c = {"op": op, "l": place(pair[0], rng), "r": place(pair[1], rng), "p": 0}
        else:
            op = rng.choice(UNOPS)
            a = op_i(rand_int(rng)) if rng.random() < 0.3 else rand_dec(rng)
            c = {"op": op, "l": place(a, rng), "r": NO_OPERAND, "p": rng.choice([0, 1, 2, 3, 8, 16, 30, -1]) if op == "roundp" else 0}
        out.append({"id": "rnd-%d-%d" % (seed, j), "cs": c, "text": case_text(c),
                    "ltext": operand_text(c["l"], 1), "rtext": operand_text(c["r"], 2)})
    return out


# ----------------------------------------------------------------------------- the check

def cls(o):
    if o["t"] == "i":
        return "minint" if o["i"] == MININT else "int"
    return "dec"


def run(ctx):
    binary = D.build_harness(ctx, "c08")
    D.stage_spec(ctx)
    # role 1 + 2: laws of FPArith at every case of the boundary pools; one case per explored transition
    mc = D.model_check(ctx, "C08_MC", "C08_mc_%s.cfg" % ctx.tier, timeout=1500)
    cases = mc.records
    if len(cases) < 5000:
        raise D.Inconclusive("generator emitted only %d cases" % len(cases))
    if len({c["id"] for c in cases}) != len(cases):
        raise D.Inconclusive("generator emitted duplicate case ids")
    exhaustive_cases = len(cases)
    # constant-level laws on small exhaustive ranges: the div / floor / ceiling / truncate relations are functional
    # (every candidate in a range is tried), long division agrees with TLC's native integers
    D.model_check(ctx, "C08_Laws", "C08_laws.cfg", timeout=600)
    muts = MUTANTS if ctx.tier == "thorough" else [MUTANTS[(ctx.seed + k) % len(MUTANTS)] for k in range(3)]
    for m in muts:
        D.mutant_twin(ctx, "C08_MC", "C08_mut_%s.cfg" % m, m, timeout=900)
    if ctx.tier == "thorough":
        for m in ("divRoundsDown", "ceilIsFloorPlusOne"):
            D.mutant_twin(ctx, "C08_Laws", "C08_laws_mut_%s.cfg" % m, "laws-" + m, timeout=600)
    if ctx.tier == "thorough":
        cases = cases + random_cases(ctx.seed, N_RANDOM)
    D.write_ndjson(ctx.path("cases.ndjson"), cases)
    # direction A (+ B for the random cases): run every case in the real code
    D.run_harness(ctx, binary, ["run", ctx.path("cases.ndjson"), ctx.path("obs.ndjson")])
    obs = D.read_ndjson(ctx.path("obs.ndjson"))
    # role 3: judge
    verdicts = D.judge(ctx, "C08_Judge", "C08_judge.cfg", ctx.path("obs.ndjson"), timeout=2400)
    D.check_complete(verdicts, obs)
    malformed = [v for v in verdicts if v.get("why") == "malformed" or str(v.get("sig", "")).startswith("malformed|")]
    if malformed:
        raise D.Inconclusive("judge found %d malformed record(s), e.g. %s %s" % (len(malformed), malformed[0]["id"], malformed[0]["sig"]))
    # the specification against math/big: every accepted outcome, every proposed witness
    D.write_ndjson(ctx.path("verdicts.ndjson"), verdicts)
    D.run_harness(ctx, binary, ["xcheck", ctx.path("obs.ndjson"), ctx.path("verdicts.ndjson"), ctx.path("xcheck.json")])
    xc = json.load(open(ctx.path("xcheck.json")))
    if xc["disagreements"]:
        raise D.Inconclusive("the TLA+ specification and math/big disagree on %d record(s) (a SPEC bug), e.g. %s" % (
            len(xc["disagreements"]), json.dumps(xc["disagreements"][:3])))
    if xc["outcomes_checked"] == 0 or xc["witnesses_checked"] == 0:
        raise D.Inconclusive("math/big cross-check covered nothing: %s" % xc)
    ctx.extra["mathbig_crosscheck"] = {"outcomes_checked": xc["outcomes_checked"], "witnesses_checked": xc["witnesses_checked"], "disagreements": 0}
    skipped = [v for v in verdicts if v.get("why") == "skip"]
    judged = [v for v in verdicts if v.get("why") != "skip"]
    if len(judged) < len(verdicts) // 2:
        raise D.Inconclusive("dead driver: only %d of %d records were judged" % (len(judged), len(verdicts)))
    ctx.extra["skipped_not_callable"] = {"count": len(skipped), "what": "round(precision) rejected by Compile (arity: property C16); value not judged"}
    if ctx.tier == "thorough":
        corrupt_probe(ctx, obs, verdicts)
    by_id = {o["id"]: o for o in obs}
    for o in obs:
        o["src"] = o["text"]           # for the driver's report lines
    vmap = {v["id"]: v for v in verdicts}
    keys = []
    for o in obs:
        c = o["cs"]
        if vmap[o["id"]].get("why") == "skip":
            continue
        out = o["out"]
        kind = out["k"] if out["k"] != "ok" else ("empty" if not out["items"] else out["items"][0].get("t", "?"))
        keys.append((c["op"], cls(c["l"]), c["l"]["src"], cls(c["r"]) if c["r"]["t"] != "none" else "-", c["r"]["src"], kind))
    samples = [{"src": o["text"], "out": o["out"]} for o in obs[:: max(1, len(obs) // 6)]]
    # programs of the whole abstract machine whose last step is one of this property's operations (lib/machine.py)
    verdicts = M.extend(ctx, verdicts, by_id)
    # node-level trace validation (spec/FPNodeTrace.tla): every node inside the repository's own tests, inside the machine
    # programs and inside a spread of the cases above is a checked transition; the value laws apply this property's reference
    # module to the logged values of every node's operands
    verdicts = NT.extend(ctx, verdicts, by_id, reruns=[
        (binary, ["run", NT.sample_cases(ctx, ctx.path("cases.ndjson"), 1500 if ctx.tier == "quick" else 12000), ctx.path("obs_traced.ndjson")])])
    return D.finish(ctx, verdicts, by_id, evaluations=3 * len(obs),
                    rule="every pair of the Integer boundary pool (22 values incl. the property's 15) x 6 operators from variables and from literals; "
                         "decimal pool (%s signed values: 0..30 fractional digits, up to 40 significant, ties, int32/int64/2^53 boundaries) squared x 6 operators; "
                         "mixed Integer/Decimal both orders; FHIR integer/positiveInt/unsignedInt/decimal elements (variables holding primitives and elements of a parsed Patient); "
                         "unary minus, abs, floor, ceiling, truncate, round, round(p) on every operand; %s"
                         "distinct = (operator, operand kinds, operand sources, outcome kind)" % (
                             "106" if ctx.tier == "thorough" else "32",
                             ("%d seeded random int32/decimal cases; " % N_RANDOM) if ctx.tier == "thorough" else ""),
                    nontrivial_keys=keys, samples=samples, exhaustive=True,
                    extra={"cases_exhaustive": exhaustive_cases, "cases_random": len(cases) - exhaustive_cases},
                    assumptions=["a Compile error for round(precision) is read as 'not callable' (the arity belongs to property C16) and the case is skipped (count in skipped_not_callable); round() is always judged",
                                 "a Decimal-typed integral result is accepted for `div` on Decimal operands and either numeric kind for round (the property text fixes the value, not the kind)",
                                 "`a mod b` may also be empty when `a div b` is outside int32 (the property defines mod through div)"])


def corrupt_probe(ctx, obs, verdicts):
    """binding demonstration: a genuine accepted record whose value is altered by one unit in the last place must be rejected, exactly it"""
    import copy
    ok_ids = {v["id"] for v in verdicts if v["ok"] and v.get("why") == "outcome"}
    victims = []
    want_ops = ["+", "*", "div", "mod", "floor", "round", "/"]
    for o in obs:
        if o["id"] in ok_ids and o["out"]["k"] == "ok" and len(o["out"]["items"]) == 1 and o["cs"]["op"] in want_ops:
            it = o["out"]["items"][0]
            v = copy.deepcopy(o)
            if it["t"] == "i" and -2147483000 < it["i"] < 2147483000:
                v["out"]["items"][0]["i"] = it["i"] + 1
            elif it["t"] == "d" and it["m"] and o["cs"]["op"] != "/":
                m = list(it["m"])
                m[0] = m[0] + 1 if m[0] % 10 != 9 else m[0] - 1
                if m[0] % 10 == 0:
                    continue
                v["out"]["items"][0]["m"] = m
            else:
                continue
            v["id"] = "corrupt-" + o["id"]
            victims.append(v)
            want_ops.remove(o["cs"]["op"])
            if len(want_ops) <= 1:
                break
    if len(victims) < 4:
        raise D.Inconclusive("corrupted-record probe: no suitable records")
    genuine = [o for o in obs if o["id"] in ok_ids][:3]
    D.write_ndjson(ctx.path("corrupt.ndjson"), victims + genuine)
    vs = D.judge(ctx, "C08_Judge", "C08_judge.cfg", ctx.path("corrupt.ndjson"), tag="judge-corrupt")
    bad = sorted(v["id"] for v in vs if not v["ok"])
    if bad != sorted(v["id"] for v in victims):
        raise D.Inconclusive("corrupted-record probe: judge rejected %s, expected exactly %s" % (bad, sorted(v["id"] for v in victims)))
    ctx.extra["corrupted_records_rejected"] = len(victims)
