"""C06 - Boolean operators follow FHIRPath three-valued logic for every operand form."""
from lib import driver as D, machine as M, nodetrace as NT

MUTANTS = ["andFalseNeedsBoth", "existsStopsAtFirstTrue", "orTrueNeedsBoth", "xorEmptyIsFalse", "impliesEmptyIsTrue"]


def run(ctx):
    binary = D.build_harness(ctx, "c06")
    D.stage_spec(ctx)
    # role 1 + 2: laws on the K3 tables and the per-case consequences; one case per explored transition
    mc = D.model_check(ctx, "C06_MC", "C06_mc.cfg")
    cases = mc.records
    if len(cases) < 2000:
        raise D.Inconclusive("generator emitted only %d cases" % len(cases))
    for m in (MUTANTS if ctx.tier == "thorough" else MUTANTS[:3]):
        D.mutant_twin(ctx, "C06_MC", "C06_mut_%s.cfg" % m, m)
    D.write_ndjson(ctx.path("cases.ndjson"), cases)
    # direction A: replay every case in the real code
    D.run_harness(ctx, binary, ["run", ctx.path("cases.ndjson"), ctx.path("obs.ndjson")])
    obs = D.read_ndjson(ctx.path("obs.ndjson"))
    # role 3: judge
    verdicts = D.judge(ctx, "C06_Judge", "C06_judge.cfg", ctx.path("obs.ndjson"))
    D.check_complete(verdicts, obs)
    # binding demonstration: a corrupted record must be rejected, exactly it
    if ctx.tier == "thorough":
        corrupt_probe(ctx, obs)
    by_id = {o["id"]: o for o in obs}
    keys = [(o["cs"]["ctx"], o["cs"]["op"], o["cs"]["l"]["val"], o["cs"]["r"]["val"], o["out"]["k"]) for o in obs]
    # programs of the whole abstract machine whose last step is one of this property's operations (lib/machine.py)
    verdicts = M.extend(ctx, verdicts, by_id)
    # node-level trace validation (spec/FPNodeTrace.tla): every Boolean node inside every program above and inside the
    # repository's own tests is a checked transition of the stack machine
    verdicts = NT.extend(ctx, verdicts, by_id, reruns=[
        (binary, ["run", ctx.path("cases.ndjson"), ctx.path("obs_traced.ndjson")])])
    return D.finish(ctx, verdicts, by_id, evaluations=3 * len(obs),
                    rule="exhaustive: every (context, operator, left form, right form) with form = value class x source kind "
                         "(28 expressible forms: true/false/empty/non-Boolean/multi-item/multi-item-of-Booleans x literal/element/computed/variable/function result; a multi-item literal cannot be written), and where/exists/all over a two-item focus whose criterion is one focus-independent form on the first item and another on the second (14 x 14 ordered pairs); distinct = (context, operator, value classes, outcome kind)",
                    nontrivial_keys=keys, samples=[{"src": o["src"], "out": o["out"]} for o in obs[:: max(1, len(obs) // 5)]],
                    exhaustive=True,
                    assumptions=["operand forms are evaluated on model resource MR1 with the five environment variables the harness supplies"])


def corrupt_probe(ctx, obs):
    import copy
    victim = None
    for o in obs:
        if o["out"]["k"] == "ok" and len(o["out"]["items"]) == 1 and o["out"]["items"][0].get("t") == "b" and o["cs"]["ctx"] == "binop":
            victim = copy.deepcopy(o)
            break
    if victim is None:
        raise D.Inconclusive("corrupted-record probe: no suitable record")
    victim["out"]["items"][0]["b"] = not victim["out"]["items"][0]["b"]
    D.write_ndjson(ctx.path("corrupt.ndjson"), [victim, obs[-1]])
    vs = D.judge(ctx, "C06_Judge", "C06_judge.cfg", ctx.path("corrupt.ndjson"), tag="judge-corrupt")
    bad = [v for v in vs if not v["ok"]]
    if [v["id"] for v in bad] != [victim["id"]] and not (len(bad) >= 1 and bad[0]["id"] == victim["id"]):
        raise D.Inconclusive("corrupted-record probe: judge did not reject the corrupted record")
    ctx.extra["corrupted_record_rejected"] = True
