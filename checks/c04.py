"""C04 - Compiled expressions are immutable, deterministic and goroutine-safe.

Model:   FPRegistry (spec/FPRegistry.tla over FPRegistryCore.tla) explored exhaustively with 2 / 3 goroutines,
         invariants + action properties, eight mutant twins that must fail.
Binding: (i)   Compile-call histories emitted by TLC, replayed, judged by C04_Judge
         (ii)  gated schedules emitted by TLC, replayed deterministically, judged by C04_Judge
         (iii) free-running stress under the race detector, validated by the trace specification C04_Trace
         (iv)  time programs under four process time zones, judged by C04_Judge
"""
import copy, json, os
from concurrent.futures import ThreadPoolExecutor
from lib import driver as D, machine as M, nodetrace as NT

MUTANTS = ["sharedTable", "nodeCache", "clockPerCall", "tzFromProcess",
           "expMutatesBase", "registerOverwrites", "sharedEnv", "firstErrorOnly"]
MUTANTS3 = [m for m in MUTANTS]          # the three-goroutine configuration rejects all eight as well
TZS = ["UTC", "Asia/Kolkata", "America/St_Johns", "Pacific/Chatham"]


def unique(cases):
    seen, out = set(), []
    for c in cases:
        if c["id"] not in seen:
            seen.add(c["id"])
            out.append(c)
    return out


def gen(ctx, cfg, tag, **kw):
    """Role 2 on one generator configuration (the invariants are checked on the way)."""
    r = D.run_tlc(ctx, "C04_MC", cfg, tag=tag, **kw)
    if r.violated:
        raise D.Inconclusive("specification violates %s while generating with %s:\n%s" % (r.violated, cfg, r.stdout[-2000:]))
    return r.records


def gen_menu(ctx):
    r = D.run_tlc(ctx, "C04_Menu", "C04_menu.cfg", tag="gen-menu", workers=1)
    if r.violated:
        raise D.Inconclusive("menu generation failed: %s" % r.stdout[-1500:])
    return r.records


def stress_configs(ctx):
    if ctx.tier == "quick":
        return [dict(g=8, e=14, r=3, procs=4, calls=24, cover=2, post=400, tz=TZS[ctx.seed % 4])]
    out = []
    i = 0
    for g, e, r, calls in ((2, 4, 1, 100), (8, 12, 3, 60), (32, 30, 4, 40)):
        for procs in (1, 4, 16):
            out.append(dict(g=g, e=e, r=r, procs=procs, calls=calls, cover=3 if g < 32 else 2, post=1200, tz=TZS[(i + ctx.seed) % 4]))
            i += 1
    return out


def run(ctx):
    quick = ctx.tier == "quick"
    binary = D.build_harness(ctx, "c04")
    racebin = D.build_harness(ctx, "c04", race=True)
    # the implementation's function tables: the stress menu has one coverage program per function
    D.run_harness(ctx, binary, ["funcs", "-", ctx.path("funcs.ndjson")])
    nfuncs = len(D.read_ndjson(ctx.path("funcs.ndjson")))
    if nfuncs < 60:
        raise D.Inconclusive("only %d functions dumped from the implementation's tables" % nfuncs)
    D.stage_spec(ctx, params={"ObsFile": "", "FuncFile": ctx.path("funcs.ndjson")})

    # ------------------------------------------------------------------ role 1: the model and its mutant twins
    # ------------------------------------------------------------------ role 2: cases (independent TLC runs, a few at a time)
    jobs = {}
    with ThreadPoolExecutor(max_workers=4) as ex:
        jobs["model2"] = ex.submit(D.model_check, ctx, "C04_MC", "C04_mc_quick.cfg", tag="model2", workers=6)
        if not quick:
            jobs["model3"] = ex.submit(D.model_check, ctx, "C04_MC", "C04_mc.cfg", tag="model3", workers=6)
            jobs["model2tz"] = ex.submit(D.model_check, ctx, "C04_MC", "C04_mc2.cfg", tag="model2tz", workers=6)
            jobs["model2t3"] = ex.submit(D.model_check, ctx, "C04_MC", "C04_mc_t3.cfg", tag="model2t3", workers=6)
        for m in (MUTANTS[:4] if quick else MUTANTS):
            jobs["mut-" + m] = ex.submit(D.mutant_twin, ctx, "C04_MC", "C04_mut_%s.cfg" % m, m, workers=3)
        if not quick:
            for m in MUTANTS3:
                jobs["mut3-" + m] = ex.submit(D.mutant_twin, ctx, "C04_MC", "C04_mut3_%s.cfg" % m, m + "-3", workers=3)
        G = lambda name, cfg, **kw: jobs.__setitem__(name, ex.submit(gen, ctx, cfg, "gen-" + name, **kw))
        G("schedA", "C04_schedA.cfg", workers=4)
        G("schedD", "C04_schedD.cfg", workers=4)
        G("time", "C04_time.cfg", workers=2)
        jobs["menu"] = ex.submit(gen_menu, ctx)
        if quick:
            G("hist1", "C04_hist1.cfg", workers=4)
            G("hist3-sim", "C04_hist3.cfg", simulate="num=40", depth=30, workers=4)
        else:
            G("hist2", "C04_hist2.cfg", workers=6)
            G("hist3s", "C04_hist3s.cfg", workers=6)
            G("hist3-sim", "C04_hist3.cfg", simulate="num=600", depth=30, workers=6)
            G("schedB", "C04_schedB.cfg", workers=6)
            G("sched3-sim", "C04_sched3.cfg", simulate="num=300", depth=60, workers=6)
    res = {k: f.result() for k, f in jobs.items()}       # re-raises Inconclusive
    three = lambda recs: [c for c in recs if len(c["calls"]) == 3]
    if quick:
        hist = unique(res["hist1"])
        n_exh = len(hist)
        hist = unique(hist + three(res["hist3-sim"]))[:n_exh + 220]
        import random
        d = sorted(unique(res["schedD"]), key=lambda c: c["id"])
        if len(d) != 924:
            raise D.Inconclusive("schedule generator emitted %d concat-style schedules, expected 924" % len(d))
        sched = unique(res["schedA"]) + random.Random(ctx.seed).sample(d, 150)
        want_sched = 252 + 150
    else:
        hist = unique(res["hist2"] + res["hist3s"])
        n_exh = len(hist)
        hist = unique(hist + three(res["hist3-sim"]))
        sched = unique(res["schedA"] + res["schedB"] + res["schedD"])
        want_sched = len(sched)
        if want_sched < 252 + 1716 + 924:
            raise D.Inconclusive("schedule generator emitted %d exhaustive schedules" % want_sched)
        sched = unique(sched + res["sched3-sim"])
    if n_exh < (114 if quick else 114 + 114 * 114):
        raise D.Inconclusive("history generator emitted only %d exhaustive histories" % n_exh)
    if len(sched) < want_sched:
        raise D.Inconclusive("schedule generator emitted %d schedules, expected at least %d" % (len(sched), want_sched))
    times = unique(res["time"])
    if len(times) < 40:
        raise D.Inconclusive("time generator emitted only %d cases" % len(times))
    menu = [r for r in res["menu"] if r.get("kind") == "stressmenu"]
    if len(menu) != 1:
        raise D.Inconclusive("stress menu not emitted")
    if len(menu[0].get("cover", [])) != nfuncs:
        raise D.Inconclusive("the stress menu covers %d of %d functions" % (len(menu[0].get("cover", [])), nfuncs))
    json.dump(menu[0], open(ctx.path("menu.json"), "w"))
    D.write_ndjson(ctx.path("hist.cases"), hist)
    D.write_ndjson(ctx.path("sched.cases"), sched)
    D.write_ndjson(ctx.path("time.cases"), times)
    ctx.extra.update({"histories": len(hist), "histories_exhaustive": n_exh, "schedules": len(sched), "time_cases": len(times)})

    # ------------------------------------------------------------------ direction A: replay in the real code
    D.run_harness(ctx, binary, ["hist", ctx.path("hist.cases"), ctx.path("hist.obs")])
    D.run_harness(ctx, binary, ["sched", ctx.path("sched.cases"), ctx.path("sched.obs")])
    D.run_harness(ctx, binary, ["time", ctx.path("time.cases"), ctx.path("time.obs")])
    obs = D.read_ndjson(ctx.path("hist.obs")) + D.read_ndjson(ctx.path("sched.obs")) + D.read_ndjson(ctx.path("time.obs"))
    D.write_ndjson(ctx.path("obs.ndjson"), obs)

    # ------------------------------------------------------------------ direction B: free-running stress under -race
    traces = []
    deferred = []          # machinery problems of one part; reported only if no part found a violation
    cfgs = stress_configs(ctx)
    for i, c in enumerate(cfgs):
        c.update(id="st:g%d-e%d-r%d-p%d-%s" % (c["g"], c["e"], c["r"], c["procs"], c["tz"]), seed=ctx.seed, menu=ctx.path("menu.json"))
        json.dump(c, open(ctx.path("stress%d.json" % i), "w"))

    def one(i):
        try:
            D.run_harness(ctx, racebin, ["stress", ctx.path("stress%d.json" % i), ctx.path("trace%d.json" % i)],
                          timeout=900, env={"TZ": cfgs[i]["tz"]})
            return json.load(open(ctx.path("trace%d.json" % i)))
        except D.Inconclusive as e:
            deferred.append("stress run %s: %s" % (cfgs[i]["id"], e))
            return None
    with ThreadPoolExecutor(max_workers=3) as ex:
        traces = [t for t in ex.map(one, range(len(cfgs))) if t is not None]
    D.write_ndjson(ctx.path("traces.ndjson"), traces)

    # ------------------------------------------------------------------ role 3: judge and trace validation
    verdicts = D.judge(ctx, "C04_Judge", "C04_judge.cfg", ctx.path("obs.ndjson"))
    D.check_complete(verdicts, obs)
    tverdicts = trace_judge(ctx, ctx.path("traces.ndjson"), traces) if traces else []
    allv = verdicts + tverdicts

    # machinery problems are never violations
    is_mal = lambda v: (v.get("sig", "").startswith("malformed|") or "|malformed|" in v.get("sig", "")
                        or "outside-library" in v.get("sig", ""))
    mal = [v for v in allv if is_mal(v)]
    if mal:
        deferred.append("malformed record(s) or a race outside the library: %s" % [(v["id"], v["sig"]) for v in mal[:5]])
        allv = [v for v in allv if not is_mal(v)]
    violations_present = any(not v.get("ok") for v in allv)
    unfollowed = [v["id"] for v in verdicts if v.get("followed") is False]
    ctx.extra["schedules_not_imposed"] = len(unfollowed)
    if not violations_present:
        # the guards below say "the check did not really run"; a violation found by any part outranks them
        if deferred:
            raise D.Inconclusive("; ".join(deferred))
        if len(unfollowed) > max(3, len(sched) // 10):
            raise D.Inconclusive("%d of %d schedules could not be imposed on the implementation (e.g. %s)" % (len(unfollowed), len(sched), unfollowed[:3]))
        dead_driver(ctx, obs, traces, verdicts)
        if not quick:
            corrupt_probe(ctx, obs, traces)
    else:
        for d in deferred:
            D.log("  note (not the verdict): " + d[:300])

    by_id = {o["id"]: o for o in obs}
    for t in traces:
        by_id[t["id"]] = {"src": "stress trace %s" % t["id"], "out": {"events": len(t["events"]), "races": t.get("races", 0)}, "cfg": t["cfg"]}
    for o in obs:     # what finish() prints for a violation
        if o["kind"] == "hist":
            o["src"] = " ; ".join("%s.Compile(%s) opts=%s" % (c["api"], c["text"], [x["o"] + ":" + x["name"] for x in c["opts"]]) for c in o["calls"])
            o["out"] = [{k: ob.get(k) for k in ("out", "steps", "eval", "after")} for ob in o["obs"]]
        elif o["kind"] == "sched":
            o["src"] = o["compile"]["text"] + "  schedule=" + o["id"]
            o["out"] = [ob["out"] for ob in o["obs"]]
        elif o["kind"] == "time":
            o["src"] = o["compile"]["text"]
            o["out"] = [{"tz": z["tz"], "out": z["out"]} for z in o["tzs"]]

    keys = []
    for o in obs:
        if o["kind"] == "hist" and any(c["opts"] for c in o["calls"]):
            keys.append(("hist", o["id"]))
        elif o["kind"] == "sched":
            vs = [s["v"] for s in o["steps"]]
            switches = sum(1 for a, b in zip(vs, vs[1:]) if a != b)
            if switches >= len(o["evals"]):
                keys.append(("sched", o["id"]))
        elif o["kind"] == "time":
            keys.append(("time", o["id"]))
    keys += [("stress", t["id"]) for t in traces]
    n_events = sum(len(t["events"]) for t in traces)
    evaluations = (sum(9 * len(o["calls"]) for o in obs if o["kind"] == "hist")
                   + sum(2 + 2 * len(o["evals"]) for o in obs if o["kind"] == "sched")
                   + sum(8 for o in obs if o["kind"] == "time") + n_events // 2)
    ctx.extra.update({"functions_in_table": nfuncs,
                      "functions_covered_concurrently": min([nfuncs - len(t.get("skipped", [])) for t in traces] or [0]),
                      "functions_skipped": sorted({n for t in traces for n in t.get("skipped", [])}),
                      "stress_traces": len(traces), "stress_events": n_events,
                      "race_reports": sum(t.get("races", 0) for t in traces),
                      "stress_configs": [t["id"] for t in traces]})
    samples = []
    for kind in ("hist", "sched", "time"):
        ks = [o for o in obs if o["kind"] == kind]
        if ks:
            o = ks[len(ks) // 2]
            samples.append({"id": o["id"], "src": o["src"], "out": o["out"]})
    if traces:
        samples.append({"id": traces[0]["id"], "events": traces[0]["events"][:2] + traces[0]["events"][-2:]})
    # the programs of the whole abstract machine, each compiled once and evaluated on its inputs, on other inputs, and on its
    # inputs again (lib/machine.py, spec/C04_RepeatJudge.tla): the outcome must not depend on what was evaluated before
    mobs, _, _ = M.observe(ctx, None)
    D.write_ndjson(ctx.path("repeat_obs.ndjson"), [{"id": "repeat/" + o["id"], "src": o["src"], "out": {"k": o["out"]["k"]}, "mut": o["mut"]} for o in mobs])
    rverdicts = D.judge(ctx, "C04_RepeatJudge", "C04_repeatjudge.cfg", ctx.path("repeat_obs.ndjson"), tag="judge-repeat")
    if len(rverdicts) != len(mobs):
        raise D.Inconclusive("repeat judge returned %d verdicts for %d programs" % (len(rverdicts), len(mobs)))
    for o in mobs:
        by_id["repeat/" + o["id"]] = {"src": o["src"], "out": o["out"], "mut": o["mut"]}
    # rebinding: hand-shaped programs `%v op literal` (both orders, inside where() and select()) compiled once and evaluated
    # with %v bound to a value of one kind, then of another kind (another unit, a number where a Quantity was, another
    # precision or type), then the first again (harness/cmd/c04/rebind.go); judged by the same C04_RepeatJudge
    D.run_harness(ctx, binary, ["rebind", "-", ctx.path("rebind_obs.ndjson")])
    robs = D.read_ndjson(ctx.path("rebind_obs.ndjson"))
    if len(robs) < 1000:
        raise D.Inconclusive("rebind stage produced only %d records" % len(robs))
    bverdicts = D.judge(ctx, "C04_RepeatJudge", "C04_repeatjudge.cfg", ctx.path("rebind_obs.ndjson"), tag="judge-rebind")
    if len(bverdicts) != len(robs):
        raise D.Inconclusive("repeat judge returned %d verdicts for %d rebinding programs" % (len(bverdicts), len(robs)))
    for o in robs:
        by_id[o["id"]] = {"src": o["src"], "out": o["out"], "mut": o["mut"]}
    rverdicts = rverdicts + bverdicts
    ctx.extra["rebinding_programs"] = len(robs)
    allv = allv + rverdicts
    ctx.extra["machine_programs_repeated"] = len(mobs)
    # node-level trace validation (spec/FPNodeTrace.tla): every node of one evaluation sees the same instant
    allv = NT.extend(ctx, allv, by_id, reruns=[(binary, ["time", ctx.path("time.cases"), ctx.path("time_traced.obs")])])
    return D.finish(
        ctx, allv, by_id, evaluations=evaluations,
        rule="histories: every Compile-call history of length 1 (quick) / <= 2 (thorough) over option lists of length <= 2 of "
             "{AddFunction vfA|vfB|exists|join, WithExperimentalFuncs, Permissive, Transform} x {fhirpath.Compile, patch.Compile}, "
             "every length-3 history over lists of length <= 1 (thorough) and a seeded sample of length-3 histories; schedules: every "
             "interleaving of the critical sections (InitializeContext, each option, each gate segment) of two gated evaluations of one "
             "expression on one resource, plus a seeded sample for three; time programs x {no override, 12 overrides, double override} x 4 "
             "process time zones; stress traces G x E x R x GOMAXPROCS under -race. distinct = histories with at least one option, "
             "schedules with at least as many context switches as evaluations, time cases, stress traces",
        nontrivial_keys=keys, samples=samples, exhaustive=False,
        assumptions=["the built-in table at process start (funcs.Clone()) defines the built-in names; experimentalTable = {join}",
                     "uninterpreted stress programs are judged only for being functions of (program, resource, %x)",
                     "data races are observed by the Go race detector on the schedules the run produced"])


def trace_judge(ctx, path, traces, tag="trace"):
    """The trace specification: one initial state per trace, -workers 1, verdicts from the POSTCONDITION."""
    D.write_params(ctx, {"ObsFile": path})
    r = D.run_tlc(ctx, "C04_Trace", "C04_trace.cfg", workers=1, timeout=1500, tag=tag)
    if r.violated or r.error:
        raise D.Inconclusive("trace specification failed: %s\n%s" % (r.violated, r.stdout[-3000:]))
    vs = unique([v for v in r.records if "at" in v])
    if {v["id"] for v in vs} != {t["id"] for t in traces}:
        raise D.Inconclusive("trace specification returned verdicts for %s, expected %s" % (sorted(v["id"] for v in vs), sorted(t["id"] for t in traces)))
    for v in vs:
        v["want"] = {"accepted_events": v["at"] - 1, "of": v["len"]}
    return vs


def dead_driver(ctx, obs, traces, verdicts):
    hist = [o for o in obs if o["kind"] == "hist"]
    ok_calls = sum(1 for o in hist for ob in o["obs"] if ob["out"] == "ok")
    err_calls = sum(1 for o in hist for ob in o["obs"] if ob["out"] == "cerr")
    bound = sum(1 for o in hist for ob in o["obs"] if ob["eval"].get("k") == "ok")
    if ok_calls < 20 or err_calls < 20 or bound < 10:
        raise D.Inconclusive("dead driver: histories with %d successful / %d failing Compile calls, %d bound evaluations" % (ok_calls, err_calls, bound))
    sched = [o for o in obs if o["kind"] == "sched"]
    gates = sum(1 for o in sched for a in o["arr"] if a["kind"] == "gate")
    if not sched or gates < len(sched):
        raise D.Inconclusive("dead driver: %d schedules, %d gate arrivals" % (len(sched), gates))
    tz_locals = {z["local"] for o in obs if o["kind"] == "time" for z in o["tzs"]}
    if len(tz_locals) < 4:
        raise D.Inconclusive("dead driver: the time children ran under %d distinct zone offsets" % len(tz_locals))
    for t in traces:
        kinds = {e["k"] for e in t["events"]}
        gs = {e["g"] for e in t["events"]}
        if not {"cb", "ce", "eb", "ee"} <= kinds or len(gs) != t["cfg"]["g"] + 1:
            raise D.Inconclusive("dead driver: stress trace %s has event kinds %s from %d goroutines" % (t["id"], sorted(kinds), len(gs)))
        # function coverage: every goroutine evaluated every covered function, and none of them before the goroutines started
        cov = [e for e in t["events"] if e["k"] == "eb" and 1500 <= e["call"]["eid"] < 2000]
        first_g = {}
        for e in cov:
            first_g.setdefault(e["call"]["eid"], e["g"])
        per_g = {}
        for e in cov:
            if e["g"] > 0:
                per_g.setdefault(e["g"], set()).add(e["call"]["eid"])
        want = len({e["call"]["eid"] for e in t["events"] if e["k"] == "cb" and 1500 <= e["call"]["eid"] < 2000})
        if want < 60 or any(g == 0 for g in first_g.values()) or len(per_g) != t["cfg"]["g"] or any(len(s) != want for s in per_g.values()):
            raise D.Inconclusive("dead driver: stress trace %s does not cover every function concurrently (%d programs)" % (t["id"], want))
        if len({(e["call"]["eid"], e["call"]["opts"][0]["val"]) for e in cov if e["g"] > 0}) != len([e for e in cov if e["g"] > 0]):
            raise D.Inconclusive("dead driver: coverage arguments of stress trace %s are not fresh" % t["id"])
    ctx.extra.update({"hist_calls_ok": ok_calls, "hist_calls_cerr": err_calls, "gate_arrivals": gates})


def corrupt_probe(ctx, obs, traces):
    """Binding demonstration: exactly the corrupted records / traces are rejected."""
    base = next(o for o in obs if o["kind"] == "base")
    h = copy.deepcopy(next(o for o in obs if o["kind"] == "hist" and o["obs"] and o["obs"][0]["out"] == "ok"))
    h["id"] = "corrupt-hist"
    h["obs"][-1]["after"]["vis"].append("vfA")
    s = copy.deepcopy(next(o for o in obs if o["kind"] == "sched" and not o["degraded"]))
    s["id"] = "corrupt-sched"
    it = next(x for x in s["obs"][-1]["out"]["items"] if x["t"] == "i")
    it["i"] += 1
    good_h = copy.deepcopy(next(o for o in obs if o["kind"] == "hist"))
    good_h["id"] = "intact-hist"
    t = copy.deepcopy(next(o for o in obs if o["kind"] == "time" and o["eval"]["opts"]))
    t["id"] = "corrupt-time"
    for x in t["tzs"][1]["out"]["items"]:
        if x["t"] == "dt":
            x["off"] = 60
    D.write_ndjson(ctx.path("corrupt.ndjson"), [base, h, s, good_h, t])
    vs = D.judge(ctx, "C04_Judge", "C04_judge.cfg", ctx.path("corrupt.ndjson"), tag="judge-corrupt")
    bad = sorted(v["id"] for v in vs if not v["ok"])
    if bad != ["corrupt-hist", "corrupt-sched", "corrupt-time"]:
        raise D.Inconclusive("corrupted-record probe: judge rejected %s" % bad)
    tr = copy.deepcopy(traces[0])
    tr["id"] = "corrupt-trace"
    i = next(i for i, e in enumerate(tr["events"]) if e["k"] == "ce" and e["g"] > 0)
    tr["events"][i]["out"] = "cerr" if tr["events"][i]["out"] == "ok" else "ok"
    tr2 = copy.deepcopy(traces[0])
    tr2["id"] = "race-trace"
    tr2["events"].append({"k": "race", "g": 0, "n": 0, "site": "probe"})
    tr3 = copy.deepcopy(traces[0])
    tr3["id"] = "intact-trace"
    D.write_ndjson(ctx.path("corrupt-traces.ndjson"), [tr, tr2, tr3])
    tv = trace_judge(ctx, ctx.path("corrupt-traces.ndjson"), [tr, tr2, tr3], tag="trace-corrupt")
    got = {v["id"]: (v["ok"], v["at"]) for v in tv}
    if got["corrupt-trace"] != (False, i + 1) or got["race-trace"][0] or not got["intact-trace"][0]:
        raise D.Inconclusive("corrupted-trace probe: %s (corrupted event at %d)" % (got, i + 1))
    ctx.extra["corrupted_record_rejected"] = True
