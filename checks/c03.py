"""C03 - evaluation never mutates its inputs."""
import os
from lib import driver as D

C10_PARAMS = {"ModelFile": os.path.join(D.SPEC, "gen", "ModelResources.json"),
              "ModelSchemaFile": os.path.join(D.SPEC, "gen", "ModelResourcesSchema.json")}


def run(ctx):
    b03 = D.build_harness(ctx, "c03")
    b10 = D.build_harness(ctx, "c10")
    D.stage_spec(ctx, params=dict(C10_PARAMS, ObsFile="/dev/null"))
    # (a) FPSlices: exhaustive behaviours of a caller-owned slice under pipelines of sub-slicing and appending steps
    cfg = "C03_mc.cfg" if ctx.tier == "quick" else "C03_mc_thorough.cfg"
    mc = D.model_check(ctx, "C03_MC", cfg, timeout=900)
    slice_cases = mc.records
    if len(slice_cases) < 1000:
        raise D.Inconclusive("FPSlices emitted only %d behaviours" % len(slice_cases))
    D.mutant_twin(ctx, "C03_MC", "C03_mut_appendInPlace.cfg", "appendInPlace", timeout=600)
    D.write_ndjson(ctx.path("slice_cases.ndjson"), slice_cases)
    D.run_harness(ctx, b03, ["run", ctx.path("slice_cases.ndjson"), ctx.path("obs_slice.ndjson")])
    # (b) the programs of the abstract machine's case generator (C10): every function and node kind, successful and failing,
    #     with environment collections that alias nodes of the resources; the harness snapshots every input around each call
    mc10 = D.model_check(ctx, "C10_MC", "C10_mc.cfg", timeout=900, tag="C10-programs")
    D.write_ndjson(ctx.path("prog_cases.ndjson"), mc10.records)
    D.run_harness(ctx, b10, ["run", ctx.path("prog_cases.ndjson"), ctx.path("obs_prog.ndjson")])
    obs = D.read_ndjson(ctx.path("obs_slice.ndjson")) + D.read_ndjson(ctx.path("obs_prog.ndjson"))
    for o in obs:
        o.pop("cs", None)
    D.write_ndjson(ctx.path("obs.ndjson"), obs)
    verdicts = D.judge(ctx, "C03_Judge", "C03_judge.cfg", ctx.path("obs.ndjson"), timeout=1800)
    D.check_complete(verdicts, obs)
    by_id = {o["id"]: o for o in obs}
    keys = [(o["kind"], o["src"], o["out"]["k"]) for o in obs]
    failing = sum(1 for o in obs if o["out"]["k"] != "ok")
    ctx.extra["failing_evaluations_checked"] = failing
    return D.finish(ctx, verdicts, by_id, evaluations=len(obs),
                    rule="(a) every behaviour of the FPSlices machine (caller slice of length 0..2 with 0..2 spare sentinel cells; pipelines of "
                         "tail/skip/take/select/`& 'x'` steps) replayed with real Go slices holding strings and holding nodes of the resource; "
                         "(b) every program of the abstract machine's generator (C10: 13 foci x all collection functions, criteria, set functions "
                         "whose argument collections alias resource nodes); before/after snapshots of resources (bytes, proto.Equal, presence bits) "
                         "and of every environment collection up to its capacity; distinct = (kind, source text, outcome kind)",
                    nontrivial_keys=keys, samples=[{"src": o["src"], "mut": o["mut"], "out_kind": o["out"]["k"]} for o in obs[:: max(1, len(obs) // 6)]],
                    exhaustive=False,
                    assumptions=["the mutation report is computed by the harness (lib/snapshot.go) from snapshots taken immediately before and after the call"])
