"""C02 - path navigation returns exactly the elements of the resource's FHIR JSON tree."""
import copy
from lib import driver as D, machine as M, nodetrace as NT

MUTANTS = ["firstChildOnly", "reverseOrder", "noFlatten"]


def run(ctx):
    binary = D.build_harness(ctx, "c02")
    trees, resources = ctx.path("trees.ndjson"), ctx.path("resources.ndjson")
    # inputs: schema-driven populated resources (descriptors + jsonformat only) and their annotated trees
    D.run_harness(ctx, binary, ["gen", trees, resources])
    ntrees = sum(1 for _ in open(trees))
    D.stage_spec(ctx, params={"TreeFile": trees, "ObsFile": "/dev/null"})
    mc = D.model_check(ctx, "C02_MC", "C02_mc.cfg", timeout=2400, heap="12g")
    cases = mc.records
    if len(cases) < 1000 * min(ntrees, 10):
        raise D.Inconclusive("generator emitted only %d cases for %d trees" % (len(cases), ntrees))
    # mutant twins run on the three model resources only (they fail at once)
    small = ctx.path("trees_small.ndjson")
    with open(trees) as f, open(small, "w") as g:
        for k, line in enumerate(f):
            if k < 3:
                g.write(line)
    D.write_params(ctx, {"TreeFile": small, "ObsFile": "/dev/null"})
    for m in (MUTANTS if ctx.tier == "thorough" else MUTANTS[:2]):
        D.mutant_twin(ctx, "C02_MC", "C02_mut_%s.cfg" % m, m, timeout=900)
    D.write_ndjson(ctx.path("cases.ndjson"), cases)
    D.run_harness(ctx, binary, ["run", resources, ctx.path("cases.ndjson"), ctx.path("obs.ndjson")])
    obs = D.read_ndjson(ctx.path("obs.ndjson"))
    verdicts = D.judge(ctx, "C02_Judge", "C02_judge.cfg", ctx.path("obs.ndjson"), params={"TreeFile": trees}, timeout=3600, heap="12g")
    D.check_complete(verdicts, obs)
    if ctx.tier == "thorough":
        corrupt_probe(ctx, obs, trees)
    by_id = {o["id"]: {k: v for k, v in o.items() if k != "steps"} for o in obs}
    keys = [(o["ti"], o["kind"], o["src"]) for o in obs if o["out"]["k"] == "ok" and o["out"]["items"]]
    ctx.extra["resources"] = ntrees
    # programs of the whole abstract machine whose last step is one of this property's operations (lib/machine.py)
    verdicts = M.extend(ctx, verdicts, by_id)
    # node-level trace validation (spec/FPNodeTrace.tla): in every sequence a.b.c each node's input is its predecessor's output
    verdicts = NT.extend(ctx, verdicts, by_id)
    return D.finish(ctx, verdicts, by_id, evaluations=len(obs),
                    rule="resources: MR1-3 plus schema-driven fully populated instances (quick: 27 types rotating with the seed + 6 randomly "
                         "thinned; thorough: all 146 types x 2 instances + 60 thinned); cases: TLC walks every name path of every tree and emits "
                         "the un-indexed path, indexers 0/1/n-1/n/n+1, the fully indexed path of the first and last node, .value of primitive "
                         "leaves, an unknown name, every schema name absent from the instance, and a mismatched root; distinct non-trivial = "
                         "(tree, kind, source text) with a non-empty result",
                    nontrivial_keys=keys,
                    samples=[{"src": o["src"], "kind": o["kind"], "tree": o["ti"], "out_kind": o["out"]["k"], "n": len(o["out"].get("items", []))} for o in obs[:: max(1, len(obs) // 6)]],
                    exhaustive=False,
                    assumptions=["the annotated tree is built from google/fhir jsonformat's rendering and the proto descriptors; its self-check (every JSON member has a node) ran for every resource"])


def corrupt_probe(ctx, obs, trees):
    victim = None
    for o in obs:
        if o["kind"] == "path" and o["out"]["k"] == "ok" and len(o["out"]["items"]) >= 2:
            victim = copy.deepcopy(o)
            break
    if victim is None:
        raise D.Inconclusive("corrupted-record probe: no suitable record")
    victim["out"]["items"] = victim["out"]["items"][1:]        # drop the first element
    D.write_ndjson(ctx.path("corrupt.ndjson"), [victim, obs[0]])
    vs = D.judge(ctx, "C02_Judge", "C02_judge.cfg", ctx.path("corrupt.ndjson"), params={"TreeFile": trees}, tag="judge-corrupt")
    if not any((not v["ok"]) and v["id"] == victim["id"] for v in vs):
        raise D.Inconclusive("corrupted-record probe: judge did not reject the corrupted record")
    ctx.extra["corrupted_record_rejected"] = True
