"""C11 - parsing respects FHIRPath precedence, associativity and token boundaries."""
import json
from lib import driver as D

MUTANTS = ["additiveRightAssoc", "andBindsLooserThanOr", "typeOpBelowEquality", "noParensForRightChild", "redundantParens"]


def run(ctx):
    binary = D.build_harness(ctx, "c11")
    thorough = ctx.tier == "thorough"
    params = {"ObsFile": "", "Seed": ctx.seed % 1000, "PerShape": 8 if thorough else 1, "MaxSimDepth": 6, "MinEmitDepth": 4}
    D.stage_spec(ctx, params=params)
    if getattr(ctx, "replay", None):
        cases = [replay_case(ctx.replay)]
    else:
        cases = generate(ctx, thorough)
    D.write_ndjson(ctx.path("cases.ndjson"), cases)
    # direction A: both renderings of every tree, under every decoration, in the real code
    D.run_harness(ctx, binary, ["run", ctx.path("cases.ndjson"), ctx.path("obs.ndjson")])
    obs = D.read_ndjson(ctx.path("obs.ndjson"))
    # role 3: judge
    verdicts = judge_chunked(ctx, obs)
    D.check_complete(verdicts, obs)
    malformed = [v for v in verdicts if v.get("sig", "").startswith("malformed")]
    if malformed:
        raise D.Inconclusive("%d record(s) rejected as malformed by the judge, e.g. %s" % (len(malformed), malformed[0]))
    if thorough and not getattr(ctx, "replay", None):
        corrupt_probe(ctx, obs)
    by_id = {o["id"]: o for o in obs}
    if not getattr(ctx, "replay", None):
        dead_driver(obs)
    if getattr(ctx, "replay", None):
        return replay_report(ctx, verdicts, by_id)
    keys = [(o["cls"].split(":")[0], shape_key(o["ast"]), o["expectKind"], o["out"]["k"]) for o in obs]
    evaluations = sum(o["evals"] for o in obs)
    step = max(1, len(obs) // 5)
    return D.finish(
        ctx, verdicts, by_id, evaluations=evaluations,
        rule="every ordered pair of the 22 binary operators of the 9 binary levels in both nestings, every unary-like constructor "
             "(polarity, indexer, function invocation, is/as) over/under/beside 16 binary operators and over each other, binary and unary "
             "operators inside 8 argument/index contexts, root-type paths in left/right/argument position; leaves chosen by the "
             "specification's evaluator so that the other association evaluates differently; thorough adds random trees of depth 4-6 "
             "(tlc -simulate). distinct = (shape class, top operator with child operators, expected kind, observed kind)",
        nontrivial_keys=keys,
        samples=[{"src": o["src"], "full": " ".join(o["tokensFull"]), "out": o["out"], "expect": o["expectKind"]} for o in obs[::step]],
        exhaustive=False,
        assumptions=["expressions are evaluated on model resource MR1 with environment variables %vt = true and %vi = 5",
                     "trees whose evaluation divides by a literal zero are left out (C08 owns the divide-by-zero panic)"],
        extra={"cases": len(obs), "variants_per_case": len(obs[0]["variants"]) if obs else 0,
               "cases_value_checked": sum(1 for o in obs if o["expectKind"] == "ok"),
               "cases_distinguishing": sum(1 for o in obs if o.get("dist"))})


CHUNK = 5000


def judge_chunked(ctx, obs):
    """The judge reads a whole observation file into memory; keep each TLC run modest."""
    verdicts = []
    for n, i in enumerate(range(0, len(obs), CHUNK)):
        path = ctx.path("obs-%02d.ndjson" % n)
        D.write_ndjson(path, obs[i:i + CHUNK])
        verdicts += D.judge(ctx, "C11_Judge", "C11_judge.cfg", path, tag="judge-%02d" % n, timeout=900)
    return verdicts


def shape_key(t):
    def op(x):
        return x.get("op") or (x.get("m", {}).get("name") if x.get("k") == "inv" else None) or x.get("name") or x.get("k")
    kids = [t[c] for c in ("l", "r", "e", "i") if c in t]
    return (t["k"], op(t), tuple((k["k"], op(k)) for k in kids))


def generate(ctx, thorough):
    # role 1: the round-trip laws on all trees to depth 3 over one operator per level; mutant twins must fail
    D.model_check(ctx, "C11_MC", "C11_laws.cfg")
    for m in (MUTANTS if thorough else MUTANTS[:1] + MUTANTS[3:4]):
        D.mutant_twin(ctx, "C11_MC", "C11_mut_%s.cfg" % m, m)
    # role 2: one behaviour per shape; leaves chosen by the evaluator
    gen = D.model_check(ctx, "C11_MC", "C11_gen.cfg")
    recs = list(gen.records)
    if len(recs) < 1500:
        raise D.Inconclusive("generator emitted only %d cases" % len(recs))
    if thorough:
        sim = D.run_tlc(ctx, "C11_MC", "C11_sim.cfg", simulate="num=450", depth=12, tag="sim")
        if sim.violated:
            raise D.Inconclusive("simulation violates the specification's own laws: %s" % sim.violated)
        if len(sim.records) < 2000:
            raise D.Inconclusive("simulation emitted only %d cases" % len(sim.records))
        recs += sim.records
    seen, cases = set(), []
    for r in recs:
        key = " ".join(r["tokensMin"])
        if key in seen:
            continue
        seen.add(key)
        r["id"] = "c%06d" % len(cases)
        cases.append(r)
    return cases


def replay_case(path):
    rec = json.load(open(path))
    o = rec["observation"]
    return {k: o[k] for k in ("id", "ast", "tokensMin", "tokensFull", "gapsMin", "gapsFull", "expectKind", "depth", "cls", "dist")}


def replay_report(ctx, verdicts, by_id):
    """Re-judge one recorded case; the evidence of the last full run is left alone."""
    import os
    ev = os.path.join(D.VERIF if D.REPO == "/repo" else os.path.join(D.WORKROOT, "alt"), "evidence", ctx.prop + ".json")
    saved = open(ev).read() if os.path.exists(ev) else None
    rc = D.finish(ctx, verdicts, by_id, evaluations=0, rule="replay of one recorded case", nontrivial_keys=[], samples=[])
    if saved is not None:
        open(ev, "w").write(saved)
    elif os.path.exists(ev):
        os.remove(ev)
    return rc


def dead_driver(obs):
    kinds = {o["out"]["k"] for o in obs}
    if len(obs) < 1000 or not {"ok", "cerr"} <= kinds:
        raise D.Inconclusive("dead driver: %d observations with outcome kinds %s" % (len(obs), sorted(kinds)))
    if sum(1 for o in obs if o["expectKind"] == "ok" and o.get("dist")) < 300:
        raise D.Inconclusive("dead driver: too few distinguishing value-checked cases")


def corrupt_probe(ctx, obs):
    """Binding demonstration: the judge must reject exactly the records we corrupt."""
    import copy
    val = next((o for o in obs if o["expectKind"] == "ok" and o["out"]["k"] == "ok" and len(o["out"]["items"]) == 1
                and o["out"]["items"][0].get("t") == "i"), None)
    par = next((o for o in obs if o["expectKind"] == "ok" and o["tokensMin"] != o["tokensFull"] and o is not val), None)
    good = obs[-1]
    if val is None or par is None:
        raise D.Inconclusive("corrupted-record probe: no suitable record")
    a = copy.deepcopy(val)           # a wrong value in every variant
    for oh in a["outs"]:
        a["outs"][oh]["items"][0]["i"] += 1
    b = copy.deepcopy(par)           # the full rendering evaluates differently
    for v in b["variants"]:
        if v["r"] == "full":
            v["oh"] = "hcorrupt"
    b["outs"]["hcorrupt"] = {"k": "ok", "items": []}
    c = copy.deepcopy(par)           # a junk-extended source was accepted
    c["id"] = c["id"] + "-junk"
    c["junkAccepted"] = [{"r": "min", "j": ")", "k": "compiled"}]
    D.write_ndjson(ctx.path("corrupt.ndjson"), [a, b, c, good])
    vs = {v["id"]: v for v in D.judge(ctx, "C11_Judge", "C11_judge.cfg", ctx.path("corrupt.ndjson"), tag="judge-corrupt")}
    want = {a["id"]: "syntax|value-differs", b["id"]: "syntax|renderings-evaluate-differently", c["id"]: "syntax|trailing-junk-accepted"}
    for rid, prefix in want.items():
        if vs[rid]["ok"] or not vs[rid]["sig"].startswith(prefix):
            raise D.Inconclusive("corrupted-record probe: %s not rejected as %s (got %s)" % (rid, prefix, vs[rid]))
    ctx.extra["corrupted_record_rejected"] = True
