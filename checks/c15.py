"""C15 - literals and value representations round-trip losslessly.

Six families (case kinds / signature prefixes): lit-string, lit-decimal, lit-temporal,
proto-precision, fhir-helpers, narrow.  TLC checks the laws of spec/FPLiterals.tla on the
case pools and emits the cases (C15_MC), the Go harness replays them against the real code,
TLC judges the observations (C15_Judge).  Python only orchestrates and counts."""
import copy
from lib import driver as D, machine as M

MUTANTS = ["dropLoneBackslash", "noUnicodeEscape", "timeKeepsHiddenFraction", "narrowOffByOne"]
FAMILIES = ["lit-string", "lit-decimal", "lit-temporal", "proto-precision", "fhir-helpers", "narrow"]
MIN_CASES = {"quick": 5000, "thorough": 30000}


def run(ctx):
    binary = D.build_harness(ctx, "c15")
    D.stage_spec(ctx, params={"Seed": ctx.seed, "ObsFile": ""})
    if getattr(ctx, "replay", None):
        return replay(ctx, binary)
    # role 1 + 2: the laws of FPLiterals on every case of the pools; one case per explored state
    mc = D.model_check(ctx, "C15_MC", "C15_mc_%s.cfg" % ctx.tier, timeout=900, workers=4)
    cases = mc.records
    per_family = {f: sum(1 for c in cases if c["kind"] == f) for f in FAMILIES}
    D.log("  cases per family: %s" % per_family)
    if len(cases) < MIN_CASES[ctx.tier] or any(n == 0 for n in per_family.values()):
        raise D.Inconclusive("generator emitted too few cases: %s" % per_family)
    if len({c["id"] for c in cases}) != len(cases):
        raise D.Inconclusive("generator emitted duplicate case ids")
    for m in (MUTANTS if ctx.tier == "thorough" else MUTANTS[:2] + MUTANTS[3:]):
        D.mutant_twin(ctx, "C15_MC", "C15_mut_%s.cfg" % m, m, timeout=300, workers=4)
    D.write_ndjson(ctx.path("cases.ndjson"), cases)
    # direction A: replay every case in the real code
    D.run_harness(ctx, binary, ["run", ctx.path("cases.ndjson"), ctx.path("obs.ndjson")], timeout=1500)
    obs = D.read_ndjson(ctx.path("obs.ndjson"))
    # role 3: judge
    verdicts = D.judge(ctx, "C15_Judge", "C15_judge.cfg", ctx.path("obs.ndjson"), params={"Seed": ctx.seed}, timeout=1500, workers=4)
    D.check_complete(verdicts, obs)
    if any(v.get("sig", "").startswith("malformed") for v in verdicts):
        raise D.Inconclusive("judge found malformed records: %s" % [v for v in verdicts if v.get("sig", "").startswith("malformed")][:3])
    if ctx.tier == "thorough":
        corrupt_probe(ctx, obs)
    by_id = {o["id"]: o for o in obs}
    evaluations = sum(o.get("calls", 1) for o in obs)
    keys = [nontrivial_key(o) for o in obs]
    step = max(1, len(obs) // 5)
    # the literals of the whole abstract machine (each is a program of its own: the text denotes the item; lib/machine.py)
    verdicts = M.extend(ctx, verdicts, by_id)
    return D.finish(ctx, verdicts, by_id, evaluations=evaluations,
                    rule="distinct = (family, sub-family, shape class of the case: token kinds of a string body / precision, "
                         "fraction digits and offset form of a temporal text / digit count of a number / element kind and "
                         "precision enum / integer type pair, outcome kind)",
                    nontrivial_keys=keys,
                    samples=[{"id": o["id"], "src": o.get("src", ""), "out": o.get("out", "")} for o in obs[::step]],
                    exhaustive=False,
                    extra={"cases_per_family": per_family},
                    assumptions=["string bodies are exhaustive up to the configured length over a 13-symbol alphabet and seeded-random up to length 10",
                                 "integer narrowing is exercised on a 64-bit platform (int = int64, uint = uintptr = uint64)"])


def nontrivial_key(o):
    cs = o["cs"]
    k = o["kind"]
    outk = (o.get("out") or {}).get("k", "") if isinstance(o.get("out"), dict) else ""
    if k == "lit-string":
        body = cs["body"]
        shape = (92 in body, 39 in body, 117 in body, any(c > 127 for c in body), len(body))
    elif k in ("lit-decimal", "lit-temporal"):
        t = cs["text"]
        shape = (len(t), 46 in t, 84 in t, 90 in t, 43 in t)
    elif k in ("proto-precision", "fhir-helpers"):
        el = cs.get("el", {})
        shape = (cs.get("ek", el.get("ek", "")), el.get("prec", ""), el.get("tzs", ""))
    else:
        shape = (cs.get("api"), cs.get("from"), cs.get("to"))
    return (k, cs.get("sub", ""), shape, outk)


def corrupt_probe(ctx, obs):
    """Binding demonstration: one altered field of one genuine record must be rejected, exactly it."""
    victim = None
    for o in obs:
        if o["kind"] == "lit-string" and o["out"].get("k") == "ok" and len(o["out"]["items"]) == 1 \
                and o["out"]["items"][0].get("t") == "s" and len(o["out"]["items"][0]["cp"]) >= 2 and 39 not in o["cs"]["body"] and 92 not in o["cs"]["body"]:
            victim = copy.deepcopy(o)
            break
    if victim is None:
        raise D.Inconclusive("corrupted-record probe: no suitable record")
    victim["out"]["items"][0]["cp"] = victim["out"]["items"][0]["cp"][:-1]
    D.write_ndjson(ctx.path("corrupt.ndjson"), [victim, obs[-1]])
    vs = D.judge(ctx, "C15_Judge", "C15_judge.cfg", ctx.path("corrupt.ndjson"), params={"Seed": ctx.seed}, tag="judge-corrupt", workers=4)
    bad = [v for v in vs if not v["ok"]]
    if not bad or bad[0]["id"] != victim["id"]:
        raise D.Inconclusive("corrupted-record probe: judge did not reject the corrupted record")
    ctx.extra["corrupted_record_rejected"] = True


def replay(ctx, binary):
    """bin/check C15 --replay <file>: re-execute the single case of a replay file and re-judge it."""
    import json
    rec = json.load(open(ctx.replay))
    case = rec.get("observation", {}).get("cs")
    if case is None:
        raise D.Inconclusive("replay file has no observation.cs")
    D.write_ndjson(ctx.path("cases.ndjson"), [case])
    D.run_harness(ctx, binary, ["run", ctx.path("cases.ndjson"), ctx.path("obs.ndjson")])
    obs = D.read_ndjson(ctx.path("obs.ndjson"))
    verdicts = D.judge(ctx, "C15_Judge", "C15_judge.cfg", ctx.path("obs.ndjson"), params={"Seed": ctx.seed}, workers=1)
    D.check_complete(verdicts, obs)
    for v in verdicts:
        print("REPLAY %s: %s %s" % (v["id"], "ok" if v["ok"] else "REJECTED", v.get("sig", "")))
    known = D.load_known(ctx.prop)
    new = [v for v in verdicts if not v["ok"] and D.match_known(known, v.get("sig", "")) is None]
    return 1 if new else 0
