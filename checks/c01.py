"""C01 - Compile, Evaluate and Patch are total: never panic or hang on any input."""
from lib import driver as D


def run(ctx):
    binary = D.build_harness(ctx, "c01")
    b07 = D.build_harness(ctx, "c07")
    funcs = ctx.path("funcs.ndjson")
    D.run_harness(ctx, b07, ["table", funcs])
    D.stage_spec(ctx, params={"FuncFile": funcs, "ObsFile": "/dev/null"})
    mc = D.model_check(ctx, "C01_MC", "C01_mc_%s.cfg" % ctx.tier, timeout=2400, heap="10g")
    cases = mc.records
    if len(cases) < 20000:
        raise D.Inconclusive("generator emitted only %d cases" % len(cases))
    D.mutant_twin(ctx, "C01_MC", "C01_mut_mayPanic.cfg", "mayPanic", timeout=900)
    D.write_ndjson(ctx.path("cases.ndjson"), cases)
    D.run_harness(ctx, binary, ["run", ctx.path("cases.ndjson"), ctx.path("obs.ndjson")], timeout=7200)
    obs = D.read_ndjson(ctx.path("obs.ndjson"))
    verdicts = D.judge(ctx, "C01_Judge", "C01_judge.cfg", ctx.path("obs.ndjson"), timeout=3600, chunk=150000)
    D.check_complete(verdicts, obs)
    by_id = {o["id"]: o for o in obs}
    keys = [(o["kind"], o["what"], o["out"]["k"]) for o in obs]
    kinds = {}
    for o in obs:
        kinds[o["kind"]] = kinds.get(o["kind"], 0) + 1
    ctx.extra["calls_by_kind"] = kinds
    return D.finish(ctx, verdicts, by_id, evaluations=len(obs),
                    rule="boundary alphabet: every (function, arity) of the implementation's tables x receivers from the 47-entry boundary pool x "
                         "arguments from the pool; every binary operator x pool x pool; polarity, indexer, is/as, EvaluateAs*; all token "
                         "sequences of length <= 2 (thorough: <= 3, plus length 4 over 16 tokens) with and without separators; patch add/insert/"
                         "delete/replace/move x 20 paths x 10 value classes (incl. nil) x {resource, nil}; 43 generic programs over generated "
                         "resources (quick: 24 types, thorough: all 146); seeded byte-mutated sources; distinct = (kind, family, outcome kind)",
                    nontrivial_keys=keys, samples=[{"src": o["src"], "kind": o["kind"], "out": o["out"]} for o in obs[:: max(1, len(obs) // 6)]],
                    exhaustive=False,
                    assumptions=["per-call deadline 5 s, retried once with 50 s before a timeout is reported"])
