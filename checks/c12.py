"""C12 - `is` and `as` agree with the FHIR and System type hierarchies."""
from lib import driver as D, machine as M, nodetrace as NT

MUTANTS = ["primitiveNoSpecialise", "isIgnoresNamespace"]


def run(ctx):
    binary = D.build_harness(ctx, "c02")       # same resource generator and runner as C02
    trees, resources, types = ctx.path("trees.ndjson"), ctx.path("resources.ndjson"), ctx.path("types.json")
    D.run_harness(ctx, binary, ["gen", trees, resources])
    D.run_harness(ctx, binary, ["types", types])
    params = {"TreeFile": trees, "TypesFile": types}
    D.stage_spec(ctx, params=dict(params, ObsFile="/dev/null"))
    mc = D.model_check(ctx, "C12_MC", "C12_mc.cfg", timeout=1800, heap="10g")
    cases = mc.records
    if len(cases) < 5000:
        raise D.Inconclusive("generator emitted only %d cases" % len(cases))
    for m in MUTANTS:
        D.mutant_twin(ctx, "C12_MC", "C12_mut_%s.cfg" % m, m, timeout=900)
    D.write_ndjson(ctx.path("cases.ndjson"), cases)
    D.run_harness(ctx, binary, ["run", resources, ctx.path("cases.ndjson"), ctx.path("obs.ndjson")])
    obs = D.read_ndjson(ctx.path("obs.ndjson"))
    verdicts = D.judge(ctx, "C12_Judge", "C12_judge.cfg", ctx.path("obs.ndjson"), params=params, timeout=3600, heap="10g")
    D.check_complete(verdicts, obs)
    by_id = {o["id"]: {"src": o["src"], "out": o["out"]} for o in obs}
    keys = [(o["cs"]["kind"], o["src"]) for o in obs if o["out"]["k"] == "ok" and o["out"]["items"]]
    # programs of the whole abstract machine whose last step is one of this property's operations (lib/machine.py)
    verdicts = M.extend(ctx, verdicts, by_id)
    # node-level trace validation (spec/FPNodeTrace.tla, law typeop): every is/as node inside the repository's own tests, the
    # machine programs and a spread of the cases above is judged from the google/fhir descriptor of the item it was given
    verdicts = NT.extend(ctx, verdicts, by_id, reruns=[
        (binary, ["run", resources, NT.sample_cases(ctx, ctx.path("cases.ndjson"), 2500 if ctx.tier == "quick" else 15000), ctx.path("obs_traced.ndjson")])])
    return D.finish(ctx, verdicts, by_id, evaluations=len(obs),
                    rule="element cases: for every generated resource (as in C02) the first node of every message type and some choice-typed "
                         "nodes x {is, as} x {declared type, every ancestor, a sibling datatype and resource, the name in the other letter case, "
                         "Element, BackboneElement, Resource, DomainResource, the System counterpart} x namespace {none, FHIR, System, unknown}; "
                         "value cases: 10 literal/computed System values x every FHIR and System type name x {none, System, FHIR}; "
                         "distinct non-trivial = (kind, source text) with a non-empty result",
                    nontrivial_keys=keys, samples=[{"src": o["src"], "out": o["out"]} for o in obs[:: max(1, len(obs) // 6)]],
                    exhaustive=False,
                    assumptions=["FHIR type names and kinds are read from the google/fhir proto descriptors; the declared type of a node is its descriptor annotation"])
