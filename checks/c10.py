"""C10 - filtering, projection, subsetting and set functions obey the collection algebra."""
import copy, os
from lib import driver as D, machine as M, nodetrace as NT

MUTANTS = ["takeOffByOne", "whereKeepsEmpty", "excludeSymmetric", "allIgnoresEmpty"]
PARAMS = {"ModelFile": os.path.join(D.SPEC, "gen", "ModelResources.json"),
          "ModelSchemaFile": os.path.join(D.SPEC, "gen", "ModelResourcesSchema.json")}


def run(ctx):
    binary = D.build_harness(ctx, "c10")
    D.stage_spec(ctx, params=dict(PARAMS, ObsFile="/dev/null"))
    mc = D.model_check(ctx, "C10_MC", "C10_mc.cfg", timeout=900)
    cases = mc.records
    if len(cases) < 1500:
        raise D.Inconclusive("generator emitted only %d cases" % len(cases))
    for m in (MUTANTS if ctx.tier == "thorough" else MUTANTS[:2]):
        D.mutant_twin(ctx, "C10_MC", "C10_mut_%s.cfg" % m, m, timeout=600)
    D.write_ndjson(ctx.path("cases.ndjson"), cases)
    D.run_harness(ctx, binary, ["run", ctx.path("cases.ndjson"), ctx.path("obs.ndjson")])
    obs = D.read_ndjson(ctx.path("obs.ndjson"))
    verdicts = D.judge(ctx, "C10_Judge", "C10_judge.cfg", ctx.path("obs.ndjson"), params=PARAMS, timeout=1800)
    D.check_complete(verdicts, obs)
    if ctx.tier == "thorough":
        corrupt_probe(ctx, obs)
    # direction B: randomly grown programs of the abstract machine (C10_Sim), judged by FPEval!Eval on the same tree
    simcfg = "C10_sim.cfg" if ctx.tier == "quick" else "C10_sim_thorough.cfg"
    D.write_params(ctx, dict(PARAMS, ObsFile="/dev/null"))
    D.set_cfg_constant(ctx, simcfg, "Seed", ctx.seed % 1000)      # the programs are a function of the seed
    sim = D.model_check(ctx, "C10_Sim", simcfg, timeout=1800, tag="C10-sim")
    seen, simcases = set(), []
    for c in sim.records:
        if c["text"] not in seen:
            seen.add(c["text"])
            c["id"] = "sim/" + c["text"]
            simcases.append(c)
    D.write_ndjson(ctx.path("sim_cases.ndjson"), simcases)
    D.run_harness(ctx, binary, ["sim", ctx.path("sim_cases.ndjson"), ctx.path("sim_obs.ndjson")])
    simobs = D.read_ndjson(ctx.path("sim_obs.ndjson"))
    simverdicts = D.judge(ctx, "C10_SimJudge", simcfg.replace("sim", "simjudge"), ctx.path("sim_obs.ndjson"), params=PARAMS, timeout=1800, tag="judge-sim")
    D.check_complete(simverdicts, simobs)
    ctx.extra["random_programs"] = len(simobs)
    ctx.extra["random_programs_unconstrained"] = sum(1 for v in simverdicts if v.get("open"))
    for o in simobs:
        o["cs"] = {"f": 0, "shape": "sim", "fn": "-", "a": 0, "b": 0}
    obs = obs + simobs
    verdicts = verdicts + simverdicts
    by_id = {o["id"]: {k: v for k, v in o.items() if k not in ("ast", "mut")} for o in obs}
    ctx.extra["unconstrained_by_spec"] = sum(1 for v in verdicts if v.get("open"))
    keys = [(o["cs"]["f"], o["cs"]["shape"], o["cs"]["fn"], o["cs"]["a"], o["cs"]["b"], o["src"] if o["cs"]["shape"] == "sim" else "") for o in obs if o["out"]["k"] == "ok" and o["out"]["items"]]
    # programs of the whole abstract machine whose last step is one of this property's operations (lib/machine.py)
    verdicts = M.extend(ctx, verdicts, by_id)
    # node-level trace validation (spec/FPNodeTrace.tla): subsetting, filtering and projection laws at every node, computed
    # from the node's own input and its children's logged outcomes
    verdicts = NT.extend(ctx, verdicts, by_id, reruns=[(binary, ["run", ctx.path("cases.ndjson"), ctx.path("obs_traced.ndjson")])])
    return D.finish(ctx, verdicts, by_id, evaluations=len(obs),
                    rule="13 foci (list-valued paths of MR1: complex, primitive, duplicate content, extensions, references, empty; and "
                         "environment collections) x {where, exists, where().exists(), all} x 16 criteria, select x 8 projections, "
                         "first/last/tail/empty/count/exists/distinct/isDistinct/not/allTrue..., indexer and take/skip for every n in "
                         "[-3, count+3] plus MinInt32/MaxInt32, take(n).skip(n), exclude/intersect x 9 overlap collections (items of the "
                         "focus, equal-content twins from MR4, System values), extension(url) vs extension.where(url=...); distinct "
                         "non-trivial = cases with a non-empty ok result",
                    nontrivial_keys=keys,
                    samples=[{"src": o["src"], "out": o["out"]} for o in obs[:: max(1, len(obs) // 5)]],
                    exhaustive=False,
                    assumptions=["foci are evaluated on model resources MR1 (input) and MR4 (equal-content twins for the set functions)"])


def corrupt_probe(ctx, obs):
    victim = None
    for o in obs:
        if o["cs"]["shape"] == "where" and o["out"]["k"] == "ok" and len(o["out"]["items"]) >= 2:
            victim = copy.deepcopy(o)
            break
    if victim is None:
        raise D.Inconclusive("corrupted-record probe: no suitable record")
    victim["out"]["items"] = list(reversed(victim["out"]["items"]))
    D.write_ndjson(ctx.path("corrupt.ndjson"), [victim, obs[0]])
    vs = D.judge(ctx, "C10_Judge", "C10_judge.cfg", ctx.path("corrupt.ndjson"), params=PARAMS, tag="judge-corrupt")
    if not any((not v["ok"]) and v["id"] == victim["id"] for v in vs):
        raise D.Inconclusive("corrupted-record probe: judge did not reject the reordered record")
    ctx.extra["corrupted_record_rejected"] = True
