"""C07 - empty collections propagate through operators and functions."""
from lib import driver as D, machine as M, nodetrace as NT

MUTANTS = ["firstOfEmptyFabricates", "cmpEmptyIsFalse"]


def run(ctx):
    binary = D.build_harness(ctx, "c07")
    funcs = ctx.path("funcs.ndjson")
    D.run_harness(ctx, binary, ["table", funcs])
    table = D.read_ndjson(funcs)
    if len(table) < 50:
        raise D.Inconclusive("implementation's function table has only %d entries" % len(table))
    D.stage_spec(ctx, params={"FuncFile": funcs, "ObsFile": "/dev/null"})
    mc = D.model_check(ctx, "C07_MC", "C07_mc.cfg", timeout=600)
    cases = mc.records
    if len(cases) < 300:
        raise D.Inconclusive("generator emitted only %d cases" % len(cases))
    for m in MUTANTS:
        D.mutant_twin(ctx, "C07_MC", "C07_mut_%s.cfg" % m, m, timeout=600)
    D.write_ndjson(ctx.path("cases.ndjson"), cases)
    D.run_harness(ctx, binary, ["run", ctx.path("cases.ndjson"), ctx.path("obs.ndjson")])
    obs = D.read_ndjson(ctx.path("obs.ndjson"))
    verdicts = D.judge(ctx, "C07_Judge", "C07_judge.cfg", ctx.path("obs.ndjson"), params={"FuncFile": funcs}, timeout=900)
    D.check_complete(verdicts, obs)
    covered = {o["cs"]["name"] for o in obs if o["cs"]["kind"] == "fn"}
    missing = {t["name"] for t in table} - covered
    if missing:
        raise D.Inconclusive("functions of the implementation's table without a case: %s" % sorted(missing))
    by_id = {o["id"]: o for o in obs}
    keys = [(o["cs"]["kind"], o["cs"]["op"], o["cs"]["name"], o["cs"]["n"], o["cs"]["side"], o["cs"]["pos"], o["cs"]["rcv"]) for o in obs]
    ctx.extra["functions_in_table"] = len(table)
    # programs of the whole abstract machine whose last step is one of this property's operations (lib/machine.py)
    verdicts = M.extend(ctx, verdicts, by_id)
    # node-level trace validation (spec/FPNodeTrace.tla): empty propagation at every node inside every program
    verdicts = NT.extend(ctx, verdicts, by_id, reruns=[(binary, ["run", ctx.path("cases.ndjson"), ctx.path("obs_traced.ndjson")])])
    return D.finish(ctx, verdicts, by_id, evaluations=len(obs),
                    rule="exhaustive: every binary/unary operator x operand position x {literal {}, absent path, empty variable}; every name of the "
                         "implementation's base and experimental tables x every arity Compile accepts (0..4) with the input empty, and every "
                         "single-value argument position empty (several receivers per function, several partner operands per operator; the variable form compiles once and evaluates first with a non-empty then with the empty binding); distinct = (operator or function, arity, position, receiver)",
                    nontrivial_keys=keys, samples=[{"src": o["src"], "out": o["out"]} for o in obs[:: max(1, len(obs) // 6)]],
                    exhaustive=True,
                    assumptions=["function names and arities are read from the implementation's own table at run time; argument fillers and the aggregate / not-implemented classification come from the specification"])
