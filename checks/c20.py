"""C20 - Resource, bundle and extension wrappers are inverses for every R4 type.

Three parts, one check:
  1 FPExtensions: the URL-keyed extension mutators as a state machine. TLC explores every behaviour (VIEW-merged)
    of <= MaxLen steps, checks the frame property / Unwrap(New(v)) = v / that the judge's Permitted respects the
    frame, with mutant twins; every explored behaviour is replayed on real extendable objects and judged step by
    step (each step against its own observed pre-state). Thorough adds a 3-URL model and seeded random longer
    behaviours (direction B: only the operations are generated, the judge computes what is permitted).
  2 Wrappers: exhaustive over the 146 resource types and the 49 extension value types of the google/fhir
    descriptors (spec/gen/C20Schema.tla is regenerated from the descriptors on every run).
  3 Extraction: ExtractAllWithPath / ExtractAll for six element types on the model resources and on seeded
    variants of them; the judge computes AllOfType and navigates every label over the annotated tree.
"""
import copy, os, random
from lib import driver as D

EXT_MUTANTS = ["upsertReplacesAll", "setByUrlDropsOthers", "appendDedups", "unwrapLosesValue", "upsertOkIgnoresOthers"]
WRAP_MUTANTS = ["snakeIgnoresDigits", "noKeywordRule", "slotCollision", "unwrapCopies", "bundleReverses"]
OWNERS = ["Patient", "HumanName", "String", "Contact", "OrgContact", "Dosage", "KnowledgeDosage"]
XTYPES = ["Reference", "Identifier", "Coding", "Extension", "string", "dateTime"]
MODEL_RES = ["MR1", "MR2", "MR3", "MR4", "C20_X1", "C20_X2", "C20_X3", "C20_X4", "C20_X5", "C20_X6"]
JUDGE_CHUNK_BYTES = 16 << 20


def random_behaviours(rng, n):
    """Direction B: operation sequences only (no expectations); lists with repeated URLs x every mutator."""
    urls = ["u1", "u2", "u3"]
    svals, ivals = ["s1", "s2", "s3"], ["i2", "i3"]
    none_held = {"k": "none", "url": "", "val": ""}

    def ent():
        return {"url": rng.choice(urls[: rng.choice([1, 2, 3])]), "val": rng.choice(svals + ivals)}

    out = []
    for _ in range(n):
        init = [ent() for _ in range(rng.randint(0, 6))]
        steps = []
        for _ in range(rng.randint(3, 8)):
            op = rng.choice(["Upsert", "Upsert", "SetByURL", "SetByURL", "Overwrite", "AppendInto", "AppendInto", "Clear",
                             "New", "FromElement", "Unwrap", "UnwrapAt"])
            st = {"op": op, "url": "", "items": [], "i": 0}
            if op in ("Upsert", "New", "FromElement"):
                e = ent()
                st["url"], st["items"] = e["url"], [e]
            elif op == "SetByURL":
                u = rng.choice(urls)
                pool = rng.choice([svals, ivals])
                st["url"], st["items"] = u, [{"url": u, "val": rng.choice(pool)} for _ in range(rng.randint(0, 3))]
            elif op in ("Overwrite", "AppendInto"):
                st["items"] = [ent() for _ in range(rng.randint(0, 3))]
            elif op == "UnwrapAt":
                st["i"] = rng.randint(1, 4)
            steps.append({"step": st, "pre": [], "preheld": none_held})
        steps[0]["pre"] = init
        out.append({"kind": "beh", "steps": steps})
    return out


def case_of(o):
    """Rebuild the case an observation came from (for --replay)."""
    k = o["kind"]
    if k == "beh":
        cid, owner = o["id"].rsplit("/", 1)
        return {"id": cid, "kind": "beh", "owners": [owner],
                "steps": [{"step": s["step"], "pre": s["pre"], "preheld": s["preheld"]} for s in o["steps"]]}
    if k in ("res", "extval"):
        return {"id": o["id"], "kind": k, "t": o["t"]}
    if k == "bundle":
        return {"id": o["id"], "kind": k, "ts": o["ts"]}
    res, form = o["tree"].split("~", 1)
    return {"id": o["id"].rsplit("/", 1)[0], "kind": "extract", "res": res, "form": form, "T": o["T"]}


def replay(ctx):
    import json
    rec = json.load(open(ctx.replay))
    o = rec.get("observation")
    if not o:
        raise D.Inconclusive("replay file has no observation")
    binary = D.build_harness(ctx, "c20")
    schema = ctx.path("C20Schema.tla")
    D.run_harness(ctx, binary, ["schema", schema])
    D.stage_spec(ctx, extra_files=[schema])
    D.write_ndjson(ctx.path("cases.ndjson"), [case_of(o)])
    D.run_harness(ctx, binary, ["run", ctx.path("cases.ndjson"), ctx.path("obs.ndjson"), ctx.path("trees.json")])
    obs = D.read_ndjson(ctx.path("obs.ndjson"))
    verdicts = judge_all(ctx, obs)
    D.check_complete(verdicts, obs)
    mine = [v for v in verdicts if v["id"] == o["id"]] or verdicts
    known = D.load_known(ctx.prop)
    rc = 0
    for v in mine:
        status = "ok" if v["ok"] else ("known finding" if D.match_known(known, v["sig"]) else "VIOLATION")
        print("replay %s: %s %s" % (v["id"], status, v["sig"]))
        if status == "VIOLATION":
            rc = 1
    return rc


def run(ctx):
    if getattr(ctx, "replay", None):
        return replay(ctx)
    quick = ctx.tier == "quick"
    rng = random.Random(ctx.seed)
    binary = D.build_harness(ctx, "c20")
    # the schema module is derived from the google/fhir descriptors on every run (never from fhirpath-go)
    schema = ctx.path("C20Schema.tla")
    D.run_harness(ctx, binary, ["schema", schema])
    D.stage_spec(ctx, extra_files=[schema])

    # ---- role 1 + 2, part 1: the extension-list machine
    ext = D.model_check(ctx, "C20_ExtMC", "C20_ext_quick.cfg", workers=1)
    behaviours = list(ext.records)
    if len(behaviours) < 5000:
        raise D.Inconclusive("extension machine emitted only %d behaviours" % len(behaviours))
    for k, b in enumerate(behaviours):
        b["id"] = "beh/q%06d" % k
        b["last_only"] = True
        b["owners"] = [OWNERS[k % len(OWNERS)]] if quick else [OWNERS[k % len(OWNERS)], OWNERS[(k + 2) % len(OWNERS)]]
    for m in (EXT_MUTANTS[:3] if quick else EXT_MUTANTS):
        D.mutant_twin(ctx, "C20_ExtMC", "C20_ext_mut_%s.cfg" % m, m, workers=1)
    rnd = random_behaviours(rng, 3000 if quick else 30000)
    for k, b in enumerate(rnd):
        b["id"] = "beh/r%06d" % k
        b["owners"] = [OWNERS[k % len(OWNERS)]]
    n_random = len(rnd)
    behaviours += rnd
    if not quick:
        ext3 = D.model_check(ctx, "C20_ExtMC", "C20_ext_thorough.cfg", workers=1, tag="C20_ExtMC-thorough")
        for k, b in enumerate(ext3.records):
            b["id"] = "beh/t%06d" % k
            b["last_only"] = True
            b["owners"] = [OWNERS[k % len(OWNERS)]]
        behaviours += ext3.records

    # ---- role 1 + 2, part 2 and 3: wrapper and extraction cases over the generated schema
    mc = D.model_check(ctx, "C20_MC", "C20_mc.cfg")
    cases = list(mc.records)
    kinds = {}
    for c in cases:
        kinds[c["kind"]] = kinds.get(c["kind"], 0) + 1
    if kinds.get("res") != 146 or kinds.get("extval") != 49 or kinds.get("bundle", 0) < 500 or kinds.get("extract", 0) < 48:
        raise D.Inconclusive("wrapper case space incomplete: %s" % kinds)
    for m in (WRAP_MUTANTS[:2] if quick else WRAP_MUTANTS):
        D.mutant_twin(ctx, "C20_MC", "C20_mut_%s.cfg" % m, m)
    # seeded variants of the model resources (derived Go-side from the seed in `form`)
    nvar = 6 if quick else 100
    for r in MODEL_RES:
        for s in sorted(ctx.seed * 100000 + x for x in rng.sample(range(100000), nvar)):
            for t in XTYPES:
                cases.append({"id": "extract/%s/%s~seed:%d" % (t, r, s), "kind": "extract", "res": r, "form": "seed:%d" % s, "T": t})

    D.write_ndjson(ctx.path("cases.ndjson"), behaviours + cases)
    D.run_harness(ctx, binary, ["run", ctx.path("cases.ndjson"), ctx.path("obs.ndjson"), ctx.path("trees.json")])
    obs = D.read_ndjson(ctx.path("obs.ndjson"))
    by_kind = {}
    for o in obs:
        by_kind.setdefault(o["kind"], []).append(o)
    for k in ("beh", "res", "bundle", "extval", "xset", "xlabel"):
        if not by_kind.get(k):
            raise D.Inconclusive("dead driver: no observation of kind %s" % k)

    # ---- role 3: judge (in chunks: TLC holds a chunk's records in memory)
    verdicts = judge_all(ctx, obs)
    D.check_complete(verdicts, obs)
    malformed = [v for v in verdicts if not v["ok"] and v["sig"].startswith("malformed|")]
    if malformed:
        raise D.Inconclusive("judge found %d malformed observation(s), e.g. %s %s" % (len(malformed), malformed[0]["id"], malformed[0]["sig"]))
    if not quick:
        corrupt_probe(ctx, by_kind)

    evaluations = 0
    keys = []
    for o in obs:
        k = o["kind"]
        if k == "beh":
            evaluations += len(o["ops"])
            keys.append(("beh", o["owner"], tuple(o["ops"]), len(o["steps"][-1]["pre"])))
        elif k == "res":
            evaluations += 18
            keys.append(("res", o["t"]))
        elif k == "bundle":
            evaluations += 3
            keys.append(("bundle", tuple(o["ts"])))
        elif k == "extval":
            evaluations += 5
            keys.append(("extval", o["t"]))
        elif k == "xset":
            evaluations += 1
            keys.append(("xset", o["tree"], o["T"], o["api"], o["out"]))
        else:
            evaluations += 1
            keys.append(("xlabel", o["T"], o["steps"][-1]["n"], len(o["steps"]), o["fp"]["k"]))
    ctx.extra["observations_by_kind"] = {k: len(v) for k, v in sorted(by_kind.items())}
    ctx.extra["exhaustive_parts"] = {"wrappers: 146 resource types x (New*, TypeOf, Wrap/Unwrap, entries), 49 extension value types, bundles of 0..3": True,
                                     "extension machine: all lists of <= 4 entries over 2 URLs x 2 values x every mutator (VIEW-merged behaviours)": True,
                                     "extraction": False}
    ctx.extra["random_behaviours"] = n_random
    samples = []
    for k in ("beh", "res", "bundle", "extval", "xset", "xlabel"):
        v = by_kind[k]
        samples.append(v[len(v) // 2])
    by_id = {o["id"]: o for o in obs}
    return D.finish(ctx, verdicts, by_id, evaluations=evaluations,
                    rule="distinct = behaviours by (owner kind, operation sequence, initial length); wrapper cases by type / type sequence; "
                         "extraction calls by (resource, element type, API, outcome); labels by (element type, last step, depth, FHIRPath outcome kind)",
                    nontrivial_keys=keys, samples=samples, exhaustive=False,
                    assumptions=["resource and extension value types are those of the google/fhir R4 descriptors (ContainedResource oneof, Extension.ValueX oneof)",
                                 "extraction inputs are the four model resources and seeded edits of them (extensions, primitive extensions, reference forms, duplicated/deleted members)",
                                 "an element without a proto message of its own (the reference string of a typed reference, content of a contained Any) is not required to be found"])


def judge_all(ctx, obs):
    """TLC parses NDJSON at about 1 MB/s and keeps a chunk's records in memory: judge in chunks of ~16 MB."""
    import json
    verdicts = []
    D.write_params(ctx, {"TreeFile": ctx.path("trees.json")}, name="C20Params")
    chunks, cur, size = [], [], 0
    for o in obs:
        n = len(json.dumps(o, separators=(",", ":")))
        if cur and size + n > JUDGE_CHUNK_BYTES:
            chunks.append(cur)
            cur, size = [], 0
        cur.append(o)
        size += n
    if cur:
        chunks.append(cur)
    for n, part in enumerate(chunks):
        path = ctx.path("obs-%03d.ndjson" % n)
        D.write_ndjson(path, part)
        verdicts += D.judge(ctx, "C20_Judge", "C20_judge.cfg", path, tag="judge-%03d" % n)
    return verdicts


def corrupt_probe(ctx, by_kind):
    """Binding demonstration: one altered field per kind; the judge must reject exactly the altered records."""
    victims = []
    for o in by_kind["beh"]:
        st = o["steps"][-1]
        if st["step"]["op"] == "Upsert" and len(st["post"]) >= 2 and any(e["url"] != st["step"]["url"] for e in st["post"]):
            v = copy.deepcopy(o)
            p = v["steps"][-1]["post"]
            j = [k for k, e in enumerate(p) if e["url"] != st["step"]["url"]][0]
            p[j]["val"] = "s9"
            victims.append(v)
            break
    for o in by_kind["res"]:
        v = copy.deepcopy(o)
        v["wrap"]["slot"] = "account" if o["t"] != "Account" else "basic"
        victims.append(v)
        break
    for o in by_kind["bundle"]:
        if len(o["ts"]) == 3:
            v = copy.deepcopy(o)
            v["byHand"]["got"] = [1, 3, 2]
            victims.append(v)
            break
    for o in by_kind["xlabel"]:
        if o["steps"][-1]["i"] >= 0 and o["el"]["k"] == "node":
            v = copy.deepcopy(o)
            v["steps"][-1]["i"] += 1
            victims.append(v)
            break
    for o in by_kind["xset"]:
        if o["out"] == "ok" and len(o["found"]) >= 2:
            v = copy.deepcopy(o)
            v["found"] = v["found"][1:]
            victims.append(v)
            break
    if len(victims) < 5:
        raise D.Inconclusive("corrupted-record probe: no suitable records (%d)" % len(victims))
    clean = [by_kind[k][0] for k in ("beh", "res", "bundle", "extval")]
    for k, v in enumerate(victims):
        v["id"] = "corrupt/%d" % k
    path = ctx.path("corrupt.ndjson")
    D.write_ndjson(path, victims + clean)
    vs = D.judge(ctx, "C20_Judge", "C20_judge.cfg", path, tag="judge-corrupt")
    rejected = {v["id"] for v in vs if not v["ok"]}
    want = {v["id"] for v in victims}
    known = D.load_known(ctx.prop)
    extra = {v["id"] for v in vs if not v["ok"] and v["id"] not in want and D.match_known(known, v["sig"]) is None}
    if not want <= rejected or extra:
        raise D.Inconclusive("corrupted-record probe: judge rejected %s, expected exactly %s" % (sorted(rejected), sorted(want)))
    ctx.extra["corrupted_record_rejected"] = True
