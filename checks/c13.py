"""C13 - conversion functions are mutually consistent and round-trip through strings."""
import os
from lib import driver as D, machine as M, nodetrace as NT

MUTANTS = ["convertsIgnoresTo", "toIntegerAcceptsDecimalString", "toDecimalAcceptsExponent", "toDateKeepsTime"]
# programs per case: to, conv, toto, strto (+ strconv when x is already of type T), + receiver alone + receiver.toString()


def run(ctx):
    binary = D.build_harness(ctx, "c13")
    D.stage_spec(ctx)
    if getattr(ctx, "replay", None):
        return replay(ctx, binary)
    thorough = ctx.tier == "thorough"
    # roles 1 + 2: the conversion laws on every (pool item, target) pair; one case per explored pair
    mc = D.model_check(ctx, "C13_MC", "C13_mc_thorough.cfg" if thorough else "C13_mc_quick.cfg")
    cases = mc.records
    if len(cases) < 4000:
        raise D.Inconclusive("generator emitted only %d cases" % len(cases))
    for m in (MUTANTS if thorough else MUTANTS[:2]):
        D.mutant_twin(ctx, "C13_MC", "C13_mut_%s.cfg" % m, m)
    D.write_ndjson(ctx.path("cases.ndjson"), cases)
    n_tlc = len(cases)
    # direction B: seeded renderings / near misses from the lexical grammars, judged by the same judge
    n_seeded = 4000 if thorough else 150
    D.run_harness(ctx, binary, ["gen", str(n_seeded), ctx.path("seeded.ndjson")])
    seeded = D.read_ndjson(ctx.path("seeded.ndjson"))
    if len(seeded) < 8 * n_seeded // 2:
        raise D.Inconclusive("seeded generator produced only %d cases" % len(seeded))
    D.write_ndjson(ctx.path("allcases.ndjson"), cases + seeded)
    # direction A: replay every case in the real code
    D.run_harness(ctx, binary, ["run", ctx.path("allcases.ndjson"), ctx.path("obs.ndjson")])
    obs = D.read_ndjson(ctx.path("obs.ndjson"))
    expected = sum(len(c["progs"]) for c in cases + seeded)
    if len([o for o in obs if not o["alias"]]) != expected:
        raise D.Inconclusive("harness wrote %d observations for %d programs" % (len(obs), expected))
    # role 3: judge (in slices, so that no single TLC run has to load more than ~15 MB of JSON)
    verdicts = judge_sliced(ctx, obs, "obs")
    D.check_complete(verdicts, obs)
    malformed = [v for v in verdicts if v.get("sig", "").startswith("malformed|")]
    if malformed:
        raise D.Inconclusive("judge found %d malformed record(s), e.g. %s" % (len(malformed), malformed[0]["sig"]))
    if thorough:
        corrupt_probe(ctx, obs)
    by_id = {o["id"]: o for o in obs}
    keys = [(o["prog"], o["T"], o["sk"], o["fk"], o["x"]["t"], o["out"]["k"], len(o["out"].get("items", []))) for o in obs]
    step = max(1, len(obs) // 5)
    # programs of the whole abstract machine whose last step is one of this property's operations (lib/machine.py)
    verdicts = M.extend(ctx, verdicts, by_id)
    # node-level trace validation (spec/FPNodeTrace.tla): every conversion node inside the repository's own tests, the machine
    # programs and a spread of the cases above is judged by FPConvert's table on the node's logged input value (law convfn)
    verdicts = NT.extend(ctx, verdicts, by_id, reruns=[
        (binary, ["run", NT.sample_cases(ctx, ctx.path("allcases.ndjson"), 1500 if ctx.tier == "quick" else 12000), ctx.path("obs_traced.ndjson")])])
    return D.finish(
        ctx, verdicts, by_id, evaluations=len(obs) + 2 * (n_tlc + len(seeded)),
        rule="every pool item (all System types, precisions, boundaries; %d strings of the valid/near-valid grammar pool) as literal, "
             "environment variable and FHIR primitive element of every kind that denotes it, plus four complex elements, x 8 targets x "
             "{toT, convertsToT, toT.toT, toString.toT; toString.convertsToT for x of type T}; plus %d seeded grammar strings x 8 x 4; "
             "distinct = (program, target, source kind, FHIR kind, item type, outcome kind, result size)" % (count_strings(cases), len(seeded) // 8),
        nontrivial_keys=keys,
        samples=[{"src": o["src"], "out": o["out"]} for o in obs[::step]],
        exhaustive=False,
        assumptions=["FHIR primitive elements are supplied as Parameters.parameter.value[x] of a resource built by the harness with jsonformat; "
                     "complex elements come from model resource MR1",
                     "readings the property leaves open (fraction of seconds not of three digits, second 60, year 0000, zone beyond 14:00, "
                     "date followed by a bare 'T' for DateTime) are accepted either way (FPConvert!Amb)"],
        extra={"cases_from_tlc": n_tlc, "cases_seeded": len(seeded)})


def count_strings(cases):
    return len({tuple(c["x"]["cp"]) for c in cases if c["x"]["t"] == "s"})


def judge_sliced(ctx, obs, tag, size=30000):
    verdicts = []
    for k in range(0, len(obs), size):
        part = obs[k:k + size]
        path = ctx.path("%s-%d.ndjson" % (tag, k // size))
        D.write_ndjson(path, part)
        verdicts += D.judge(ctx, "C13_Judge", "C13_judge.cfg", path, tag="judge-%s-%d" % (tag, k // size))
    return verdicts


def corrupt_probe(ctx, obs):
    """Binding demonstration: alter one field of genuine records; the judge must reject exactly those."""
    import copy
    probes = []
    # (a) a converted Integer altered by one; (b) a convertsTo verdict flipped; (c) an empty result replaced by a value of another type
    for o in obs:
        if o["prog"] == "to" and o["T"] == "Integer" and o["out"]["k"] == "ok" and len(o["out"]["items"]) == 1 \
                and o["out"]["items"][0].get("t") == "i" and o["x"]["t"] == "s":
            v = copy.deepcopy(o); v["out"]["items"][0]["i"] += 1; v["id"] += "#corrupt-a"; probes.append(v); break
    for o in obs:
        if o["prog"] == "conv" and o["T"] == "Decimal" and o["out"]["k"] == "ok" and len(o["out"]["items"]) == 1 \
                and o["out"]["items"][0].get("t") == "b" and o["x"]["t"] == "i":
            v = copy.deepcopy(o); v["out"]["items"][0]["b"] = not v["out"]["items"][0]["b"]; v["id"] += "#corrupt-b"; probes.append(v); break
    for o in obs:
        if o["prog"] == "to" and o["T"] == "Date" and o["out"]["k"] == "ok" and len(o["out"]["items"]) == 0 and o["x"]["t"] == "i":
            v = copy.deepcopy(o); v["out"]["items"] = [{"t": "i", "i": 0}]; v["id"] += "#corrupt-c"; probes.append(v); break
    genuine = None
    for o in obs:
        if o["prog"] == "to" and o["T"] == "Boolean" and o["out"]["k"] == "ok" and o["x"]["t"] == "b":
            genuine = o; break
    if len(probes) != 3 or genuine is None:
        raise D.Inconclusive("corrupted-record probe: no suitable records")
    D.write_ndjson(ctx.path("corrupt.ndjson"), probes + [genuine])
    vs = D.judge(ctx, "C13_Judge", "C13_judge.cfg", ctx.path("corrupt.ndjson"), tag="judge-corrupt")
    bad = sorted(v["id"] for v in vs if not v["ok"])
    if bad != sorted(p["id"] for p in probes):
        raise D.Inconclusive("corrupted-record probe: judge rejected %s, expected exactly the three corrupted records" % bad)
    ctx.extra["corrupted_record_rejected"] = True


def replay(ctx, binary):
    """bin/check C13 --replay <file>: re-execute the single case of a replay file against the current tree and re-judge it."""
    import json
    rec = json.load(open(ctx.replay))
    o = rec.get("observation")
    if not o:
        raise D.Inconclusive("replay file has no observation")
    case = {"id": o["cid"], "T": o["T"], "sk": o["sk"], "fk": o["fk"], "x": o["x"], "ra": o["ra"], "rc": o["rc"],
            "progs": [{"p": o["prog"], "sfx": o["sfx"]}]}
    D.write_ndjson(ctx.path("cases.ndjson"), [case])
    D.run_harness(ctx, binary, ["run", ctx.path("cases.ndjson"), ctx.path("obs.ndjson")])
    obs = D.read_ndjson(ctx.path("obs.ndjson"))
    verdicts = D.judge(ctx, "C13_Judge", "C13_judge.cfg", ctx.path("obs.ndjson"))
    D.check_complete(verdicts, obs)
    known = D.load_known(ctx.prop)
    by_id = {x["id"]: x for x in obs}
    rc = 0
    for v in verdicts:
        ob = by_id[v["id"]]
        if v["ok"]:
            print("REPLAY ok: %s -> %s" % (ob["src"], json.dumps(ob["out"])[:300]))
        elif v["sig"].startswith("malformed|"):
            raise D.Inconclusive("replayed record is malformed: " + v["sig"])
        else:
            k = D.match_known(known, v["sig"])
            print("%s property=C13 %s\n  signature: %s\n  observed: src=%s out=%s\n  specification permits: %s" % (
                "KNOWN-FINDING:" if k else "VIOLATION", "(replay) " + (k["what"] if k else "replay=" + ctx.replay), v["sig"],
                json.dumps(ob["src"]), json.dumps(ob["out"])[:300], json.dumps(v.get("want"))[:300]))
            if not k:
                rc = 1
    return rc
