"""MACHINE - development entry: every program of the abstract machine, whatever property it is charged to
(not a registered property; `MACHINE_PROP=C08 bin/check MACHINE` draws the lanes of that property's check)."""
import os
from lib import driver as D, machine as M


def run(ctx):
    prop = os.environ.get("MACHINE_PROP")
    D.stage_spec(ctx)
    if prop:
        verdicts, by_id, stats = M.run(ctx, prop)
    else:
        verdicts, by_id, stats = M.run(ctx, None)
    ctx.extra.update(stats)
    return D.finish(ctx, verdicts, by_id, evaluations=stats["machine_programs"], rule="programs of the abstract machine",
                    nontrivial_keys=[by_id[v["id"]]["src"] for v in verdicts if by_id[v["id"]]["out"].get("items")],
                    samples=[], exhaustive=False)
