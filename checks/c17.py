"""C17 - Environment variables and custom functions behave as declared."""
from lib import driver as D

MUTANTS = ["firstErrorOnly", "duplicateOverwrites", "shallowTypeCheck", "lastElementOnly", "evalDespiteError",
           "registerBadSignature", "overrideExisting"]
MAXLEN = 4


def unique(cases):
    seen, out = set(), []
    for c in cases:
        if c["id"] not in seen:
            seen.add(c["id"])
            out.append(c)
    return out


def run(ctx):
    binary = D.build_harness(ctx, "c17")
    D.stage_spec(ctx, params={"MaxLen": MAXLEN, "ObsFile": ""})
    # role 1 + 2: the folding machine over every option list of length 0..4, its invariants, one case per
    # (list, program) emitted at the Finish action of each behaviour
    mc = D.model_check(ctx, "C17_MC", "C17_mc.cfg")
    cases = mc.records
    lists = {(c["mode"], c["list"]) for c in cases}
    n_e = len([1 for m, _ in lists if m == "E"])
    n_c = len([1 for m, _ in lists if m == "C"])
    want_e = sum(5 ** k for k in range(MAXLEN + 1))
    want_c = 2 * sum(6 ** k for k in range(MAXLEN + 1)) - 1      # two naming schemes; the empty list once
    if n_e != want_e or n_c != want_c:
        raise D.Inconclusive("generator covered %d Evaluate lists (want %d) and %d Compile lists (want %d)" % (n_e, want_e, n_c, want_c))
    if len({c["id"] for c in cases}) != len(cases):
        raise D.Inconclusive("generator emitted duplicate case ids")
    for m in MUTANTS:
        D.mutant_twin(ctx, "C17_MC", "C17_mut_%s.cfg" % m, m)
    if ctx.tier == "thorough":
        # beyond the exhaustive bound: random behaviours over lists of length 0..5 (seeded); keep the length-5 lists
        D.write_params(ctx, {"MaxLen": MAXLEN + 1, "ObsFile": ""})
        sim = D.run_tlc(ctx, "C17_MC", "C17_mc.cfg", simulate="num=300", depth=MAXLEN + 4, tag="sim")
        if sim.violated:
            raise D.Inconclusive("specification violates %s on a length-%d list" % (sim.violated, MAXLEN + 1))
        extra = unique([c for c in sim.records if "-L%d-" % (MAXLEN + 1) in "-" + c["list"]])
        ctx.extra["simulated_length5_cases"] = len(extra)
        cases = unique(cases + extra)
    D.write_ndjson(ctx.path("cases.ndjson"), cases)
    # direction A: replay every case in the real code
    D.run_harness(ctx, binary, ["run", ctx.path("cases.ndjson"), ctx.path("obs.ndjson")])
    obs = D.read_ndjson(ctx.path("obs.ndjson"))
    # role 3: judge
    verdicts = D.judge(ctx, "C17_Judge", "C17_judge.cfg", ctx.path("obs.ndjson"), params={"MaxLen": MAXLEN})
    D.check_complete(verdicts, obs)
    want_by_id = {v["id"]: v.get("want", {}) for v in verdicts}
    # dead-driver / coverage checks (machinery, never a violation)
    ok_shapes = {o["cs"]["focus"] for o in obs if o["cs"]["mode"] == "E" and want_by_id[o["id"]].get("k") == "ok"}
    need = {"int", "str", "bool", "strs", "empty", "one", "elem", "detached", "mixed", "context", "ucum"}
    if not need <= ok_shapes:
        raise D.Inconclusive("value shapes never evaluated successfully: %s" % sorted(need - ok_shapes))
    # every unsupported / nil shape (offending leaf first, middle, last at depth 1..3) must occur as the ONLY
    # unsupported-type option of some list, so that accepting it shows (outcome ok, or the class missing from the error)
    bad_ids = {"badTop", "nilTop", "tnilTop"} | {k + "-" + a + b + c for k in ("bad", "nil", "tnil") for a in "FML" for b in ("",) + tuple("FML")
                                      for c in (("",) if b == "" else ("",) + tuple("FML"))}
    sole = set()
    for o in obs:
        if o["cs"]["mode"] == "E" and o["cs"]["focus"].startswith("fail+"):
            tags = [t for t in o["cs"]["focus"].split("+")[1:] if t.startswith(("bad", "nil", "tnil"))]
            if len(tags) == 1:
                sole.add(tags[0])
    if not bad_ids <= sole:
        raise D.Inconclusive("unsupported shapes never the only unsupported option of a list: %s" % sorted(bad_ids - sole)[:10])
    invoked = sum(1 for o in obs if o["calls"])
    blocked = sum(1 for o in obs if want_by_id[o["id"]].get("k") in ("opterr", "cerr"))
    if invoked < 100 or blocked < 1000:
        raise D.Inconclusive("dead driver: %d cases invoked a custom function, %d cases expect an option error" % (invoked, blocked))
    fx_seen = {x["fx"] for o in obs for x in o["cs"]["copts"]}
    if len(fx_seen) < 17:
        raise D.Inconclusive("only %d of 17 function fixtures were used" % len(fx_seen))
    if ctx.tier == "thorough":
        corrupt_probe(ctx, obs, want_by_id)
    by_id = {o["id"]: o for o in obs}
    keys = [(o["cs"]["mode"], o["cs"]["fk"], o["cs"]["focus"], o["cs"]["ret"], want_by_id[o["id"]].get("k"), o["out"]["k"]) for o in obs]
    ctx.extra.update({"evaluate_lists": n_e, "compile_lists": n_c, "cases_invoking_custom_function": invoked,
                      "cases_expecting_option_error": blocked})
    step = max(1, len(obs) // 5)
    return D.finish(ctx, verdicts, by_id, evaluations=len(obs),
                    rule="exhaustive: every Evaluate option list of length 0..4 over {valid, duplicate of the previous name, predefined name, "
                         "unsupported type nested in collections, nil} and every Compile option list of length 0..4 over {well-typed, wrong first "
                         "parameter, wrong results, variadic, zero-arg, typed-arg} (two naming schemes: by kind, and with a built-in name last), "
                         "x programs referencing each variable at the root / in a function argument / in where and select criteria and calling each "
                         "function with right and wrong argument count and type; distinct = (mode, program form, shape or fixture in focus, "
                         "return mode, expected kind, observed kind)",
                    nontrivial_keys=keys,
                    samples=[{"id": o["id"], "src": o["src"], "out": o["out"], "calls": len(o["calls"])} for o in obs[::step]],
                    exhaustive=True,
                    assumptions=["evaluated on the input collection <<MR1 Patient, MR2 Observation>>",
                                 "custom functions are instrumented mocks (record input and arguments, return what the case configures)",
                                 "nil options and nested valid collections are outside the property's domain",
                                 "variadic custom functions: any outcome that is not a crash (DESIGN.md 7.1)"])


def corrupt_probe(ctx, obs, want_by_id):
    """Binding demonstration: altering one genuine record must make the judge reject exactly it."""
    import copy
    victims = []
    for o in obs:   # (a) a recorded invocation loses its argument
        if o["calls"] and o["calls"][0]["args"] and want_by_id[o["id"]].get("k") == "ok":
            v = copy.deepcopy(o)
            v["calls"][0]["args"] = []
            victims.append(v)
            break
    for o in obs:   # (b) an option error loses one of its classes
        if o["out"]["k"] == "err" and {"ExistingConstant", "UnsupportedType"} <= set(o["out"].get("cls", [])) and want_by_id[o["id"]].get("k") == "opterr":
            v = copy.deepcopy(o)
            v["out"]["cls"] = [c for c in v["out"]["cls"] if c != "UnsupportedType"]
            victims.append(v)
            break
    for o in obs:   # (c) a spliced collection comes back with an item dropped
        if o["cs"]["mode"] == "E" and o["cs"]["fk"] == "root" and o["out"]["k"] == "ok" and len(o["out"]["items"]) == 3:
            v = copy.deepcopy(o)
            v["out"]["items"] = v["out"]["items"][:2]
            victims.append(v)
            break
    if len(victims) != 3:
        raise D.Inconclusive("corrupted-record probe: found only %d suitable records" % len(victims))
    control = [o for o in obs if o["id"] not in {v["id"] for v in victims}][:3]
    D.write_ndjson(ctx.path("corrupt.ndjson"), victims + control)
    vs = D.judge(ctx, "C17_Judge", "C17_judge.cfg", ctx.path("corrupt.ndjson"), params={"MaxLen": MAXLEN}, tag="judge-corrupt")
    bad = {v["id"] for v in vs if not v["ok"]}
    known_bad = {o["id"] for o in control} & bad
    if not {v["id"] for v in victims} <= bad or len(bad) - len(known_bad) != 3:
        raise D.Inconclusive("corrupted-record probe: judge rejected %s, expected the three corrupted records" % sorted(bad))
    ctx.extra["corrupted_record_rejected"] = True
