"""C18 - FHIRPatch operations change exactly the targeted element, or nothing."""
import copy, json, os, random
from lib import driver as D

MUTANTS = ["deleteRemovesAllMatches", "insertOffByOne", "replaceAppends", "errorStillMutates"]
CHUNK = 12000


def write_run_params(ctx):
    """C18_Params.tla of this run: the files `c18 gen` writes (Params.tla itself is the driver's)."""
    D.write_params(ctx, {"TreesFile": ctx.path("trees.ndjson"), "SchemaFile": ctx.path("schema.json")}, name="C18_Params")


def flatten(records):
    out = []
    for r in records:
        if isinstance(r, list):
            out.extend(r)
        else:
            out.append(r)
    return out


def judge_all(ctx, obs, tag="judge"):
    """Judge behaviours in chunks (TLC holds one chunk of observations in memory at a time)."""
    verdicts = []
    for n, i in enumerate(range(0, len(obs), CHUNK)):
        path = ctx.path("%s-%03d.ndjson" % (tag, n))
        D.write_ndjson(path, obs[i:i + CHUNK])
        recs = D.judge(ctx, "C18_Judge", "C18_judge.cfg", path, tag="%s-%03d" % (tag, n))
        verdicts.extend(flatten(recs))
        if not ctx.keep:
            os.remove(path)
    return verdicts


def step_obs(obs):
    """One pseudo-observation per executed step (verdicts are per step)."""
    out = {}
    for o in obs:
        for k, s in enumerate(o["steps"]):
            out["%s#%d" % (o["id"], k + 1)] = {
                "id": "%s#%d" % (o["id"], k + 1), "behaviour": o["id"], "res": o["res"], "step": k + 1,
                "src": "%s %s%s%s" % (s["op"], s["text"], (" name=" + s["name"]) if s["op"] == "add" else "",
                                       (" index=%d" % s["index"]) if s["op"] == "insert" else ""),
                "out": s["out"], "val": {k2: s["val"][k2] for k2 in ("src", "res", "addr", "mk", "s", "i", "b", "pn", "nil")},
                "steps": o["steps"][:k + 1]}
    return out


def to_case(o):
    """The behaviour of an observation as a case (for --replay)."""
    steps = []
    for s in o["steps"]:
        steps.append({"op": s["op"], "path": s["path"], "text": s["text"], "name": s["name"], "index": s["index"],
                      "nilres": s["nilres"], "form": s.get("form", ""), "vlabel": s.get("vlabel", ""),
                      "val": {k: s["val"][k] for k in ("src", "res", "addr", "mk", "s", "i", "b")}})
    return {"id": o["id"], "res": o["res"], "src": "replay", "steps": steps}


def run(ctx):
    binary = D.build_harness(ctx, "c18")
    rng = random.Random(ctx.seed)
    D.stage_spec(ctx, params={"ObsFile": "/dev/null"})
    write_run_params(ctx)
    replay = getattr(ctx, "replay", None)
    # the harness annotates the model resources, derives the schema from the google/fhir descriptors and
    # enumerates the single operations of MR1..MR4 (every element path x form x operation x value x index)
    gen = json.loads(D.run_harness(ctx, binary, ["gen", ctx.work]).strip().splitlines()[-1])
    tlc_cases = []
    if replay:
        rec = json.load(open(replay))
        o = rec["observation"]
        beh = {"id": o["behaviour"], "res": o["res"], "steps": o["steps"]}
        open(ctx.path("enum.ndjson"), "w").close()
        tlc_cases = [to_case(beh)]
    else:
        # roles 1 + 2: the state machine on the small model M0; one behaviour per explored transition
        thorough = ctx.tier == "thorough"
        mc = D.model_check(ctx, "C18_MC", "C18_mc_thorough.cfg" if thorough else "C18_mc.cfg", timeout=900)
        if len(mc.records) < 5000:
            raise D.Inconclusive("generator emitted only %d behaviours" % len(mc.records))
        ctx.extra["model_behaviours"] = len(mc.records)
        for m in (MUTANTS if thorough else [MUTANTS[(ctx.seed + j) % 4] for j in (0, 1)]):
            D.mutant_twin(ctx, "C18_MC", "C18_mut_%s.cfg" % m, m, timeout=600)
        short = [r for r in mc.records if len(r["steps"]) <= (2 if thorough else 1)]
        deep = [r for r in mc.records if len(r["steps"]) > (2 if thorough else 1)]
        picked = short + rng.sample(deep, min(len(deep), 8000 if thorough else 3000))
        if thorough:
            sim = D.run_tlc(ctx, "C18_MC", "C18_sim.cfg", simulate="num=2", depth=6, workers=8, timeout=900, tag="sim")   # num is per worker: 16 walks
            if sim.violated or sim.error:
                raise D.Inconclusive("simulation of the model failed: %s" % (sim.violated or sim.error))
            ctx.extra["simulated_behaviours"] = len(sim.records)
            picked += rng.sample(sim.records, min(len(sim.records), 3000))
        for n, r in enumerate(picked):
            r["id"] = "t/%06d" % n
            r["src"] = "tlc"
            tlc_cases.append(r)
    D.write_ndjson(ctx.path("tlc_cases.ndjson"), tlc_cases)
    # directions A and B: run every behaviour in the real code
    D.run_harness(ctx, binary, ["run", ctx.work, ctx.path("tlc_cases.ndjson"), ctx.path("obs.ndjson")])
    obs = D.read_ndjson(ctx.path("obs.ndjson"))
    verdicts = judge_all(ctx, obs)
    by_step = step_obs(obs)
    malformed = [v for v in verdicts if str(v.get("sig", "")).startswith("malformed")]
    if malformed:
        # A malformed record is machinery (exit 2) - except when the same run has well-formed records in which the
        # judge saw element objects shared between two places or two resources: a process-wide shared object is
        # mutated by the behaviours that run concurrently, which makes OTHER records inconsistent. Those are set
        # aside (never reported as violations); the well-formed `shared` verdicts carry the run.
        shared = [v for v in verdicts if str(v.get("sig", "")).startswith("patch|shared|")]
        if not shared:
            raise D.Inconclusive("judge found %d malformed record(s), e.g. %s" % (len(malformed), json.dumps(malformed[0])))
        D.log("  %d malformed record(s) set aside (objects shared across resources were observed in %d well-formed records)" % (len(malformed), len(shared)))
        ctx.extra["malformed_set_aside"] = len(malformed)
        gone = {v["id"].split("#")[0] for v in malformed}
        verdicts = [v for v in verdicts if v["id"].split("#")[0] not in gone]
        by_step = {i: o for i, o in by_step.items() if o["behaviour"] not in gone}
    D.check_complete(verdicts, list(by_step.values()), what="step")
    if not replay:
        corrupt_probe(ctx, obs)
        steps = [s for o in obs for s in o["steps"]]
        if not any(s["out"]["k"] == "ok" and not s["eq"] for s in steps) or not any(s["out"]["k"] == "err" for s in steps):
            raise D.Inconclusive("dead driver: no successful mutation or no failing operation among %d calls" % len(steps))
    keys = [(s["op"], s.get("form", ""), s.get("vlabel", ""), s["out"]["k"], s["eq"]) for o in obs for s in o["steps"]]
    changed = sum(1 for o in obs if any(s["out"]["k"] == "ok" and not s["eq"] for s in o["steps"]))
    sample_ids = []
    for want in [("add", "ok"), ("insert", "ok"), ("delete", "ok"), ("replace", "ok"), ("replace", "err"), ("move", "err")]:
        for i, o in by_step.items():
            s = o["steps"][-1]
            if (s["op"], s["out"]["k"]) == want and (want[1] == "err" or not s["eq"]):
                sample_ids.append(i)
                break
    return D.finish(
        ctx, verdicts, by_step, evaluations=len(by_step),
        rule="one record per patch call; distinct = (operation, path form, value class, outcome kind, resource changed); "
             "%d behaviours, %d with at least one successful mutation; single operations enumerated from the annotated trees of "
             "M0, M2, MR1..MR4 (%d enumerated, %d kept in this tier), behaviours of the TLC model on M0, seeded sequences and inverse pairs"
             % (len(obs), changed, gen.get("enumerated", 0), gen.get("kept", 0)),
        nontrivial_keys=keys,
        samples=[{"res": by_step[i]["res"], "call": by_step[i]["src"], "value": by_step[i]["val"], "out": by_step[i]["out"],
                  "resource_changed": not by_step[i]["steps"][-1]["eq"]} for i in sample_ids],
        exhaustive=False,
        assumptions=["content hashes (sha256, 64 bits kept) identify subtrees: pruned post-trees are reconstructed by the judge from verified hints",
                     "value arguments are clones of elements of the donor resources or fresh primitives; typed-nil arguments and nil options are outside the quantifier"])


def corrupt_probe(ctx, obs):
    """Binding demonstration: edit the post-state of one genuine successful record; the judge must reject exactly it."""
    victim = None
    for o in obs:
        s = o["steps"][0]
        if len(o["steps"]) == 1 and s["out"]["k"] == "ok" and s["op"] == "delete" and not s["eq"] and s["post"]["st"] == 0 and len(s["post"]["ch"]) > 2:
            victim = copy.deepcopy(o)
            break
    control = next((o for o in obs if o["steps"][0]["out"]["k"] == "err" and o["steps"][0]["op"] == "delete" and o["steps"][0]["eq"]), None)
    if victim is None or control is None:
        raise D.Inconclusive("corrupted-record probe: no suitable record")
    ch = victim["steps"][0]["post"]["ch"]
    ch[0], ch[-1] = ch[-1], ch[0]
    ch.pop(1)          # one more element disappeared than the operation removes
    victim["id"] = "corrupt/" + victim["id"]
    control = copy.deepcopy(control)
    control["id"] = "control/" + control["id"]
    vs = judge_all(ctx, [victim, control], tag="judge-corrupt")
    bad = [v["id"] for v in vs if not v["ok"]]
    if bad != [victim["id"] + "#1"]:
        raise D.Inconclusive("corrupted-record probe: judge rejected %s, expected exactly the corrupted record" % bad)
    ctx.extra["corrupted_record_rejected"] = True
