"""C05 - equality and ordering operators form one consistent partial order."""
import copy
from lib import driver as D, machine as M, nodetrace as NT

MUTANTS = ["cmpFirstPairOnly", "ignoreOffset", "msIsPrecision", "intDecimalNoPromote"]


def run(ctx):
    binary = D.build_harness(ctx, "c05")
    D.stage_spec(ctx)
    mc = D.model_check(ctx, "C05_MC", "C05_mc_%s.cfg" % ctx.tier, timeout=900)
    cases = mc.records
    if len(cases) < 20000:
        raise D.Inconclusive("generator emitted only %d cases" % len(cases))
    for m in (MUTANTS if ctx.tier == "thorough" else MUTANTS[:2]):
        D.mutant_twin(ctx, "C05_MC", "C05_mut_%s.cfg" % m, m, timeout=900)
    D.write_ndjson(ctx.path("cases.ndjson"), cases)
    D.run_harness(ctx, binary, ["run", ctx.path("cases.ndjson"), ctx.path("obs.ndjson")])
    obs = D.read_ndjson(ctx.path("obs.ndjson"))
    verdicts = D.judge(ctx, "C05_Judge", "C05_judge.cfg", ctx.path("obs.ndjson"), timeout=1800)
    D.check_complete(verdicts, obs)
    skipped = sum(1 for v in verdicts if v.get("skipped"))
    if skipped > len(obs) // 2:
        raise D.Inconclusive("more than half of the cases were skipped (%d of %d)" % (skipped, len(obs)))
    if ctx.tier == "thorough":
        corrupt_probe(ctx, obs)
    by_id = {o["id"]: o for o in obs}
    vmap = {v["id"]: v for v in verdicts}
    keys = []
    for o in obs:
        if o["skip"]:
            continue
        c = o["cs"]
        if c["kind"] == "pair":
            keys.append(("pair", c["op"], c["l"]["k"], c["l"]["f"], c["r"]["k"], c["r"]["f"]))
        else:
            keys.append(("coll", c["op"], tuple(c["l"]), tuple(c["r"])))
    ctx.extra["skipped_unrepresentable_forms"] = skipped
    # programs of the whole abstract machine whose last step is one of this property's operations (lib/machine.py)
    verdicts = M.extend(ctx, verdicts, by_id)
    # node-level trace validation (spec/FPNodeTrace.tla): every node inside the repository's own tests, inside the machine
    # programs and inside a spread of the cases above is a checked transition; the value laws apply this property's reference
    # module to the logged values of every node's operands
    verdicts = NT.extend(ctx, verdicts, by_id, reruns=[
        (binary, ["run", NT.sample_cases(ctx, ctx.path("cases.ndjson"), 1500 if ctx.tier == "quick" else 12000), ctx.path("obs_traced.ndjson")])])
    return D.finish(ctx, [v for v in verdicts if not v.get("skipped")], by_id, evaluations=len(obs) - skipped,
                    rule="all ordered pairs of the 82-value pool (plus the empty operand) x six operators as literals, plus one rotating "
                         "environment-variable / FHIR-element form combination per pair; collection cases = variants of 12 base "
                         "collections (same, equal twins, different at k, partially comparable at k, both, shorter, longer, swapped); "
                         "distinct = (kind, operator, operand identities and forms)",
                    nontrivial_keys=keys,
                    samples=[{"src": o["src"], "case": o["cs"], "out": o["out"]} for o in obs[:: max(1, len(obs) // 5)] if not o["skip"]],
                    exhaustive=False,
                    assumptions=["environment-variable operands are built with the library's own Parse* constructors and re-checked by evaluating each operand alone",
                                 "FHIR-element operands are built by google/fhir jsonformat; forms a FHIR type cannot represent are skipped and counted"])


def corrupt_probe(ctx, obs):
    victim = None
    for o in obs:
        if not o["skip"] and o["out"]["k"] == "ok" and len(o["out"]["items"]) == 1 and o["out"]["items"][0].get("t") == "b":
            victim = copy.deepcopy(o)
            break
    if victim is None:
        raise D.Inconclusive("corrupted-record probe: no suitable record")
    victim["out"]["items"][0]["b"] = not victim["out"]["items"][0]["b"]
    D.write_ndjson(ctx.path("corrupt.ndjson"), [victim, obs[-1]])
    vs = D.judge(ctx, "C05_Judge", "C05_judge.cfg", ctx.path("corrupt.ndjson"), tag="judge-corrupt")
    if not any((not v["ok"]) and v["id"] == victim["id"] for v in vs):
        raise D.Inconclusive("corrupted-record probe: judge did not reject the corrupted record")
    ctx.extra["corrupted_record_rejected"] = True
