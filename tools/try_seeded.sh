#!/bin/bash
# tools/try_seeded.sh <seeded-id> <check> [<check>...] : apply a stored seeded change in a scratch worktree and run checks against it
cd /verif
id=$1; shift
WT=/tmp/wt-ts-$$
git -C /repo worktree add -q "$WT" HEAD || exit 2
trap 'git -C /repo worktree remove --force "$WT" >/dev/null 2>&1' EXIT
(cd $WT && git apply /verif/seeded/$id/patch.diff) || { echo "$id: patch does not apply"; exit 2; }
for P in "$@"; do
  R=$(VERIF_REPO=$WT VERIF_TLC_HEAP=6g bin/check $P --tier ${TIER:-quick} 2>&1); rc=$?
  echo "$id check $P: exit $rc; $(echo "$R" | grep -c '^VIOLATION') violation line(s)"
  echo "$R" | grep "signature:" | sort | uniq -c | sort -rn | head -4
done
