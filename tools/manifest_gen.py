#!/usr/bin/env python3
"""Regenerates /verif/MANIFEST.json from the table below (single source of truth for what is claimed)."""
import json, os
V = os.path.dirname(os.path.dirname(os.path.abspath(__file__)))

TECH = "explicit TLA+ specification; TLC model-checks its laws (mutant twins must fail), generates the cases, and judges the outcomes recorded from the real Go code"

CHECKS = {
 "C02": ("TLC walks every element-name path of every generated resource's annotated FHIR JSON tree; at every state it checks that step-wise navigation (FPNav) equals the independent characterisation 'all nodes in document order with this name path', that indexers are positional and that unknown names are errors (mutant twins: first-child-only, reversed order, no flattening must fail), and emits paths, indexed paths, per-node paths, .value reads, unknown and absent names and mismatched roots. Every case is evaluated by the real Compile/Evaluate on the very resource the tree was rendered from, and TLC judges the result item by item (address identity for input nodes, content hash for contained resources, value for primitives).",
         "Bounded: generated resources (schema-driven from google/fhir descriptors, all 146 types in the thorough tier) and their own paths; trusted: TLC, FPNav text, google/fhir jsonformat (tree rendering), the annotator (self-checked: every JSON member has a node).", "DESIGN.md section 6 C02"),
 "C07": ("TLC checks EmptyPropagates on the abstract machine (every non-aggregate function FPEval models maps the empty focus to the empty result; comparison and equality with an empty operand are empty; classification tables well formed; two mutant twins must fail) and generates the exhaustive case set: every operator x operand position and every name of the IMPLEMENTATION's base and experimental function tables (read at run time through funcs.Clone()) x every accepted arity, with the input empty and with every single-value argument empty, each supplied as {} literal, absent path and empty variable. Every case runs through Compile/Evaluate and is judged by TLC against the specification's permitted sets.",
         "Exhaustive over the space the quantifier names for the functions in the implementation's table at run time; a function unknown to the specification is still exercised (empty or error permitted, never a value or a crash). Trusted: TLC, C07/FPEval text, harness projection.", "DESIGN.md section 6 C07"),
 "C12": ("TLC checks the type lattice of FPTypes over the type table read from the google/fhir descriptors (reflexive, transitive, every type reaches Element or Resource in at most 5 steps, primitives specialise, namespaces disjoint, FHIR-first resolution; two mutant twins must fail) and generates the cases: for every generated resource the first node of every message type and choice-typed nodes x {is, as} x {declared type, ancestors, sibling types, other letter case, Element, BackboneElement, Resource, DomainResource, System counterpart} x namespaces {none, FHIR, System, unknown}, and 10 System values x every FHIR/System type name. Every case runs through Compile/Evaluate; TLC judges truth value, identity of the item returned by `as`, and Compile rejection of unknown names/namespaces.",
         "Bounded: generated resources as in C02 (all 146 types in the thorough tier); `X is BackboneElement` for top-level data types, xhtml and System.Any are left open as the property does not address them. Trusted: TLC, FPTypes text, the descriptor annotations, harness projection.", "DESIGN.md section 6 C12"),
 "C10": ("The interpreter's abstract machine (FPEval: big-step evaluator over the annotated tree, with where/select/exists/all/empty/count/first/last/tail/skip/take/indexer/distinct/isDistinct/exclude/intersect/extension/not/iif/allTrue... and criteria evaluated per item) is model-checked by TLC for the collection algebra at every focus of the pool (first = [0] = take(1), tail = skip(1), last = skip(count-1), take(n) ++ skip(n) = c for all n, exists(p) = where(p).exists(), all(p), distinct/isDistinct, exclude, extension(u) = extension.where(url=u); four mutant twins must fail). TLC emits every case; each is executed by the real Compile/Evaluate and judged by TLC: exact item identity and order for where/select/subsetting/exclude, acceptance predicates (one representative per equality class, no null item) for distinct/intersect.",
         "Bounded: 13 foci on model resources MR1/MR4 and environment collections, 16 criteria, 8 projections, n in [-3, count+3] and int32 boundaries, 9 overlap collections; cases whose criteria outcome the properties leave open are counted as unconstrained in the evidence. Trusted: TLC, FPEval/FPNav/FPCompare text, the harness projection.", "DESIGN.md section 6 C10"),
 "C03": ("FPSlices models Go slice aliasing (backing arrays, offset/length/capacity, sub-slicing by tail/skip/take, append with spare capacity); TLC explores every behaviour of a caller-owned slice under pipelines of steps and checks CallerArraysFrozen (invariant and action property), with the in-place-append mutant twin required to fail. Every behaviour is replayed with real Go slices (strings, and nodes of the resource) whose spare capacity holds sentinels; in addition every program of the abstract machine's generator (all collection functions, criteria, set functions over collections aliasing resource nodes, failing and succeeding) is run with before/after snapshots of every caller-owned object. TLC judges each record: no mutation flag (bytes, proto.Equal, presence bits, slice header, cells up to capacity, content) and every result element is one of the input's own nodes.",
         "Bounded: slices of length 0..3 with 0..2 spare cells and pipelines of up to 4 steps; the C10 program space on model resources. Trusted: TLC, FPSlices text, the harness snapshot code (lib/snapshot.go).", "DESIGN.md section 6 C03"),
 "C05": ("TLC checks symmetry, negation, mirror, trichotomy, transitivity, congruence and anchor laws of the reference comparison model (FPCompare) over the whole value pool and emits every ordered pair x six operators (literal forms, plus rotating environment-variable and FHIR-element forms) and the collection variants; every case is executed through Compile/Evaluate and judged by TLC against the model's permitted-answer sets; each operand evaluated alone must denote the pool value.",
         "Bounded: the 82-value pool and 12 base collections named in DESIGN.md C05; trusted: TLC, FPCompare/FPBigNum text, the harness projection, the library's Parse* constructors for environment operands (re-checked per operand).", "DESIGN.md section 6 C05, Appendix F"),
 "C06": ("TLC checks the Kleene laws on the specification's truth tables and explores the complete space of (context, operator, operand form, operand form) cases; every explored transition is replayed in the real code and judged by TLC against the specification's tables. Exhaustive over the finite space the property's quantifier names.",
         "Trusted: TLC, the TLA+ text (FPLogic, C06), the harness projection of results; operand forms are instantiated on one model resource.", "DESIGN.md section 6 C06"),
}

NOT_YET = "check not built yet in this session (planned, see DESIGN.md section 6); not claimed until it runs clean on the unchanged tree"

def main():
    checks = []
    for pid in sorted(CHECKS):
        text, note, ref = CHECKS[pid]
        checks.append({
            "property_id": pid,
            "quick_cmd": "bin/check %s --tier quick" % pid,
            "thorough_cmd": "bin/check %s --tier thorough" % pid,
            "evidence_file": "/verif/evidence/%s.json" % pid,
            "replay_cmd_template": "bin/check %s --replay {path}" % pid,
            "engine": "tla-spec",
            "level_claimed": {"category": "model_checking", "text": text, "design_ref": ref},
            "level_note": note,
            "technique": TECH,
        })
    m = {
        "version": 1,
        "setup_cmd": "bin/check --setup",
        "hooks": {
            "guard": "verif",
            "enable": "go build -tags verif (the harness module builds /repo's working tree through a replace directive)",
            "baseline_off_cmd": "cd /repo && GOFLAGS=-mod=mod GOPROXY=off GOSUMDB=off go test -vet=off -count=1 -timeout 25m ./...",
            "source_commits": [],
            "add_only": True,
        },
        "engines": [
            {"name": "tla-spec", "path": "spec", "serves_properties": sorted(CHECKS), "kind_free_text": "TLA+ specification of fhirpath-go (spec/*.tla); TLC as model checker, case generator and judge"},
            {"name": "harness", "path": "harness", "serves_properties": sorted(CHECKS), "kind_free_text": "Go conformance harness (module path inside fhirpath-go's tree, replace => /repo): concretises cases, runs the real API under recover/deadline, projects results to abstract items"},
        ],
        "checks": checks,
        "not_applicable": [{"property_id": "C%02d" % i, "reason": NOT_YET} for i in range(1, 21) if "C%02d" % i not in CHECKS],
        "notes": "Exit codes: 0 held / 1 VIOLATION / 2 inconclusive (machinery). Known findings: known_findings.jsonl and known_findings.d/*.jsonl. See DESIGN.md.",
    }
    json.dump(m, open(os.path.join(V, "MANIFEST.json"), "w"), indent=1)
    print("MANIFEST: %d checks" % len(checks))

main()
