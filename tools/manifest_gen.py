#!/usr/bin/env python3
"""Regenerates /verif/MANIFEST.json from the table below (single source of truth for what is claimed)."""
import json, os
V = os.path.dirname(os.path.dirname(os.path.abspath(__file__)))

TECH = "explicit TLA+ specification; TLC model-checks its laws (mutant twins must fail), generates the cases, and judges the outcomes recorded from the real Go code"

CHECKS = {
 "C01": ("The call protocol of the public API (idle -Call-> called -Return(ok|err|cerr)-> idle; panic and non-termination are not actions; the may-panic mutant twin must violate OutcomesAreReturns, and EveryCallReturns is checked as a liveness property under fairness) and the boundary alphabet are specified in TLA+; TLC generates every (function, arity) of the implementation's own tables x receivers and arguments from the boundary pool, every binary operator x pool x pool, polarity, indexer, is/as, EvaluateAs*, token sequences with and without separators, the patch matrix (add/insert/delete/replace/move x paths x value classes incl. nil x nil resource) and generic programs over schema-generated resources of every type; seeded byte-mutated sources are added by the harness. Every call runs under recover and a deadline; TLC judges that it returned.",
         "Bounded: the pools and matrices in spec/C01.tla; per-call deadline 5 s with one 50 s retry before a timeout is reported. Trusted: TLC, C01 text, the harness guard (lib/exec.go).", "DESIGN.md section 6 C01"),
 "C02": ("TLC walks every element-name path of every generated resource's annotated FHIR JSON tree; at every state it checks that step-wise navigation (FPNav) equals the independent characterisation 'all nodes in document order with this name path', that indexers are positional and that unknown names are errors (mutant twins: first-child-only, reversed order, no flattening must fail), and emits paths, indexed paths, per-node paths, .value reads, unknown and absent names and mismatched roots. Every case is evaluated by the real Compile/Evaluate on the very resource the tree was rendered from, and TLC judges the result item by item (address identity for input nodes, content hash for contained resources, value for primitives).",
         "Bounded: generated resources (schema-driven from google/fhir descriptors, all 146 types in the thorough tier) and their own paths; trusted: TLC, FPNav text, google/fhir jsonformat (tree rendering), the annotator (self-checked: every JSON member has a node).", "DESIGN.md section 6 C02"),
 "C07": ("TLC checks EmptyPropagates on the abstract machine (every non-aggregate function FPEval models maps the empty focus to the empty result; comparison and equality with an empty operand are empty; classification tables well formed; two mutant twins must fail) and generates the exhaustive case set: every operator x operand position and every name of the IMPLEMENTATION's base and experimental function tables (read at run time through funcs.Clone()) x every accepted arity, with the input empty and with every single-value argument empty, each supplied as {} literal, absent path and empty variable. Every case runs through Compile/Evaluate and is judged by TLC against the specification's permitted sets.",
         "Exhaustive over the space the quantifier names for the functions in the implementation's table at run time; a function unknown to the specification is still exercised (empty or error permitted, never a value or a crash). Trusted: TLC, C07/FPEval text, harness projection.", "DESIGN.md section 6 C07"),
 "C12": ("TLC checks the type lattice of FPTypes over the type table read from the google/fhir descriptors (reflexive, transitive, every type reaches Element or Resource in at most 5 steps, primitives specialise, namespaces disjoint, FHIR-first resolution; two mutant twins must fail) and generates the cases: for every generated resource the first node of every message type and choice-typed nodes x {is, as} x {declared type, ancestors, sibling types, other letter case, Element, BackboneElement, Resource, DomainResource, System counterpart} x namespaces {none, FHIR, System, unknown}, and 10 System values x every FHIR/System type name. Every case runs through Compile/Evaluate; TLC judges truth value, identity of the item returned by `as`, and Compile rejection of unknown names/namespaces.",
         "Bounded: generated resources as in C02 (all 146 types in the thorough tier); `X is BackboneElement` for top-level data types, xhtml and System.Any are left open as the property does not address them. Trusted: TLC, FPTypes text, the descriptor annotations, harness projection.", "DESIGN.md section 6 C12"),
 "C13": ("FPConvert states the FHIRPath conversion table as TLA+ recognisers over code-point strings and abstract values (To(T,x), Convertible(T,x), canonical ToStr); TLC checks convertsToT <=> toT non-empty, result typing, idempotence and string round trips on the value pool (four mutant twins must fail) and generates the cases (every pool item as literal, environment variable and FHIR element, complex elements, a 210-string grammar pool and seeded strings x 8 targets x toT / convertsToT / toT().toT() / toString().toT()); TLC judges every observation. See docs/notes/C13.md.",
         "Bounded: pools in spec/C13*.tla; readings the property leaves open (FPConvert!Amb) are accepted either way. Trusted: TLC, FPConvert text, harness projection.", "DESIGN.md section 6 C13; docs/notes/C13.md"),
 "C16": ("FPFunctions is the FHIRPath N1 function list as a TLA+ table (74 names: allowed argument counts, status, default call, distinguishing probes); TLC checks its well-formedness and the Compile-acceptance rule (four mutant twins must fail) and generates every name x argument count 0..4 x {default, WithExperimentalFuncs}; the harness compiles each (also in argument position), evaluates accepted calls and probes; TLC judges Compile acceptance against the implementation's table, the table against the specification, absence of arity complaints at evaluation, probe values (binding to the implementation of that name) and not-implemented names. See docs/notes/C16.md.",
         "Exhaustive over names x counts 0..4 x two configurations. Trusted: TLC, FPFunctions text (written from the FHIRPath N1 specification), harness projection.", "DESIGN.md section 6 C16; docs/notes/C16.md"),
 "C17": ("FPOptions models option folding for Evaluate and Compile as a state machine (pre-seeded context/ucum, EnvVariable and AddFunction as actions, errors accumulate, any error blocks evaluation) with a reference evaluator for the small program language; TLC explores all option lists of length 0..4 (781 Evaluate lists, 1555 Compile lists under two naming schemes), checks OptionErrorBlocksEval, ErrorsAccumulate, ErrorClasses, FirstWins, order independence (six mutant twins must fail) and emits the cases x programs; instrumented custom functions make 'nothing was evaluated' observable; TLC judges error classes, values, invocation counts. See docs/notes/C17.md.",
         "Exhaustive for lists of length 0..4 (thorough adds length 5 by simulation). Compile-side errors are judged as errors only (the repository exports no sentinel for them). Trusted: TLC, FPOptions text, harness.", "DESIGN.md section 6 C17; docs/notes/C17.md"),
 "C10": ("The interpreter's abstract machine (FPEval: big-step evaluator over the annotated tree, with where/select/exists/all/empty/count/first/last/tail/skip/take/indexer/distinct/isDistinct/exclude/intersect/extension/not/iif/allTrue... and criteria evaluated per item) is model-checked by TLC for the collection algebra at every focus of the pool (first = [0] = take(1), tail = skip(1), last = skip(count-1), take(n) ++ skip(n) = c for all n, exists(p) = where(p).exists(), all(p), distinct/isDistinct, exclude, extension(u) = extension.where(url=u); four mutant twins must fail). TLC emits every case; each is executed by the real Compile/Evaluate and judged by TLC: exact item identity and order for where/select/subsetting/exclude, acceptance predicates (one representative per equality class, no null item) for distinct/intersect.",
         "Bounded: 13 foci on model resources MR1/MR4 and environment collections, 16 criteria, 8 projections, n in [-3, count+3] and int32 boundaries, 9 overlap collections; cases whose criteria outcome the properties leave open are counted as unconstrained in the evidence. Trusted: TLC, FPEval/FPNav/FPCompare text, the harness projection.", "DESIGN.md section 6 C10"),
 "C03": ("FPSlices models Go slice aliasing (backing arrays, offset/length/capacity, sub-slicing by tail/skip/take, append with spare capacity); TLC explores every behaviour of a caller-owned slice under pipelines of steps and checks CallerArraysFrozen (invariant and action property), with the in-place-append mutant twin required to fail. Every behaviour is replayed with real Go slices (strings, and nodes of the resource) whose spare capacity holds sentinels; in addition every program of the abstract machine's generator (all collection functions, criteria, set functions over collections aliasing resource nodes, failing and succeeding) is run with before/after snapshots of every caller-owned object. TLC judges each record: no mutation flag (bytes, proto.Equal, presence bits, slice header, cells up to capacity, content) and every result element is one of the input's own nodes.",
         "Bounded: slices of length 0..3 with 0..2 spare cells and pipelines of up to 4 steps; the C10 program space on model resources. Trusted: TLC, FPSlices text, the harness snapshot code (lib/snapshot.go).", "DESIGN.md section 6 C03"),
 "C05": ("TLC checks symmetry, negation, mirror, trichotomy, transitivity, congruence and anchor laws of the reference comparison model (FPCompare) over the whole value pool and emits every ordered pair x six operators (literal forms, plus rotating environment-variable and FHIR-element forms) and the collection variants; every case is executed through Compile/Evaluate and judged by TLC against the model's permitted-answer sets; each operand evaluated alone must denote the pool value.",
         "Bounded: the 82-value pool and 12 base collections named in DESIGN.md C05; trusted: TLC, FPCompare/FPBigNum text, the harness projection, the library's Parse* constructors for environment operands (re-checked per operand).", "DESIGN.md section 6 C05, Appendix F"),
 "C06": ("TLC checks the Kleene laws on the specification's truth tables and explores the complete space of (context, operator, operand form, operand form) cases; every explored transition is replayed in the real code and judged by TLC against the specification's tables. Exhaustive over the finite space the property's quantifier names.",
         "Trusted: TLC, the TLA+ text (FPLogic, C06), the harness projection of results; operand forms are instantiated on one model resource.", "DESIGN.md section 6 C06"),
}

NOT_YET = "check not built yet in this session (planned, see DESIGN.md section 6); not claimed until it runs clean on the unchanged tree"

def main():
    checks = []
    for pid in sorted(CHECKS):
        text, note, ref = CHECKS[pid]
        checks.append({
            "property_id": pid,
            "quick_cmd": "bin/check %s --tier quick" % pid,
            "thorough_cmd": "bin/check %s --tier thorough" % pid,
            "evidence_file": "/verif/evidence/%s.json" % pid,
            "replay_cmd_template": "bin/check %s --replay {path}" % pid,
            "engine": "tla-spec",
            "level_claimed": {"category": "model_checking", "text": text, "design_ref": ref},
            "level_note": note,
            "technique": TECH,
        })
    m = {
        "version": 1,
        "setup_cmd": "bin/check --setup",
        "hooks": {
            "guard": "verif",
            "enable": "go build -tags verif (the harness module builds /repo's working tree through a replace directive)",
            "baseline_off_cmd": "cd /repo && GOFLAGS=-mod=mod GOPROXY=off GOSUMDB=off go test -vet=off -count=1 -timeout 25m ./...",
            "source_commits": [],
            "add_only": True,
        },
        "engines": [
            {"name": "tla-spec", "path": "spec", "serves_properties": sorted(CHECKS), "kind_free_text": "TLA+ specification of fhirpath-go (spec/*.tla); TLC as model checker, case generator and judge"},
            {"name": "harness", "path": "harness", "serves_properties": sorted(CHECKS), "kind_free_text": "Go conformance harness (module path inside fhirpath-go's tree, replace => /repo): concretises cases, runs the real API under recover/deadline, projects results to abstract items"},
        ],
        "checks": checks,
        "not_applicable": [{"property_id": "C%02d" % i, "reason": NOT_YET} for i in range(1, 21) if "C%02d" % i not in CHECKS],
        "notes": "Exit codes: 0 held / 1 VIOLATION / 2 inconclusive (machinery). Known findings: known_findings.jsonl and known_findings.d/*.jsonl. See DESIGN.md.",
    }
    json.dump(m, open(os.path.join(V, "MANIFEST.json"), "w"), indent=1)
    print("MANIFEST: %d checks" % len(checks))

main()
