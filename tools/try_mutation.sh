#!/bin/bash
# tools/try_mutation.sh <outdir> <k> <prop> [more props...]
# Confirms a seeded mutation (demo passes on HEAD, fails with the change, repository suite still passes) and runs
# the given checks against the mutated tree. Prints a summary; leaves nothing behind.
OUT=$1; K=$2; shift 2; PFX=${MUT_PREFIX:-m}
export GOFLAGS=-mod=mod GOPROXY=off GOSUMDB=off GOTOOLCHAIN=local
WT=/tmp/wt-mut-$$
git -C /repo worktree add -q "$WT" HEAD || exit 2
trap 'git -C /repo worktree remove --force "$WT" >/dev/null 2>&1' EXIT
DEMO=$(ls $OUT/${PFX}${K}_demo_test.go 2>/dev/null)
PKG=${DEMO_PKG:-fhirpath}
if [ -n "$DEMO" ]; then
  if [ -z "$DEMO_PKG" ] && grep -q "^package system" "$DEMO"; then PKG=fhirpath/system; fi
  D=$(head -3 "$DEMO" | grep -o "^// dir: *[A-Za-z0-9_/.-]*" | sed 's#// dir: *##' | head -1)
  if [ -z "$DEMO_PKG" ] && [ -n "$D" ]; then PKG=$D; fi
  cp "$DEMO" "$WT/$PKG/zz_m${K}_demo_test.go"
  TESTS=$(grep -o "^func Test[A-Za-z0-9_]*" "$DEMO" | sed 's/func //' | paste -sd'|')
  (cd $WT && go test -vet=off -count=1 -run "^($TESTS)\$" ./$PKG/ >/tmp/mut_demo_head.log 2>&1) && echo "demo on HEAD: PASS" || echo "demo on HEAD: FAIL (unexpected)"
fi
(cd $WT && git apply "$OUT/${PFX}$K.diff") || { echo "diff does not apply"; exit 2; }
if [ -n "$DEMO" ]; then
  (cd $WT && go test -vet=off -count=1 -run "^($TESTS)\$" ./$PKG/ >/tmp/mut_demo_mut.log 2>&1) && echo "demo with change: PASS (unexpected)" || echo "demo with change: FAIL (as claimed)"
  rm -f "$WT/$PKG/zz_m${K}_demo_test.go"
fi
S=$(cd $WT && go test -vet=off -count=1 ./... 2>&1 | grep -v "^ok\|no test files")
if [ -z "$S" ]; then echo "repository suite with change: PASS"; else echo "repository suite with change: FAIL"; echo "$S" | head -5; fi
for P in "$@"; do
  R=$(cd /verif && VERIF_REPO=$WT VERIF_TLC_HEAP=6g bin/check $P --tier ${TIER:-quick} 2>&1)
  RC=$?
  echo "check $P: exit $RC; $(echo "$R" | grep -c '^VIOLATION') violation line(s)"
  echo "$R" | grep "signature:" | sort | uniq -c | sort -rn | head -6
done
