#!/bin/bash
# tools/try_diff.sh <patch.diff> <check> [<check>...] : apply a diff in a scratch worktree of /repo and run checks against it
cd /verif
D=$1; shift
WT=/tmp/wt-td-$$
git -C /repo worktree add -q "$WT" HEAD || exit 2
trap 'git -C /repo worktree remove --force "$WT" >/dev/null 2>&1' EXIT
(cd $WT && git apply "$D") || { echo "$D: patch does not apply"; exit 2; }
for P in "$@"; do
  R=$(VERIF_REPO=$WT VERIF_TLC_HEAP=6g bin/check $P --tier ${TIER:-quick} 2>&1); rc=$?
  echo "$D check $P: exit $rc; $(echo "$R" | grep -c '^VIOLATION') violation line(s)"
  echo "$R" | grep "signature:" | sort | uniq -c | sort -rn | head -${NSIG:-4}
  [ $rc = 2 ] && echo "$R" | tail -5
done
