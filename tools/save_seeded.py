#!/usr/bin/env python3
"""tools/save_seeded.py <outdir> <k> <prop> <id> <status> <caught_by> [note]
Stores an independently produced breaking change under /verif/seeded/<id>/ (patch.diff, the demonstration, the
author's description and meta.json)."""
import json, os, shutil, sys, glob, subprocess
out, k, prop, sid, status, caught = sys.argv[1:7]
note = sys.argv[7] if len(sys.argv) > 7 else ""
V = os.path.dirname(os.path.dirname(os.path.abspath(__file__)))
d = os.path.join(V, "seeded", sid)
os.makedirs(d, exist_ok=True)
shutil.copy(os.path.join(out, "m%s.diff" % k), os.path.join(d, "patch.diff"))
demos = glob.glob(os.path.join(out, "m%s_demo*" % k))
for f in demos:
    if os.path.isdir(f):
        shutil.copytree(f, os.path.join(d, os.path.basename(f)), dirs_exist_ok=True)
    else:
        shutil.copy(f, os.path.join(d, "demo_test.go.txt" if f.endswith(".go") else os.path.basename(f)))
md = os.path.join(out, "m%s.md" % k)
desc = open(md).read() if os.path.exists(md) else ""
if desc:
    open(os.path.join(d, "description.md"), "w").write(desc)
head = subprocess.run(["git", "-C", "/repo", "log", "--format=%h", "-1"], capture_output=True, text=True).stdout.strip()
meta = {
    "property": prop,
    "produced_by": "independent sub-agent given only the property text and a scratch worktree",
    "base_commit": head,
    "summary": desc.strip().split("\n")[0][:300] if desc else "",
    "needs_to_manifest": note,
    "confirmed": ["demonstration passes on the base commit", "demonstration fails with patch.diff applied",
                  "the repository's unedited test suite passes with patch.diff applied"],
    "ran": "tools/try_mutation.sh %s %s %s  (VERIF_REPO=<scratch worktree with patch.diff applied> bin/check %s --tier quick)" % (out, k, prop, prop),
    "status": status,
    "caught_by": caught,
    "demo": "copy demo_test.go.txt to fhirpath/zz_demo_test.go in the repository and run: go test -vet=off -count=1 ./fhirpath/ -run <TestName>",
}
json.dump(meta, open(os.path.join(d, "meta.json"), "w"), indent=1)
print("saved", d)
