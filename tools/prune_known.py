#!/usr/bin/env python3
"""tools/prune_known.py Cxx ... : after fixes were committed to /repo, drop the known-finding entries that carried a
proposed fix and were no longer observed by the last run of the check (evidence/Cxx.json known_findings_seen)."""
import json, os, sys
V = os.path.dirname(os.path.dirname(os.path.abspath(__file__)))
for prop in sys.argv[1:]:
    path = os.path.join(V, "known_findings.d", prop + ".jsonl")
    if not os.path.exists(path):
        continue
    seen = set(json.load(open(os.path.join(V, "evidence", prop + ".json")))["coverage"].get("known_findings_seen", []))
    keep, dropped = [], []
    for line in open(path):
        if not line.strip():
            continue
        if line.startswith("#") or line.startswith("fixed:"):
            keep.append(line); continue
        rec = json.loads(line)
        fixable = any(k in rec for k in ("proposed_fix", "fix", "proposed_fixes")) or "proposed_fixes/" in line
        if fixable and rec["signature"] not in seen:
            dropped.append(rec["signature"])
        else:
            keep.append(line)
    open(path, "w").write("".join(keep))
    print(prop, "kept", len(keep), "dropped", len(dropped))
    for d in dropped:
        print("   -", d[:140])
