#!/usr/bin/env python3
"""Prints the markdown table of seeded changes (DESIGN.md section 13.6) from seeded/*/meta.json."""
import json, glob, os
V = os.path.dirname(os.path.dirname(os.path.abspath(__file__)))
print("| id | property | what it needs to manifest | outcome | caught by |")
print("|---|---|---|---|---|")
for d in sorted(glob.glob(os.path.join(V, "seeded", "*", "meta.json"))):
    m = json.load(open(d)); sid = os.path.basename(os.path.dirname(d))
    print("| %s | %s | %s | %s | %s |" % (sid, m["property"], m["needs_to_manifest"].replace("|", "\\|")[:110], m["status"], m["caught_by"].replace("|", "\\|")[:150]))
