#!/bin/bash
# tools/try_benign.sh <diff> [checks...] : apply a behaviour-preserving change in a scratch worktree and run the quick checks against
# it; every check must still exit 0 (a VIOLATION here is a false alarm of the check).
cd /verif
DIFF=$1; shift
CHECKS=${@:-C01 C02 C03 C04 C05 C06 C07 C08 C09 C10 C11 C12 C13 C14 C15 C16 C17 C18 C19 C20}
WT=/tmp/wt-ben-$$
export GOFLAGS=-mod=mod GOPROXY=off GOSUMDB=off GOTOOLCHAIN=local
git -C /repo worktree add -q "$WT" HEAD || exit 2
trap 'git -C /repo worktree remove --force "$WT" >/dev/null 2>&1' EXIT
(cd $WT && (git apply "$DIFF" 2>/dev/null || git apply --3way "$DIFF" >/dev/null 2>&1)) || { echo "$DIFF: does not apply"; exit 2; }
S=$(cd $WT && go build ./... 2>&1 && go test -vet=off -count=1 ./... 2>&1 | grep -v "^ok\|no test files")
if [ -n "$S" ]; then echo "$DIFF: repository suite FAILS with the change"; echo "$S" | head -5; exit 2; fi
run() { P=$1; R=$(VERIF_REPO=$WT VERIF_TLC_HEAP=5g bin/check $P --tier quick 2>&1); rc=$?; echo "$(basename $DIFF) $P exit=$rc $(echo "$R" | grep 'signature:' | sort | uniq -c | sort -rn | head -3 | tr '\n' ';')"; }
export -f run; export WT DIFF
printf "%s\n" $CHECKS | xargs -P 3 -I{} bash -c 'run {}'
