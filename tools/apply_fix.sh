#!/bin/bash
# tools/apply_fix.sh <diff> <commit message file or string>
# Applies a proposed fix to a scratch worktree of /repo, builds, runs the repository's unedited test suite,
# commits it there and cherry-picks the commit onto /repo's main. Aborts (non-zero) on any failure.
set -e
DIFF=$(readlink -f "$1"); MSG="$2"
export GOFLAGS=-mod=mod GOPROXY=off GOSUMDB=off GOTOOLCHAIN=local
WT=/tmp/wt-apply-$$
git -C /repo worktree add -q "$WT" HEAD
trap 'git -C /repo worktree remove --force "$WT" >/dev/null 2>&1 || true' EXIT
cd "$WT"
git apply --3way "$DIFF" 2>/dev/null || git apply "$DIFF"
if git diff --name-only HEAD | grep -q "_test.go"; then echo "diff edits a test file: refused"; exit 3; fi
go build ./... 
OUT=$(go test -vet=off -count=1 ./... 2>&1 | grep -v "^ok\|no test files" || true)
if [ -n "$OUT" ]; then echo "TESTS FAIL:"; echo "$OUT" | head -30; exit 4; fi
git add -A
git commit -q -m "$MSG"
SHA=$(git rev-parse HEAD)
cd /repo
git cherry-pick "$SHA" >/dev/null
echo "applied: $(git log --oneline -1)"
