#!/bin/bash
# tools/machine_vs_seeded.sh [ids...] : which stored seeded changes does the abstract machine alone notice?
cd /verif
IDS=${@:-$(ls seeded | grep -E '^C(02|05|06|07|08|10|12|13|14)-')}
for id in $IDS; do
  prop=${id%%-*}
  WT=/tmp/wt-ms-$$
  git -C /repo worktree add -q "$WT" HEAD || exit 2
  if (cd $WT && git apply /verif/seeded/$id/patch.diff 2>/dev/null); then
    R=$(VERIF_REPO=$WT VERIF_TLC_HEAP=6g MACHINE_PROP=$prop TIER=${TIER:-quick} bin/check MACHINE --tier ${TIER:-quick} 2>&1); rc=$?
    echo "$id exit=$rc $(echo "$R" | grep 'signature:' | head -3 | tr '\n' ' ')"
  else
    echo "$id patch does not apply"
  fi
  git -C /repo worktree remove --force "$WT" >/dev/null 2>&1
done
