#!/bin/bash
# tools/coverage.sh [tier] : runs every check with coverage-instrumented harness binaries and reports, per package and per
# function of the library, which statements no check executes.  A measurement, not a check: it tells where the case spaces
# of the specification do not reach the implementation.  Output: .work/cover/{percent.txt,func.txt}
export GOFLAGS=-mod=mod GOPROXY=off GOSUMDB=off GOTOOLCHAIN=local
cd /verif
TIER=${1:-quick}
D=/verif/.work/cover; rm -rf $D; mkdir -p $D/raw
for c in C01 C02 C03 C04 C05 C06 C07 C08 C09 C10 C11 C12 C13 C14 C15 C16 C17 C18 C19 C20; do
  VERIF_NO_EVIDENCE=1 VERIF_COVERDIR=$D/raw VERIF_TLC_HEAP=6g bin/check $c --tier $TIER >/dev/null 2>$D/$c.err; echo "$c exit $?"
done
(cd harness && go tool covdata percent -i=$D/raw > $D/percent.txt; go tool covdata textfmt -i=$D/raw -o $D/cover.txt; go tool cover -func=$D/cover.txt > $D/func.txt)
grep fhirpath-go $D/percent.txt | grep -v zzverif
