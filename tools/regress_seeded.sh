#!/bin/bash
# tools/regress_seeded.sh [ids...] : every stored seeded change must still be caught (exit 1) by the check(s) named in its meta.json.
cd /verif
IDS=${@:-$(ls seeded)}
one() {
  id=$1
  checks=$(python3 -c "
import json,re,sys
m=json.load(open('/verif/seeded/$id/meta.json'))
cs=re.findall(r'bin/check (C\d\d)', m['caught_by'])
print(' '.join(dict.fromkeys(cs)) or m['property'])")
  WT=/tmp/wt-rg-$id
  git -C /repo worktree add -q "$WT" HEAD 2>/dev/null || { echo "$id worktree-failed"; return; }
  if ! (cd $WT && (git apply /verif/seeded/$id/patch.diff 2>/dev/null || git apply --3way /verif/seeded/$id/patch.diff >/dev/null 2>&1)); then
    echo "$id patch-does-not-apply"; git -C /repo worktree remove --force "$WT" >/dev/null 2>&1; return
  fi
  if ! (cd $WT && GOFLAGS=-mod=mod GOPROXY=off GOSUMDB=off GOTOOLCHAIN=local go build ./... >/dev/null 2>&1); then
    echo "$id does-not-build"; git -C /repo worktree remove --force "$WT" >/dev/null 2>&1; return
  fi
  res=""
  for P in $checks; do
    VERIF_REPO=$WT VERIF_TLC_HEAP=5g bin/check $P --tier quick >/tmp/rg_$id_$P.out 2>&1; rc=$?
    res="$res $P=$rc"
    [ $rc = 1 ] && break
  done
  echo "$id$res"
  git -C /repo worktree remove --force "$WT" >/dev/null 2>&1
}
export -f one
printf "%s\n" $IDS | xargs -P 3 -I{} bash -c 'one {}'
