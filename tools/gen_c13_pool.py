#!/usr/bin/env python3
"""One-off authoring aid: writes /verif/spec/C13_Pool.tla (the string grammar pool of C13 as
code-point sequences).  The .tla file is the source of truth afterwards."""
import sys
GROUPS = [
 ("boolean spellings and near misses", [
   "true","TRUE","True","t","T","yes","Yes","y","Y","1","1.0","false","FALSE","f","no","N","n","0","0.0",
   "tru","truee"," true","true ","yess","2","1.00","01","on","off","0.00","-0","1.","nope","tRuE"]),
 ("integer", [
   "5","-5","+5","+1","007","2147483647","-2147483648","2147483648","-2147483649","99999999999999999999",
   " 1","1 ","1e3","0x10","1_000","--1","+-1","+","-","\u0661\u0662","12a"]),
 ("decimal", [
   "1.5","-1.5","+1.5","1.50",".5","5.","1.2.3","1E3","1.5e-3","1,5","NaN","Inf","-Inf","infinity",
   "0.000000000000000001","12345678901234567890.123456789","1.0000000000000000000000000001"," 1.5","1.5 ","-.5","+.5","1.5.","00.50"]),
 ("date", [
   "2020","2020-02","2020-02-29","2019-02-29","2020-13-01","2020-00-01","2020-01-00","2020-1-1","20-01-01",
   "2020/01/01","2020-01-01T","2020-01-01 ","@2020","@2020-01-01","0001-01-01","9999-12-31","2020-02-30",
   "2020-04-31","20200101","2020-W01","1900-02-29","2000-02-29","2020-","2020-02-","02020","202"]),
 ("dateTime", [
   "2020-02-29T10","2020-02-29T10:30","2020-02-29T10:30:15","2020-02-29T10:30:15.250","2020-02-29T10:30:15Z",
   "2020-02-29T10:30:15+05:30","2020-02-29T10:30:15.250-11:00","2020-02-29T10Z","2020-02-29T10:30+01:00","2020T","2020-02T","2020-02T10",
   "2020T10:30","2020-02-29T24:00","2020-02-29T10:60","2020-02-29 10:30","2020-02-29t10:30","2020-02-29T10:30:15+5:30",
   "2020-02-29T10:30:15+05","2020-02-29T10:30:15 Z","2020-02-29TZ","@2020-02-29T10:30","2020-02-29T1","2020-02-29T10:3",
   "2020-02-29T10:30:15z","2020-02-29T10:30:15+05:60","2019-02-29T10:30","2020-02-29T10:30:15.250Z","2020-02-29TT10","2020-02-29T10:30:15+0530",
   "2020-02-29T10:30:15.25","2020-02-29T10:30:60","2020-02-29T10:30:15+15:00","0000-01-01"]),
 ("time", [
   "10","10:30","10:30:15","10:30:15.250","00:00","23:59:59.999","24:00","23:60","10:30:60","1:30","10:3",
   "T10:30","@T10:30","10:30Z","10:30:15+01:00","10.30","10:30:15.25","10:30:15.","10:30 ","T","10:","10:30:","7","10:30:15.2500","1030","10:30:15,250"]),
 ("quantity", [
   "5 mg","5 'mg'","5 days","5days","5'mg'","5  mg","5 'km/h'","5 km/h","5 ''","5 'm g'","5 'mg","5 mg'",
   "1.5 kg","-1.5 kg","+1 wk","5 m2","mg","5. mg",".5 mg","5\tmg","1e3 mg","5 'mg' x","5 day","1 year",
   "4 '1'","5 1","5 'mg''","5 ' '","5 \u00b5g","5 '\u00b5g'","1.5'kg'","5 mg ","5\nmg","0 mg","100 'km per hour'"]),
 ("other", ["abc",""," ","\u00e9","\U0001F600","Z","'","null","a'b","\\","male","h\u00e9llo"]),
]
out = []
out.append("------------------------------ MODULE C13_Pool ------------------------------")
out.append("(***************************************************************************)")
out.append("(* The string grammar pool of property C13: valid and near-valid renderings *)")
out.append("(* of every target type, as code-point sequences (TLC strings are ASCII-    *)")
out.append("(* only and cannot be indexed).  Each line carries its text as a comment.   *)")
out.append("(* To add a string, add its code points here.                               *)")
out.append("(***************************************************************************)")
out.append("EXTENDS Sequences")
seen = set()
names = []
for gi, (g, ss) in enumerate(GROUPS):
    name = "Str_" + g.split()[0]
    names.append(name)
    out.append("")
    out.append("(* %s *)" % g)
    out.append("%s == <<" % name)
    items = []
    for s in ss:
        if s in seen:
            continue
        seen.add(s)
        cps = ", ".join(str(ord(c)) for c in s)
        vis = s.encode("ascii", "backslashreplace").decode().replace("\t", "\\t").replace("\n", "\\n")
        vis = vis.replace("*)", "* )").replace("(*", "( *")
        items.append(("  <<%s>>" % cps, vis))
    for i, (t, vis) in enumerate(items):
        out.append("%s%s   \\* [%s]" % (t, "," if i < len(items) - 1 else " ", vis))
    out.append(">>")
out.append("")
out.append("StrPoolAll == " + " \\o ".join(names))
out.append("=============================================================================")
open("/verif/spec/C13_Pool.tla", "w").write("\n".join(out) + "\n")
print(len(seen), "strings")
