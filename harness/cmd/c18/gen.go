package main

import (
	"encoding/json"
	"fmt"
	"hash/fnv"
	"math/rand"
	"os"
	"path/filepath"
	"strings"

	"github.com/verily-src/fhirpath-go/fhirpath/zzverif/lib"
)

// PStep is one step of a structured path. Every field is always emitted (the
// TLA+ side reads records with a fixed shape).
//
//	root  s = type name            field s = FHIRPath element name
//	index i = 0-based index        where s = child name, x = ASCII string literal
//	first, last                    ext   x = extension url
//	value (primitive .value)       concat x (& 'x'), count
//	skip i, take i
type PStep struct {
	K string `json:"k"`
	S string `json:"s"`
	X string `json:"x"`
	I int    `json:"i"`
}

// ValSpec says how the value argument is built.
//
//	donor: a clone of the element at addr in pristine resource res
//	mk:    a fresh primitive of proto type mk with string s / integer i / boolean b
//	nil:   a nil value
type ValSpec struct {
	Src  string `json:"src"`
	Res  string `json:"res"`
	Addr []int  `json:"addr"`
	Mk   string `json:"mk"`
	S    string `json:"s"`
	I    int    `json:"i"`
	B    bool   `json:"b"`
}

// OpStep is one patch call.
type OpStep struct {
	Op     string  `json:"op"`
	Path   []PStep `json:"path"`
	Text   string  `json:"text"`
	Name   string  `json:"name"`
	Index  int     `json:"index"`
	NilRes bool    `json:"nilres"`
	Val    ValSpec `json:"val"`
	Form   string  `json:"form"` // informational: how the generator derived the path
	VLabel string  `json:"vlabel"`
}

// Behaviour is a sequence of patch calls on one model resource.
type Behaviour struct {
	ID    string   `json:"id"`
	Res   string   `json:"res"`
	Src   string   `json:"src"`
	Steps []OpStep `json:"steps"`
}

func render(path []PStep) string {
	var b strings.Builder
	for i, s := range path {
		switch s.K {
		case "root":
			b.WriteString(s.S)
		case "field":
			if i > 0 {
				b.WriteByte('.')
			}
			b.WriteString(s.S)
		case "index":
			fmt.Fprintf(&b, "[%d]", s.I)
		case "where":
			fmt.Fprintf(&b, ".where(%s = '%s')", s.S, s.X)
		case "first":
			b.WriteString(".first()")
		case "last":
			b.WriteString(".last()")
		case "ext":
			fmt.Fprintf(&b, ".extension('%s')", s.X)
		case "value":
			b.WriteString(".value")
		case "concat":
			fmt.Fprintf(&b, " & '%s'", s.X)
		case "count":
			b.WriteString(".count()")
		case "skip":
			fmt.Fprintf(&b, ".skip(%d)", s.I)
		case "take":
			fmt.Fprintf(&b, ".take(%d)", s.I)
		}
	}
	return b.String()
}

func nilVal() ValSpec { return ValSpec{Src: "nil", Addr: []int{}} }
func mkStr(pn, s string) ValSpec {
	return ValSpec{Src: "mk", Mk: pn, S: s, Addr: []int{}}
}
func mkInt(pn string, i int) ValSpec { return ValSpec{Src: "mk", Mk: pn, I: i, Addr: []int{}} }
func mkBool(b bool) ValSpec         { return ValSpec{Src: "mk", Mk: "Boolean", B: b, Addr: []int{}} }
func donorVal(d donorRef) ValSpec {
	return ValSpec{Src: "donor", Res: d.Res, Addr: append([]int{}, d.Node.Addr...)}
}

// ---------------------------------------------------------------- path forms

type gen struct {
	pool   *Pool
	schema map[string][]Field
	donors map[string][]donorRef
}

type tree struct {
	name   string
	ann    *lib.Annotated
	parent map[*lib.Node]*lib.Node
	chain  map[string][]*lib.Node // name chain -> nodes in document order
	key    map[*lib.Node]string
}

func newTree(name string, a *lib.Annotated) *tree {
	t := &tree{name: name, ann: a, parent: map[*lib.Node]*lib.Node{}, chain: map[string][]*lib.Node{}, key: map[*lib.Node]string{}}
	var rec func(n *lib.Node, key string)
	rec = func(n *lib.Node, key string) {
		t.key[n] = key
		t.chain[key] = append(t.chain[key], n)
		for _, c := range n.Kids {
			t.parent[c] = n
			rec(c, key+"."+c.N)
		}
	}
	rec(a.Root, a.Root.N)
	return t
}

// group returns the siblings of n with the same name and n's position.
func (t *tree) group(n *lib.Node) ([]*lib.Node, int) {
	p := t.parent[n]
	if p == nil {
		return []*lib.Node{n}, 0
	}
	var g []*lib.Node
	pos := -1
	for _, c := range p.Kids {
		if c.N == n.N {
			if c == n {
				pos = len(g)
			}
			g = append(g, c)
		}
	}
	return g, pos
}

func (t *tree) ancestors(n *lib.Node) []*lib.Node {
	var out []*lib.Node
	for x := n; x != nil; x = t.parent[x] {
		out = append([]*lib.Node{x}, out...)
	}
	return out
}

// indexed is the fully indexed path to n.
func (t *tree) indexed(n *lib.Node) []PStep {
	chain := t.ancestors(n)
	out := []PStep{{K: "root", S: chain[0].N}}
	for _, x := range chain[1:] {
		out = append(out, PStep{K: "field", S: x.N})
		if x.Li {
			_, pos := t.group(x)
			out = append(out, PStep{K: "index", I: pos})
		}
	}
	return out
}

func (t *tree) plain(n *lib.Node) []PStep {
	chain := t.ancestors(n)
	out := []PStep{{K: "root", S: chain[0].N}}
	for _, x := range chain[1:] {
		out = append(out, PStep{K: "field", S: x.N})
	}
	return out
}

func simpleASCII(s string) bool {
	if s == "" || len(s) > 60 {
		return false
	}
	for _, r := range s {
		if r < 32 || r > 126 || r == '\'' || r == '\\' || r == '"' {
			return false
		}
	}
	return true
}

func strOf(it lib.Item) (string, bool) {
	if it["t"] != "s" {
		return "", false
	}
	cps, ok := it["cp"].([]int)
	if !ok {
		return "", false
	}
	return lib.FromCodePoints(cps), true
}

// whereStep finds a criterion `child = 'literal'` on a scalar string-valued child.
func whereStep(n *lib.Node) (PStep, bool) {
	for _, c := range n.Kids {
		if c.Li || c.K != "prim" || c.Ch {
			continue
		}
		switch c.Ty {
		case "string", "code", "uri", "id":
		default:
			continue
		}
		s, ok := strOf(c.V)
		if !ok || !simpleASCII(s) {
			continue
		}
		return PStep{K: "where", S: c.N, X: s}, true
	}
	return PStep{}, false
}

func extURL(n *lib.Node) (string, bool) {
	if n.N != "extension" {
		return "", false
	}
	for _, c := range n.Kids {
		if c.N == "url" {
			s, ok := strOf(c.V)
			return s, ok && simpleASCII(s)
		}
	}
	return "", false
}

type formed struct {
	form string
	path []PStep
}

func cp(p []PStep, more ...PStep) []PStep { return append(append([]PStep{}, p...), more...) }

// forms lists the path forms under which node n is addressed.
func (t *tree) forms(n *lib.Node) []formed {
	out := []formed{{"indexed", t.indexed(n)}}
	p := t.parent[n]
	if p == nil {
		return out
	}
	pl := t.plain(n)
	if render(pl) != render(out[0].path) {
		out = append(out, formed{"plain", pl})
		nodes := t.chain[t.key[n]]
		for j, x := range nodes {
			if x == n {
				out = append(out, formed{"lastidx", cp(pl, PStep{K: "index", I: j})})
			}
		}
	}
	base := cp(t.indexed(p), PStep{K: "field", S: n.N})
	if n.Li {
		g, pos := t.group(n)
		if pos == 0 && render(base) != render(pl) {
			out = append(out, formed{"list", base})
		}
		if pos == 0 {
			out = append(out, formed{"first", cp(base, PStep{K: "first"})})
		}
		if pos == len(g)-1 {
			out = append(out, formed{"last", cp(base, PStep{K: "last"})})
		}
		if w, ok := whereStep(n); ok {
			out = append(out, formed{"where", cp(base, w)})
		}
		// subsetting functions; skip(0) and take(len) hand their input on unchanged
		out = append(out, formed{"skip0", cp(base, PStep{K: "skip", I: 0}, PStep{K: "index", I: pos})})
		out = append(out, formed{"takeall", cp(base, PStep{K: "take", I: len(g)}, PStep{K: "index", I: pos})})
		if pos > 0 {
			out = append(out, formed{"skipfirst", cp(base, PStep{K: "skip", I: pos}, PStep{K: "first"})})
		}
		if u, ok := extURL(n); ok {
			out = append(out, formed{"ext", cp(t.indexed(p), PStep{K: "ext", X: u})})
		}
	}
	// nearest repeated ancestor addressed by a criterion / first() / extension(url)
	chain := t.ancestors(n)
	for i := len(chain) - 2; i >= 1; i-- {
		a := chain[i]
		if !a.Li {
			continue
		}
		below := func(prefix []PStep) []PStep {
			q := cp(prefix)
			for _, x := range chain[i+1:] {
				q = append(q, PStep{K: "field", S: x.N})
				if x.Li {
					_, pos := t.group(x)
					q = append(q, PStep{K: "index", I: pos})
				}
			}
			return q
		}
		abase := cp(t.indexed(t.parent[a]), PStep{K: "field", S: a.N})
		if w, ok := whereStep(a); ok {
			out = append(out, formed{"ancwhere", below(cp(abase, w))})
		}
		if g, pos := t.group(a); pos == 0 {
			out = append(out, formed{"ancfirst", below(cp(abase, PStep{K: "first"}))})
		} else if pos == len(g)-1 {
			out = append(out, formed{"anclast", below(cp(abase, PStep{K: "last"}))})
		}
		if u, ok := extURL(a); ok {
			out = append(out, formed{"ancext", below(cp(t.indexed(t.parent[a]), PStep{K: "ext", X: u}))})
		}
		break
	}
	return out
}

// ---------------------------------------------------------------- values

type labelled struct {
	label string
	val   ValSpec
}

var strLike = map[string]bool{"string": true, "code": true, "id": true, "uri": true, "url": true, "canonical": true, "markdown": true, "oid": true, "uuid": true}
var intLike = map[string]bool{"integer": true, "positiveInt": true, "unsignedInt": true}

func (g *gen) donorFor(pn, avoidHash string) (donorRef, bool) {
	ds := g.donors[pn]
	for _, d := range ds {
		if d.Node.H != avoidHash {
			return d, true
		}
	}
	if len(ds) > 0 {
		return ds[0], true
	}
	return donorRef{}, false
}

func (g *gen) resourceDonor(avoidHash string) (donorRef, bool) {
	for _, pn := range []string{"Organization", "Patient", "Observation"} {
		for _, d := range g.donors[pn] {
			if d.Node.K == "resource" && d.Node.H != avoidHash && len(d.Node.Addr) > 0 {
				return d, true
			}
		}
	}
	return donorRef{}, false
}

// valuesFor lists the value arguments tried for a field: of the declared
// type(s), of a sibling type, of a wrong type, nil.
func (g *gen) valuesFor(f *Field, cur *lib.Node) []labelled {
	out := []labelled{}
	avoid := ""
	curPn := ""
	if cur != nil {
		avoid, curPn = cur.H, cur.Pn
	}
	has := func(fam map[string]bool) bool {
		if f == nil {
			return false
		}
		for _, a := range f.Alts {
			if fam[a.Ty] {
				return true
			}
		}
		return false
	}
	hasTy := func(ty string) bool {
		if f == nil {
			return false
		}
		for _, a := range f.Alts {
			if a.Ty == ty {
				return true
			}
		}
		return false
	}
	if f != nil {
		if f.AnyRes {
			if d, ok := g.resourceDonor(avoid); ok {
				out = append(out, labelled{"right", donorVal(d)})
			}
		} else {
			n := 0
			// the current type first, then up to two other alternatives with a donor
			for pass := 0; pass < 2; pass++ {
				for _, a := range f.Alts {
					if (pass == 0) != (a.Pn == curPn) {
						continue
					}
					if n >= 3 {
						break
					}
					if d, ok := g.donorFor(a.Pn, avoid); ok {
						lab := "right"
						if a.Pn != curPn && curPn != "" {
							lab = "rightalt"
						}
						out = append(out, labelled{lab, donorVal(d)})
						n++
					}
				}
			}
			for _, a := range f.Alts {
				switch {
				case len(a.Codes) > 0:
					out = append(out, labelled{"sib", mkStr("String", a.Codes[len(a.Codes)-1])})
					out = append(out, labelled{"sib", mkStr("Code", a.Codes[0])})
					out = append(out, labelled{"sibbad", mkStr("String", "not-a-code")})
					out = append(out, labelled{"sibbad", mkStr("Code", "Bad_Code")})
				case a.Ty == "positiveInt" || a.Ty == "unsignedInt":
					out = append(out, labelled{"sib", mkInt("Integer", 5)})
					out = append(out, labelled{"sibbad", mkInt("Integer", -5)})
				case a.Ty == "integer" && !f.Choice:
					out = append(out, labelled{"sib", mkInt("PositiveInt", 5)})
				case strLike[a.Ty] && !f.Choice:
					if a.Pn == "Code" {
						out = append(out, labelled{"sib", mkStr("String", "sv")})
					} else {
						out = append(out, labelled{"sib", mkStr("Code", "sv")})
					}
				}
				if len(out) > 8 {
					break
				}
			}
		}
	}
	if f == nil && cur != nil && cur.K == "resource" {
		// the resource itself: a resource of the same type
		for _, d := range g.donors[cur.Pn] {
			if d.Node.H != cur.H {
				out = append(out, labelled{"right", donorVal(d)})
				break
			}
		}
	}
	// wrong types
	if !hasTy("boolean") {
		out = append(out, labelled{"wrong", mkBool(true)})
	} else if !has(strLike) {
		out = append(out, labelled{"wrong", mkStr("String", "w")})
	}
	if !has(intLike) {
		out = append(out, labelled{"wrong", mkInt("Integer", 3)})
	}
	wrongPn := "Period"
	if f != nil {
		for _, a := range f.Alts {
			if a.Pn == "Period" {
				wrongPn = "Coding"
			}
		}
	}
	if d, ok := g.donorFor(wrongPn, ""); ok {
		out = append(out, labelled{"wrong", donorVal(d)})
	}
	if f != nil && !f.AnyRes {
		if d, ok := g.resourceDonor(""); ok {
			out = append(out, labelled{"wrong", donorVal(d)})
		}
	}
	out = append(out, labelled{"nil", nilVal()})
	return out
}

// ---------------------------------------------------------------- enumeration

func (g *gen) enumerate(name string) []Behaviour {
	t := newTree(name, g.pool.Ann[name])
	var out []Behaviour
	n := 0
	emit := func(st OpStep) {
		n++
		st.Text = render(st.Path)
		if st.Val.Addr == nil {
			st.Val.Addr = []int{}
		}
		out = append(out, Behaviour{ID: fmt.Sprintf("e/%s/%06d", name, n), Res: name, Src: "enum", Steps: []OpStep{st}})
	}
	walk(t.ann.Root, func(x *lib.Node) {
		par := t.parent[x]
		var fld *Field
		if par != nil {
			fld = findField(g.schema, par.Pn, x.N)
		}
		grp, _ := t.group(x)
		for _, fm := range t.forms(x) {
			emit(OpStep{Op: "delete", Path: fm.path, Form: fm.form, Val: nilVal(), VLabel: "none"})
			if fm.form == "indexed" || fm.form == "plain" {
				emit(OpStep{Op: "move", Path: fm.path, Form: fm.form, Val: nilVal(), VLabel: "none", Index: 1})
			}
			vals := g.valuesFor(fld, x)
			for _, v := range vals {
				emit(OpStep{Op: "replace", Path: fm.path, Form: fm.form, Val: v.val, VLabel: v.label})
			}
			// insert: every index in [-1, len+1] with every value for the list-shaped forms,
			// a reduced cross for the others
			for _, v := range vals {
				for idx := -1; idx <= len(grp)+1; idx++ {
					full := fm.form == "plain" || fm.form == "list" || (fm.form == "indexed" && !x.Li)
					if !full && !(idx == 0 || (v.label == "right" && idx <= 1)) {
						continue
					}
					if full && v.label != "right" && v.label != "rightalt" && v.label != "wrong" && idx != 0 && idx != len(grp) {
						continue
					}
					emit(OpStep{Op: "insert", Path: fm.path, Form: fm.form, Index: idx, Val: v.val, VLabel: v.label})
				}
			}
			// add: the node addressed by this path is the element that gains a child
			if fm.form == "lastidx" || fm.form == "list" || strings.HasPrefix(fm.form, "anc") && fm.form != "ancwhere" {
				continue
			}
			names := g.addNames(x)
			for _, nm := range names {
				af := findField(g.schema, x.Pn, nm.name)
				var cur *lib.Node
				for _, c := range x.Kids {
					if c.N == nm.name {
						cur = c
					}
				}
				avals := g.valuesFor(af, cur)
				for _, v := range avals {
					if fm.form != "indexed" && v.label != "right" && v.label != "wrong" {
						continue
					}
					emit(OpStep{Op: "add", Path: fm.path, Form: fm.form + "/" + nm.kind, Name: nm.name, Val: v.val, VLabel: v.label})
				}
			}
		}
		// targets that are not elements of the tree
		ix := t.indexed(x)
		if x.K == "prim" {
			emit(OpStep{Op: "delete", Path: cp(ix, PStep{K: "value"}), Form: "sysvalue", Val: nilVal(), VLabel: "none"})
			if d, ok := g.donorFor(x.Pn, x.H); ok {
				emit(OpStep{Op: "replace", Path: cp(ix, PStep{K: "value"}), Form: "sysvalue", Val: donorVal(d), VLabel: "right"})
				emit(OpStep{Op: "add", Path: cp(ix, PStep{K: "value"}), Form: "sysvalue", Name: "extension", Val: donorVal(d), VLabel: "wrong"})
			}
			if x.Ty == "string" {
				emit(OpStep{Op: "delete", Path: cp(ix, PStep{K: "concat", X: "x"}), Form: "computed", Val: nilVal(), VLabel: "none"})
				emit(OpStep{Op: "replace", Path: cp(ix, PStep{K: "concat", X: "x"}), Form: "computed", Val: mkStr("String", "r"), VLabel: "right"})
			}
		} else {
			emit(OpStep{Op: "delete", Path: cp(ix, PStep{K: "field", S: "zzz"}), Form: "badname", Val: nilVal(), VLabel: "none"})
			emit(OpStep{Op: "replace", Path: cp(ix, PStep{K: "field", S: "zzz"}), Form: "badname", Val: mkStr("String", "r"), VLabel: "wrong"})
			emit(OpStep{Op: "delete", Path: cp(ix, PStep{K: "count"}), Form: "computed", Val: nilVal(), VLabel: "none"})
			for _, nm := range g.addNames(x) {
				if nm.kind != "absent" {
					continue
				}
				emit(OpStep{Op: "delete", Path: cp(ix, PStep{K: "field", S: nm.name}), Form: "absent", Val: nilVal(), VLabel: "none"})
				af := findField(g.schema, x.Pn, nm.name)
				for _, v := range g.valuesFor(af, nil) {
					if v.label == "right" {
						emit(OpStep{Op: "replace", Path: cp(ix, PStep{K: "field", S: nm.name}), Form: "absent", Val: v.val, VLabel: v.label})
						emit(OpStep{Op: "insert", Path: cp(ix, PStep{K: "field", S: nm.name}), Form: "absent", Val: v.val, VLabel: v.label})
						break
					}
				}
			}
		}
	})
	// nil resource
	root := []PStep{{K: "root", S: t.ann.Root.N}}
	var someField *Field
	var someNode *lib.Node
	for _, c := range t.ann.Root.Kids {
		if c.Li {
			someNode = c
			someField = findField(g.schema, t.ann.Root.Pn, c.N)
			break
		}
	}
	if someNode != nil {
		p := cp(root, PStep{K: "field", S: someNode.N})
		for _, v := range g.valuesFor(someField, someNode) {
			if v.label != "right" && v.label != "nil" {
				continue
			}
			emit(OpStep{Op: "add", Path: root, Name: someNode.N, NilRes: true, Val: v.val, VLabel: v.label, Form: "nilres"})
			emit(OpStep{Op: "insert", Path: p, NilRes: true, Val: v.val, VLabel: v.label, Form: "nilres"})
			emit(OpStep{Op: "replace", Path: cp(p, PStep{K: "index", I: 0}), NilRes: true, Val: v.val, VLabel: v.label, Form: "nilres"})
		}
		emit(OpStep{Op: "delete", Path: p, NilRes: true, Val: nilVal(), VLabel: "none", Form: "nilres"})
		emit(OpStep{Op: "move", Path: p, NilRes: true, Val: nilVal(), VLabel: "none", Form: "nilres"})
	}
	return out
}

type addName struct{ name, kind string }

// addNames: names used with Add on element x: each child name present, up to
// three valid absent names (a scalar, a list, a choice where available), a name
// that is no element, and a snake_case spelling.
func (g *gen) addNames(x *lib.Node) []addName {
	out := []addName{}
	seen := map[string]bool{}
	for _, c := range x.Kids {
		if !seen[c.N] {
			seen[c.N] = true
			out = append(out, addName{c.N, "present"})
		}
	}
	var gotScalar, gotList, gotChoice bool
	for _, f := range g.schema[x.Pn] {
		if seen[f.N] || f.N == "id" && x.K != "prim" {
			continue
		}
		if f.N == "extension" || f.N == "modifierExtension" {
			if x.K != "prim" {
				continue
			}
		}
		hasDonor := f.AnyRes
		for _, a := range f.Alts {
			if len(g.donors[a.Pn]) > 0 {
				hasDonor = true
			}
		}
		if !hasDonor {
			continue
		}
		switch {
		case f.Choice && !gotChoice:
			gotChoice = true
		case f.List && !f.Choice && !gotList:
			gotList = true
		case !f.List && !f.Choice && !gotScalar:
			gotScalar = true
		default:
			continue
		}
		out = append(out, addName{f.N, "absent"})
	}
	out = append(out, addName{"zzz", "bogus"})
	for _, f := range g.schema[x.Pn] {
		if sn := camelToSnake(f.N); sn != f.N {
			out = append(out, addName{sn, "snake"})
			break
		}
	}
	return out
}

// ---------------------------------------------------------------- seeded behaviours

// randomBehaviours composes seeded sequences of 2..5 enumerated operations and
// the inverse pairs (add then delete, replace then replace-back).
func (g *gen) randomBehaviours(name string, alphabet []Behaviour, count int, rng *rand.Rand) []Behaviour {
	var out []Behaviour
	t := newTree(name, g.pool.Ann[name])
	var succ []OpStep // operations that plausibly succeed, to make sequences that really change the tree
	for _, b := range alphabet {
		s := b.Steps[0]
		if s.NilRes {
			continue
		}
		if (s.VLabel == "right" || s.Op == "delete") && (s.Form == "indexed" || s.Form == "where" || s.Form == "first" || s.Form == "last" || strings.HasPrefix(s.Form, "indexed/")) {
			succ = append(succ, s)
		}
	}
	for i := 0; i < count; i++ {
		n := 2 + rng.Intn(4)
		b := Behaviour{ID: fmt.Sprintf("r/%s/%05d", name, i), Res: name, Src: "rand"}
		for j := 0; j < n; j++ {
			if rng.Intn(3) > 0 && len(succ) > 0 {
				b.Steps = append(b.Steps, succ[rng.Intn(len(succ))])
			} else {
				b.Steps = append(b.Steps, alphabet[rng.Intn(len(alphabet))].Steps[0])
			}
		}
		out = append(out, b)
	}
	// inverse pairs
	k := 0
	walk(t.ann.Root, func(x *lib.Node) {
		par := t.parent[x]
		if par == nil || nodeMessage(x) == nil {
			return
		}
		fld := findField(g.schema, par.Pn, x.N)
		ix := t.indexed(x)
		for _, v := range g.valuesFor(fld, x) {
			if v.label != "right" && v.label != "rightalt" {
				continue
			}
			k++
			orig := ValSpec{Src: "donor", Res: name, Addr: append([]int{}, x.Addr...)}
			out = append(out, Behaviour{ID: fmt.Sprintf("i/%s/rr%05d", name, k), Res: name, Src: "inverse", Steps: []OpStep{
				{Op: "replace", Path: ix, Text: render(ix), Val: v.val, VLabel: v.label, Form: "indexed"},
				{Op: "replace", Path: ix, Text: render(ix), Val: orig, VLabel: "right", Form: "indexed"},
			}})
		}
		if x.K == "prim" {
			return
		}
		for _, nm := range g.addNames(x) {
			if nm.kind == "bogus" || nm.kind == "snake" {
				continue
			}
			af := findField(g.schema, x.Pn, nm.name)
			for _, v := range g.valuesFor(af, nil) {
				if v.label != "right" {
					continue
				}
				k++
				del := cp(ix, PStep{K: "field", S: nm.name})
				if af != nil && af.List {
					del = append(del, PStep{K: "last"})
				}
				out = append(out, Behaviour{ID: fmt.Sprintf("i/%s/ad%05d", name, k), Res: name, Src: "inverse", Steps: []OpStep{
					{Op: "add", Path: ix, Text: render(ix), Name: nm.name, Val: v.val, VLabel: v.label, Form: "indexed/" + nm.kind},
					{Op: "delete", Path: del, Text: render(del), Val: nilVal(), VLabel: "none", Form: "last"},
				}})
				break
			}
		}
	})
	return out
}

// ---------------------------------------------------------------- aliasing triples

// aliasTriples: the SAME value (each time a fresh object with the same content)
// is written to two different places A and B of one resource - two elements of
// one list, or the same element of two parents - and a third operation then
// touches one of them (a child id/extension is added, it is replaced by another
// value, it is deleted). The judge checks the frame condition on the whole tree
// after every step, so a write that made A and B share an object, or a lookup
// that confuses A with B, shows at the third step (and the shared-pointer flag
// at the second).
func (g *gen) aliasTriples(name string) []Behaviour {
	t := newTree(name, g.pool.Ann[name])
	var out []Behaviour
	n := 0
	emit := func(tag string, steps ...OpStep) {
		n++
		for i := range steps {
			steps[i].Text = render(steps[i].Path)
			if steps[i].Val.Addr == nil {
				steps[i].Val.Addr = []int{}
			}
		}
		out = append(out, Behaviour{ID: fmt.Sprintf("a/%s/%s%05d", name, tag, n), Res: name, Src: "alias", Steps: steps})
	}
	inContained := func(x *lib.Node) bool {
		for p := x; p != nil; p = t.parent[p] {
			if p.N == "contained" {
				return true
			}
		}
		return false
	}
	extDonor, haveExt := g.donorFor("Extension", "")
	// what can be done to an element at path p afterwards
	thirds := func(p []PStep, w2 *ValSpec) []OpStep {
		ops := []OpStep{
			{Op: "add", Path: p, Name: "id", Val: mkStr("String", "al1"), VLabel: "right", Form: "alias/touch"},
			{Op: "delete", Path: p, Val: nilVal(), VLabel: "none", Form: "alias/delete"},
		}
		if haveExt {
			ops = append(ops, OpStep{Op: "add", Path: p, Name: "extension", Val: donorVal(extDonor), VLabel: "right", Form: "alias/touch"})
		}
		if w2 != nil {
			ops = append(ops, OpStep{Op: "replace", Path: p, Val: *w2, VLabel: "right", Form: "alias/replace"})
		}
		return ops
	}
	writable := func(f *Field) []labelled {
		var vs []labelled
		for _, v := range g.valuesFor(f, nil) {
			if v.label == "right" || v.label == "sib" {
				vs = append(vs, v)
			}
		}
		return vs
	}
	pick := func(vs []labelled) ([]labelled, func(int) *ValSpec) {
		// up to three values to write (converted sibling values first: they are
		// rebuilt by the implementation), and for each a different one to replace with
		var order []labelled
		for _, v := range vs {
			if v.label == "sib" {
				order = append(order, v)
			}
		}
		for _, v := range vs {
			if v.label == "right" {
				order = append(order, v)
			}
		}
		if len(order) > 3 {
			order = order[:3]
		}
		other := func(i int) *ValSpec {
			for j := range vs {
				a, b := vs[j].val, order[i].val
				if a.Src != b.Src || a.Mk != b.Mk || a.S != b.S || a.I != b.I || a.Res != b.Res || fmt.Sprint(a.Addr) != fmt.Sprint(b.Addr) {
					return &vs[j].val
				}
			}
			return nil
		}
		return order, other
	}
	// (1) existing elements of the same field of the same parent type
	groups := map[string][]*lib.Node{}
	var keys []string
	walk(t.ann.Root, func(x *lib.Node) {
		par := t.parent[x]
		if par == nil || inContained(x) {
			return
		}
		k := par.Pn + "." + x.N
		if _, ok := groups[k]; !ok {
			keys = append(keys, k)
		}
		groups[k] = append(groups[k], x)
	})
	for _, k := range keys {
		gr := groups[k]
		if len(gr) < 2 {
			continue
		}
		pairs := [][2]*lib.Node{{gr[0], gr[1]}}
		for i := 1; i < len(gr); i++ {
			if t.parent[gr[i]] != t.parent[gr[0]] {
				if i != 1 {
					pairs = append(pairs, [2]*lib.Node{gr[0], gr[i]})
				}
				break
			}
		}
		if t.parent[gr[0]] != t.parent[gr[1]] {
			for i := 0; i+1 < len(gr); i++ {
				if t.parent[gr[i]] == t.parent[gr[i+1]] {
					pairs = append(pairs, [2]*lib.Node{gr[i], gr[i+1]})
					break
				}
			}
		}
		fld := findField(g.schema, t.parent[gr[0]].Pn, gr[0].N)
		vals, other := pick(writable(fld))
		for _, pr := range pairs {
			pa, pb := t.indexed(pr[0]), t.indexed(pr[1])
			for vi, v := range vals {
				w1 := OpStep{Op: "replace", Path: pa, Val: v.val, VLabel: v.label, Form: "alias/write"}
				w2 := OpStep{Op: "replace", Path: pb, Val: v.val, VLabel: v.label, Form: "alias/write"}
				for _, target := range [][]PStep{pa, pb} {
					for _, third := range thirds(target, other(vi)) {
						emit("rr", w1, w2, third)
					}
				}
			}
		}
	}
	// (2) the same absent element added to two parents of the same type
	pgroups := map[string][]*lib.Node{}
	var pkeys []string
	walk(t.ann.Root, func(x *lib.Node) {
		if x.K == "prim" || t.parent[x] == nil || inContained(x) {
			return
		}
		if _, ok := pgroups[x.Pn]; !ok {
			pkeys = append(pkeys, x.Pn)
		}
		pgroups[x.Pn] = append(pgroups[x.Pn], x)
	})
	for _, k := range pkeys {
		gr := pgroups[k]
		if len(gr) < 2 {
			continue
		}
		a, b := gr[0], gr[1]
		for _, f := range g.schema[a.Pn] {
			if f.AnyRes || f.N == "id" || f.N == "extension" || f.N == "modifierExtension" {
				continue
			}
			has := func(x *lib.Node) bool {
				for _, c := range x.Kids {
					if c.N == f.N {
						return true
					}
				}
				return false
			}
			if !f.List && (has(a) || has(b)) {
				continue
			}
			fc := f
			vals, other := pick(writable(&fc))
			if len(vals) == 0 {
				continue
			}
			if len(vals) > 2 {
				vals = vals[:2]
			}
			pa, pb := t.indexed(a), t.indexed(b)
			at := func(p []PStep) []PStep {
				q := cp(p, PStep{K: "field", S: f.N})
				if f.List {
					q = append(q, PStep{K: "last"})
				}
				return q
			}
			for vi, v := range vals {
				w1 := OpStep{Op: "add", Path: pa, Name: f.N, Val: v.val, VLabel: v.label, Form: "alias/write"}
				w2 := OpStep{Op: "add", Path: pb, Name: f.N, Val: v.val, VLabel: v.label, Form: "alias/write"}
				for _, target := range [][]PStep{at(pa), at(pb)} {
					for _, third := range thirds(target, other(vi)) {
						emit("aa", w1, w2, third)
					}
				}
			}
		}
	}
	return out
}

// ---------------------------------------------------------------- gen command

func stableHash(s string) uint32 {
	h := fnv.New32a()
	h.Write([]byte(s))
	return h.Sum32()
}

func cmdGen(outdir string) {
	pool := loadPool()
	g := &gen{pool: pool, schema: buildSchema(pool), donors: donorIndex(pool)}
	// trees
	w, err := lib.NewWriter(filepath.Join(outdir, "trees.ndjson"))
	if err != nil {
		lib.Fatal("%v", err)
	}
	for _, name := range pool.Names {
		if err := w.Write(map[string]any{"name": name, "tree": pool.Ann[name].Root}); err != nil {
			lib.Fatal("%v", err)
		}
	}
	if err := w.Close(); err != nil {
		lib.Fatal("%v", err)
	}
	sb, err := json.Marshal(g.schema)
	if err != nil {
		lib.Fatal("%v", err)
	}
	if err := os.WriteFile(filepath.Join(outdir, "schema.json"), sb, 0o644); err != nil {
		lib.Fatal("%v", err)
	}
	// enumerated single operations + seeded behaviours
	tier := os.Getenv("VERIF_TIER")
	seed := lib.Seed()
	rng := rand.New(rand.NewSource(seed))
	ew, err := lib.NewWriter(filepath.Join(outdir, "enum.ndjson"))
	if err != nil {
		lib.Fatal("%v", err)
	}
	total, kept := 0, 0
	for _, name := range []string{"M0", "M2", "M3", "MR1", "MR2", "MR3", "MR4"} {
		all := g.enumerate(name)
		total += len(all)
		sel := all
		if tier != "thorough" {
			sel = quickSelect(name, all, seed)
		}
		for _, b := range sel {
			kept++
			if err := ew.Write(b); err != nil {
				lib.Fatal("%v", err)
			}
		}
		nr := 60
		if tier == "thorough" {
			nr = 600
		}
		if name == "MR4" {
			nr /= 4
		}
		rb := g.randomBehaviours(name, all, nr, rng)
		if tier != "thorough" {
			// keep every fourth inverse pair in the quick tier (rotating with the seed)
			var keep []Behaviour
			for i, b := range rb {
				if b.Src != "inverse" || (i+int(seed))%4 == 0 || name == "M0" || name == "M2" {
					keep = append(keep, b)
				}
			}
			rb = keep
		}
		for _, b := range rb {
			kept++
			if err := ew.Write(b); err != nil {
				lib.Fatal("%v", err)
			}
		}
		// aliasing triples: all in the thorough tier; in the quick tier every triple that
		// writes a converted (sibling) value and a seeded eighth of the others
		for _, b := range g.aliasTriples(name) {
			total++
			if tier != "thorough" && b.Steps[0].VLabel != "sib" && stableHash(fmt.Sprintf("%d|%s", seed, b.ID))%8 != 0 {
				continue
			}
			kept++
			if err := ew.Write(b); err != nil {
				lib.Fatal("%v", err)
			}
		}
	}
	if err := ew.Close(); err != nil {
		lib.Fatal("%v", err)
	}
	fmt.Printf("{\"enumerated\":%d,\"kept\":%d}\n", total, kept)
}

// quickSelect keeps, per stratum (operation, target type, path form, value
// class, index class), one seeded representative - and every case of the small
// model M0 and of the fully indexed form on MR1.
func quickSelect(name string, all []Behaviour, seed int64) []Behaviour {
	type pick struct {
		b Behaviour
		h uint32
	}
	best := map[string]pick{}
	var order []string
	for _, b := range all {
		s := b.Steps[0]
		idxc := "in"
		if s.Op == "insert" {
			switch {
			case s.Index < 0:
				idxc = "neg"
			case s.Index == 0:
				idxc = "zero"
			}
		}
		last := s.Path[len(s.Path)-1]
		buckets := uint32(3)
		if name == "MR1" {
			buckets = 12
		}
		key := strings.Join([]string{s.Op, s.Form, s.VLabel, idxc, last.K, s.Val.Mk, fmt.Sprint(stableHash(last.S+s.Name) % buckets)}, "|")
		if name == "M2" && (last.S == "maxLength" || s.Name == "maxLength") {
			key = b.ID // the plain `integer` element: always kept
		}
		h := stableHash(fmt.Sprintf("%d|%s", seed, b.ID))
		if p, ok := best[key]; !ok {
			best[key] = pick{b, h}
			order = append(order, key)
		} else if h < p.h {
			best[key] = pick{b, h}
		}
	}
	out := make([]Behaviour, 0, len(order))
	for _, k := range order {
		out = append(out, best[k].b)
	}
	return out
}
