package main

import (
	"bufio"
	"bytes"
	"encoding/json"
	"fmt"
	"os"
	"path/filepath"
	"runtime"
	"strings"
	"sync"

	dtpb "github.com/google/fhir/go/proto/google/fhir/proto/r4/core/datatypes_go_proto"
	"github.com/verily-src/fhirpath-go/fhirpath/patch"
	"github.com/verily-src/fhirpath-go/fhirpath/zzverif/lib"
	"github.com/verily-src/fhirpath-go/internal/fhir"
	"google.golang.org/protobuf/proto"
	"google.golang.org/protobuf/reflect/protoreflect"
)

func init() {
	lib.RegisterSentinels(
		lib.ErrSentinel{Err: patch.ErrNotImplemented, Class: "NotImplemented"},
		lib.ErrSentinel{Err: patch.ErrInvalidInput, Class: "InvalidInput"},
		lib.ErrSentinel{Err: patch.ErrInvalidEnum, Class: "InvalidEnum"},
		lib.ErrSentinel{Err: patch.ErrInvalidField, Class: "InvalidField"},
		lib.ErrSentinel{Err: patch.ErrInvalidUnsignedInt, Class: "InvalidUnsignedInt"},
		lib.ErrSentinel{Err: patch.ErrNotSingleton, Class: "NotSingleton"},
		lib.ErrSentinel{Err: patch.ErrNotPatchable, Class: "NotPatchable"},
	)
}

// buildValue concretises a value argument. The returned info describes the
// value as the harness built it (type, content hash, primitive value).
func buildValue(pool *Pool, v ValSpec) (fhir.Base, *lib.Node, error) {
	switch v.Src {
	case "nil":
		return nil, nil, nil
	case "donor":
		a, ok := pool.Ann[v.Res]
		if !ok {
			return nil, nil, fmt.Errorf("donor resource %q unknown", v.Res)
		}
		n := a.NodeAt(v.Addr)
		m := nodeMessage(n)
		if m == nil {
			return nil, nil, fmt.Errorf("donor %s%v has no message", v.Res, v.Addr)
		}
		c := proto.Clone(m)
		b, ok := c.(fhir.Base)
		if !ok {
			return nil, nil, fmt.Errorf("donor %T is not a fhir.Base", c)
		}
		return b, n, nil
	case "mk":
		switch v.Mk {
		case "String":
			return &dtpb.String{Value: v.S}, nil, nil
		case "Code":
			return &dtpb.Code{Value: v.S}, nil, nil
		case "Id":
			return &dtpb.Id{Value: v.S}, nil, nil
		case "Uri":
			return &dtpb.Uri{Value: v.S}, nil, nil
		case "Markdown":
			return &dtpb.Markdown{Value: v.S}, nil, nil
		case "Decimal":
			return &dtpb.Decimal{Value: v.S}, nil, nil
		case "Integer":
			return &dtpb.Integer{Value: int32(v.I)}, nil, nil
		case "PositiveInt":
			return &dtpb.PositiveInt{Value: uint32(v.I)}, nil, nil
		case "UnsignedInt":
			return &dtpb.UnsignedInt{Value: uint32(v.I)}, nil, nil
		case "Boolean":
			return &dtpb.Boolean{Value: v.B}, nil, nil
		}
		return nil, nil, fmt.Errorf("cannot make a %q", v.Mk)
	}
	return nil, nil, fmt.Errorf("bad value source %q", v.Src)
}

// presence renders the presence bits of a message (which fields are set, list
// lengths, recursively) - the part of the state proto.Equal may not see.
func presence(m protoreflect.Message, b *strings.Builder) {
	if !m.IsValid() {
		b.WriteString("!")
		return
	}
	fs := m.Descriptor().Fields()
	b.WriteByte('{')
	for i := 0; i < fs.Len(); i++ {
		f := fs.Get(i)
		if !m.Has(f) {
			continue
		}
		fmt.Fprintf(b, "%d", f.Number())
		switch {
		case f.IsList():
			l := m.Get(f).List()
			fmt.Fprintf(b, "[%d", l.Len())
			if f.Message() != nil {
				for j := 0; j < l.Len(); j++ {
					presence(l.Get(j).Message(), b)
				}
			}
			b.WriteByte(']')
		case f.IsMap():
			fmt.Fprintf(b, "m%d", m.Get(f).Map().Len())
		case f.Message() != nil:
			presence(m.Get(f).Message(), b)
		}
		b.WriteByte(',')
	}
	if len(m.GetUnknown()) > 0 {
		fmt.Fprintf(b, "u%d", len(m.GetUnknown()))
	}
	b.WriteByte('}')
}

// sharedPointers counts the message objects that are reachable more than once
// inside m (the same pointer stored at two places). The annotated tree is an
// abstraction of a tree-shaped object graph only; a shared sub-object means a
// later patch of one element changes another.
func sharedPointers(m proto.Message) (int, map[proto.Message]int) {
	seen := map[proto.Message]int{}
	var rec func(x protoreflect.Message)
	rec = func(x protoreflect.Message) {
		if !x.IsValid() {
			return
		}
		seen[x.Interface()]++
		if seen[x.Interface()] > 1 {
			return
		}
		fs := x.Descriptor().Fields()
		for i := 0; i < fs.Len(); i++ {
			f := fs.Get(i)
			if f.Message() == nil || f.IsMap() || !x.Has(f) {
				continue
			}
			if f.IsList() {
				l := x.Get(f).List()
				for j := 0; j < l.Len(); j++ {
					rec(l.Get(j).Message())
				}
				continue
			}
			rec(x.Get(f).Message())
		}
	}
	rec(m.ProtoReflect())
	n := 0
	for _, c := range seen {
		if c > 1 {
			n++
		}
	}
	return n, seen
}

// retained keeps the final resources of the most recent behaviours of this
// process alive (so their addresses cannot be reused) together with the set of
// their message objects. A resource under patch must not contain any of them:
// every resource is parsed afresh and every value is a fresh clone, so a hit
// means the implementation handed one object to two resources.
var retained struct {
	sync.RWMutex
	ring [64]struct {
		res  proto.Message
		ptrs map[proto.Message]int
	}
	next int
	all  map[proto.Message]int
}

func retain(res proto.Message) {
	_, ptrs := sharedPointers(res)
	retained.Lock()
	defer retained.Unlock()
	if retained.all == nil {
		retained.all = map[proto.Message]int{}
	}
	slot := &retained.ring[retained.next%len(retained.ring)]
	for p := range slot.ptrs {
		if retained.all[p]--; retained.all[p] <= 0 {
			delete(retained.all, p)
		}
	}
	slot.res, slot.ptrs = res, ptrs
	for p := range ptrs {
		retained.all[p]++
	}
	retained.next++
}

func sharedWithRetained(ptrs map[proto.Message]int) int {
	retained.RLock()
	defer retained.RUnlock()
	n := 0
	for p := range ptrs {
		if retained.all[p] > 0 {
			n++
		}
	}
	return n
}

func presenceOf(m proto.Message) string {
	var b strings.Builder
	presence(m.ProtoReflect(), &b)
	return b.String()
}

func detBytes(m proto.Message) []byte {
	b, err := proto.MarshalOptions{Deterministic: true}.Marshal(m)
	if err != nil {
		return []byte("marshal-error:" + err.Error())
	}
	return b
}

type snapshot struct {
	clone proto.Message
	det   []byte
	pres  string
}

func snap(m proto.Message) snapshot {
	return snapshot{clone: proto.Clone(m), det: detBytes(m), pres: presenceOf(m)}
}

func (s snapshot) same(m proto.Message) (eq, det, has bool) {
	return proto.Equal(s.clone, m), bytes.Equal(s.det, detBytes(m)), s.pres == presenceOf(m)
}

// prune renders the post-tree, replacing every subtree whose content hash and
// type equal those of a subtree of the previous tree (st=1, a = its address
// there) or of the donor subtree (st=2, a = address relative to the donor) by a
// stub. This is compression only: the judge verifies every stub against the
// tree it reconstructs.
func prune(n *lib.Node, pre *lib.Annotated, preIdx map[string][]int, donor *lib.Node, donIdx map[string][]int) map[string]any {
	key := n.H + "|" + n.Pn
	stub := func(st int, a []int) map[string]any {
		return map[string]any{"st": st, "n": n.N, "jn": n.JN, "li": n.Li, "cx": n.Ch, "pn": n.Pn, "h": n.H, "a": append([]int{}, a...)}
	}
	if n.H != "marshal-error" {
		if p := pre.NodeAt(n.Addr); p != nil && p.H+"|"+p.Pn == key {
			return stub(1, n.Addr)
		}
		if a, ok := preIdx[key]; ok {
			return stub(1, a)
		}
		if a, ok := donIdx[key]; ok {
			return stub(2, a)
		}
	}
	kids := make([]any, 0, len(n.Kids))
	for _, c := range n.Kids {
		kids = append(kids, prune(c, pre, preIdx, donor, donIdx))
	}
	return map[string]any{"st": 0, "n": n.N, "jn": n.JN, "ty": n.Ty, "k": n.K, "pn": n.Pn, "li": n.Li, "cx": n.Ch, "v": n.V, "h": n.H, "ch": kids}
}

func hashIndex(root *lib.Node, rel int) map[string][]int {
	idx := map[string][]int{}
	if root == nil {
		return idx
	}
	walk(root, func(n *lib.Node) {
		k := n.H + "|" + n.Pn
		if _, ok := idx[k]; !ok {
			idx[k] = append([]int{}, n.Addr[rel:]...)
		}
	})
	return idx
}

func valInfo(v ValSpec, val fhir.Base) map[string]any {
	info := map[string]any{"src": v.Src, "res": v.Res, "addr": v.Addr, "mk": v.Mk, "s": v.S, "i": v.I, "b": v.B,
		"nil": val == nil, "pn": "", "ty": "", "k": "", "h": "", "v": lib.Item{"t": "none"}}
	if v.Addr == nil {
		info["addr"] = []int{}
	}
	if val != nil {
		it := (&lib.Forest{}).ProjectItem(val)
		info["pn"], info["ty"], info["k"], info["h"] = it["pn"], it["ft"], it["fk"], it["h"]
		if pv, ok := it["v"]; ok {
			info["v"] = pv
		}
	}
	return info
}

// runBehaviour executes one behaviour on a fresh copy of its resource.
func runBehaviour(pool *Pool, b Behaviour) map[string]any {
	res := pool.Fresh(b.Res)
	// the annotated tree is a function of the message content: the fresh copy has
	// the pristine tree when its content hash is the pristine one
	cur := pool.Ann[b.Res]
	if lib.HashMsg(res) != cur.Root.H {
		lib.Fatal("resource %s: fresh copy differs from the pristine tree", b.Res)
	}
	curIdx := pool.hashIdx(b.Res)
	steps := make([]any, 0, len(b.Steps))
	for si, st := range b.Steps {
		rec := map[string]any{"op": st.Op, "path": st.Path, "text": st.Text, "name": st.Name, "index": st.Index, "nilres": st.NilRes, "form": st.Form, "vlabel": st.VLabel}
		val, donor, err := buildValue(pool, st.Val)
		if err != nil {
			lib.Fatal("behaviour %s step %d: %v", b.ID, si+1, err)
		}
		rec["val"] = valInfo(st.Val, val)
		before := snap(res)
		var vbefore snapshot
		if val != nil {
			vbefore = snap(val)
		}
		var target fhir.Resource
		if !st.NilRes {
			target = res.(fhir.Resource)
		}
		var out lib.Outcome
		viaExpr := (si+len(st.Text))%2 == 0
		call := func() {
			out = nil
			var err error
			stage := "op"
			if viaExpr {
				var e *patch.Expression
				e, err = patch.Compile(st.Text)
				if err != nil {
					stage = "compile"
				} else {
					switch st.Op {
					case "add":
						err = e.Add(target, st.Name, val)
					case "insert":
						err = e.Insert(target, val, st.Index)
					case "delete":
						err = e.Delete(target)
					case "replace":
						err = e.Replace(target, val)
					case "move":
						err = e.Move(target, st.Index, 0)
					}
				}
			} else {
				switch st.Op {
				case "add":
					err = patch.Add(target, st.Text, st.Name, val, &patch.Options{})
				case "insert":
					err = patch.Insert(target, st.Text, val, st.Index)
				case "delete":
					err = patch.Delete(target, st.Text)
				case "replace":
					err = patch.Replace(target, st.Text, val)
				case "move":
					err = patch.Move(target, st.Text, st.Index, 0)
				}
			}
			if err != nil {
				out = lib.ErrOutcome("err", err)
				out["stage"] = stage
			} else {
				out = lib.Outcome{"k": "ok", "cls": []string{}, "msg": "", "stage": stage}
			}
			out["site"] = ""
		}
		rep := lib.Safe(lib.DefaultDeadline, call)
		switch {
		case rep.Timeout:
			out = lib.Outcome{"k": "timeout", "cls": []string{}, "msg": "", "stage": "op", "site": ""}
		case rep.Panic != "":
			out = lib.Outcome{"k": "panic", "cls": []string{}, "msg": rep.Panic, "stage": "op", "site": rep.Stack}
		}
		rec["out"] = out
		rec["api"] = map[bool]string{true: "expr", false: "func"}[viaExpr]
		eq, det, has := before.same(res)
		rec["eq"], rec["det"], rec["has"] = eq, det, has
		rec["veq"], rec["vdet"], rec["vhas"] = true, true, true
		rec["dup"], rec["xdup"] = 0, 0
		if !rep.Timeout && (out["k"] == "ok" || !eq || !det || !has) {
			d, ptrs := sharedPointers(res)
			rec["dup"], rec["xdup"] = d, sharedWithRetained(ptrs)
		}
		if rec["dup"] != 0 || rec["xdup"] != 0 {
			// not a tree of its own objects any more: the tree abstraction (and any
			// later step) is meaningless; the judge rejects this step
			rec["post"] = map[string]any{"st": 1, "n": cur.Root.N, "jn": cur.Root.JN, "li": false, "cx": false, "pn": cur.Root.Pn, "h": cur.Root.H, "a": []int{}}
			rec["posterr"] = ""
			steps = append(steps, rec)
			break
		}
		if val != nil {
			rec["veq"], rec["vdet"], rec["vhas"] = vbefore.same(val)
		}
		if rep.Timeout {
			// the call may still be running on the resource: stop here
			rec["post"] = map[string]any{"st": 1, "n": cur.Root.N, "jn": cur.Root.JN, "li": false, "cx": false, "pn": cur.Root.Pn, "h": cur.Root.H, "a": []int{}}
			rec["posterr"] = "timeout"
			steps = append(steps, rec)
			break
		}
		if eq && det && has {
			// content, bytes and presence bits unchanged: the tree is the previous tree
			rec["post"] = map[string]any{"st": 1, "n": cur.Root.N, "jn": cur.Root.JN, "li": false, "cx": false, "pn": cur.Root.Pn, "h": cur.Root.H, "a": []int{}}
			rec["posterr"] = ""
			steps = append(steps, rec)
			continue
		}
		post, err := lib.Annotate(res)
		if err != nil {
			rec["post"] = map[string]any{"st": 1, "n": cur.Root.N, "jn": cur.Root.JN, "li": false, "cx": false, "pn": cur.Root.Pn, "h": cur.Root.H, "a": []int{}}
			rec["posterr"] = lib.Ascii(err.Error())
			if len(rec["posterr"].(string)) > 200 {
				rec["posterr"] = rec["posterr"].(string)[:200]
			}
			steps = append(steps, rec)
			break // the resource can no longer be rendered: later steps have no pre-state
		}
		rel := 0
		if donor != nil {
			rel = len(donor.Addr)
		}
		rec["post"] = prune(post.Root, cur, curIdx, donor, hashIndex(donor, rel))
		rec["posterr"] = ""
		steps = append(steps, rec)
		cur = post
		curIdx = hashIndex(cur.Root, 0)
	}
	retain(res)
	return map[string]any{"id": b.ID, "res": b.Res, "src": b.Src, "steps": steps}
}

func cmdRun(outdir, casesPath, obsPath string) {
	pool := loadPool()
	var cases []Behaviour
	read := func(path string) {
		if err := lib.ReadNDJSON(path, func(line []byte) error {
			var b Behaviour
			if err := json.Unmarshal(line, &b); err != nil {
				return err
			}
			cases = append(cases, b)
			return nil
		}); err != nil {
			lib.Fatal("%v", err)
		}
	}
	read(filepath.Join(outdir, "enum.ndjson"))
	if casesPath != "-" {
		read(casesPath)
	}
	lines := make([][]byte, len(cases))
	lib.ParallelMap(len(cases), runtime.NumCPU(), func(i int) {
		b, err := json.Marshal(runBehaviour(pool, cases[i]))
		if err != nil {
			lib.Fatal("%v", err)
		}
		lines[i] = b
	})
	f, err := os.Create(obsPath)
	if err != nil {
		lib.Fatal("%v", err)
	}
	bw := bufio.NewWriterSize(f, 1<<20)
	for _, l := range lines {
		bw.Write(l)
		bw.WriteByte('\n')
	}
	if err := bw.Flush(); err != nil {
		lib.Fatal("%v", err)
	}
	if err := f.Close(); err != nil {
		lib.Fatal("%v", err)
	}
}
