// Command c18 is the conformance harness of property C18 (FHIRPatch
// operations change exactly the targeted element, or nothing).
//
//	c18 gen  <outdir>                      trees.ndjson, schema.json, enum.ndjson (cases enumerated from the model resources)
//	c18 run  <outdir> <cases.ndjson> <obs.ndjson>
//
// Nothing here decides whether an observation is right: the harness builds
// inputs, calls the real patch API under recover + deadline, and describes the
// resource before and after each call (annotated FHIR JSON tree, pruned to the
// part that is not identical - by content hash - to a subtree of the previous
// tree or of the value). The TLA+ judge (spec/C18_Judge.tla) computes the
// expected tree and the verdict.
package main

import (
	"os"

	"github.com/verily-src/fhirpath-go/fhirpath/zzverif/lib"
)

// Resources the harness works with. M0 is the small model resource TLC
// explores exhaustively, M1 its donor, M2 a Questionnaire (the rare plain
// `integer` element), M3 a HealthcareService (a repeated value-set bound code);
// MR1..MR4 are the shared model
// resources; D1, D2 hold donor elements of every type occurring in them.
var resourceFiles = []struct{ Name, File string }{
	{"M0", "C18_M0"}, {"M1", "C18_M1"}, {"M2", "C18_M2"}, {"M3", "C18_M3"},
	{"MR1", "MR1"}, {"MR2", "MR2"}, {"MR3", "MR3"}, {"MR4", "MR4"},
	{"D1", "C18_D1"}, {"D2", "C18_D2"},
}

func main() {
	if len(os.Args) < 3 {
		lib.Fatal("usage: c18 gen <outdir> | c18 run <outdir> <cases> <obs>")
	}
	switch os.Args[1] {
	case "gen":
		cmdGen(os.Args[2])
	case "run":
		if len(os.Args) != 5 {
			lib.Fatal("usage: c18 run <outdir> <cases.ndjson> <obs.ndjson>")
		}
		cmdRun(os.Args[2], os.Args[3], os.Args[4])
	default:
		lib.Fatal("unknown subcommand %q", os.Args[1])
	}
}
