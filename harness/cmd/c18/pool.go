package main

import (
	"os"
	"path/filepath"
	"sort"
	"strings"
	"sync"
	"unicode"

	apb "github.com/google/fhir/go/proto/google/fhir/proto/annotations_go_proto"
	dtpb "github.com/google/fhir/go/proto/google/fhir/proto/r4/core/datatypes_go_proto"
	bcrpb "github.com/google/fhir/go/proto/google/fhir/proto/r4/core/resources/bundle_and_contained_resource_go_proto"
	"github.com/verily-src/fhirpath-go/fhirpath/zzverif/lib"
	"google.golang.org/protobuf/proto"
	"google.golang.org/protobuf/reflect/protoreflect"
	"google.golang.org/protobuf/reflect/protoregistry"
	"google.golang.org/protobuf/types/known/anypb"
)

// Pool holds the pristine model resources (as JSON, re-parsed for every
// behaviour) and their annotated trees (static: donors are always taken from
// the pristine trees).
type Pool struct {
	idxMu sync.Mutex
	idx   map[string]map[string][]int
	Names []string
	file  map[string]string // resource name -> spec/data file name (the model resources' corrections go by file name)
	JSON  map[string][]byte
	Ann   map[string]*lib.Annotated
	Msg   map[string]proto.Message
}

func loadPool() *Pool {
	p := &Pool{file: map[string]string{}, JSON: map[string][]byte{}, Ann: map[string]*lib.Annotated{}, Msg: map[string]proto.Message{}}
	for _, rf := range resourceFiles {
		js, err := os.ReadFile(filepath.Join(lib.SpecDir(), "data", rf.File+".json"))
		if err != nil {
			lib.Fatal("resource %s: %v", rf.Name, err)
		}
		m, err := lib.ParseResource(js)
		if err != nil {
			lib.Fatal("resource %s: %v", rf.Name, err)
		}
		m = lib.FixModelResource(rf.File, m)
		a, err := lib.Annotate(m)
		if err != nil {
			lib.Fatal("resource %s: %v", rf.Name, err)
		}
		p.Names = append(p.Names, rf.Name)
		p.file[rf.Name] = rf.File
		p.JSON[rf.Name] = js
		p.Ann[rf.Name] = a
		p.Msg[rf.Name] = m
	}
	return p
}

// hashIdx is the (content hash, type) -> address index of a pristine tree.
func (p *Pool) hashIdx(name string) map[string][]int {
	p.idxMu.Lock()
	defer p.idxMu.Unlock()
	if p.idx == nil {
		p.idx = map[string]map[string][]int{}
	}
	if m, ok := p.idx[name]; ok {
		return m
	}
	m := hashIndex(p.Ann[name].Root, 0)
	p.idx[name] = m
	return m
}

// Fresh parses a new copy of a model resource.
func (p *Pool) Fresh(name string) proto.Message {
	js, ok := p.JSON[name]
	if !ok {
		lib.Fatal("unknown resource %q", name)
	}
	m, err := lib.ParseResource(js)
	if err != nil {
		lib.Fatal("resource %s: %v", name, err)
	}
	return lib.FixModelResource(p.file[name], m)
}

// nodeMessage returns the proto message a node of a pristine tree stands for
// (nil when it cannot be recovered: elements inside a contained Any).
func nodeMessage(n *lib.Node) proto.Message {
	if n == nil {
		return nil
	}
	if n.Ptr != nil {
		return n.Ptr
	}
	if a, ok := n.Wrap.(*anypb.Any); ok {
		cr := &bcrpb.ContainedResource{}
		if err := a.UnmarshalTo(cr); err != nil {
			return nil
		}
		return lib.UnwrapContained(cr)
	}
	return nil
}

// walk visits every node in document order.
func walk(n *lib.Node, fn func(*lib.Node)) {
	fn(n)
	for _, c := range n.Kids {
		walk(c, fn)
	}
}

// ---------------------------------------------------------------- schema

// Alt is one type an element may have at a field.
type Alt struct {
	Pn    string   `json:"pn"`
	Jn    string   `json:"jn"`
	Ty    string   `json:"ty"`
	K     string   `json:"k"`
	Codes []string `json:"codes"`
}

// Field is one element of a FHIR type, read from the google/fhir descriptors.
type Field struct {
	N      string `json:"n"`
	List   bool   `json:"list"`
	Choice bool   `json:"choice"`
	AnyRes bool   `json:"anyres"`
	Alts   []Alt  `json:"alts"`
}

func isChoiceDesc(d protoreflect.MessageDescriptor) bool {
	return proto.HasExtension(d.Options(), apb.E_IsChoiceType) && proto.GetExtension(d.Options(), apb.E_IsChoiceType).(bool)
}

func camelToSnake(s string) string {
	var b strings.Builder
	for i, r := range s {
		if unicode.IsUpper(r) {
			if i > 0 {
				b.WriteByte('_')
			}
			b.WriteRune(unicode.ToLower(r))
		} else {
			b.WriteRune(r)
		}
	}
	return b.String()
}

func snakeToLowerCamel(s string) string {
	parts := strings.Split(s, "_")
	for i := 1; i < len(parts); i++ {
		if parts[i] != "" {
			r := []rune(parts[i])
			r[0] = unicode.ToUpper(r[0])
			parts[i] = string(r)
		}
	}
	return strings.Join(parts, "")
}

// codesOf lists the codes of a value-set bound code type.
func codesOf(d protoreflect.MessageDescriptor) []string {
	out := []string{}
	vf := d.Fields().ByName("value")
	if vf == nil || vf.Kind() != protoreflect.EnumKind {
		return out
	}
	vals := vf.Enum().Values()
	for i := 0; i < vals.Len(); i++ {
		ev := vals.Get(i)
		if ev.Number() == 0 {
			continue
		}
		code := strings.ReplaceAll(strings.ToLower(string(ev.Name())), "_", "-")
		if proto.HasExtension(ev.Options(), apb.E_FhirOriginalCode) {
			code = proto.GetExtension(ev.Options(), apb.E_FhirOriginalCode).(string)
		}
		out = append(out, code)
	}
	return out
}

func altOf(d protoreflect.MessageDescriptor, jn string) Alt {
	ty, k := lib.FHIRTypeOf(d)
	return Alt{Pn: lib.ProtoName(d), Jn: jn, Ty: ty, K: k, Codes: codesOf(d)}
}

func fieldsOf(d protoreflect.MessageDescriptor) []Field {
	out := []Field{}
	isRef := d.FullName() == (&dtpb.Reference{}).ProtoReflect().Descriptor().FullName()
	fs := d.Fields()
	refDone := false
	for i := 0; i < fs.Len(); i++ {
		f := fs.Get(i)
		fm := f.Message()
		if fm == nil {
			continue
		}
		if isRef && f.ContainingOneof() != nil {
			if !refDone {
				refDone = true
				out = append(out, Field{N: "reference", Alts: []Alt{{Pn: "String", Jn: "reference", Ty: "string", K: "prim", Codes: []string{}}}})
			}
			continue
		}
		fld := Field{N: f.JSONName(), List: f.IsList(), Alts: []Alt{}}
		switch {
		case isChoiceDesc(fm):
			fld.Choice = true
			od := fm.Oneofs().Get(0)
			for j := 0; j < od.Fields().Len(); j++ {
				fd := od.Fields().Get(j)
				if fd.Message() == nil {
					continue
				}
				jn := snakeToLowerCamel(string(f.Name()) + "_" + camelToSnake(fd.JSONName()))
				fld.Alts = append(fld.Alts, altOf(fd.Message(), jn))
			}
		case fm.Name() == "ContainedResource" || fm.FullName() == "google.protobuf.Any":
			fld.AnyRes = true
		default:
			fld.Alts = append(fld.Alts, altOf(fm, f.JSONName()))
		}
		out = append(out, fld)
	}
	return out
}

func descByPn(pn string) protoreflect.MessageDescriptor {
	mt, err := protoregistry.GlobalTypes.FindMessageByName(protoreflect.FullName("google.fhir.r4.core." + pn))
	if err != nil {
		return nil
	}
	return mt.Descriptor()
}

// buildSchema describes every type that occurs in the pool's trees.
func buildSchema(p *Pool) map[string][]Field {
	schema := map[string][]Field{}
	for _, name := range p.Names {
		walk(p.Ann[name].Root, func(n *lib.Node) {
			if _, ok := schema[n.Pn]; ok {
				return
			}
			d := descByPn(n.Pn)
			if d == nil {
				lib.Fatal("schema: no descriptor for %q", n.Pn)
			}
			schema[n.Pn] = fieldsOf(d)
		})
	}
	// close under the alternatives of every field: a patch can create elements of
	// types that occur in no pristine tree (a converted code, an added datatype)
	for changed := true; changed; {
		changed = false
		for _, pn := range sortedKeys(schema) {
			for _, f := range schema[pn] {
				for _, a := range f.Alts {
					if _, ok := schema[a.Pn]; ok {
						continue
					}
					if d := descByPn(a.Pn); d != nil {
						schema[a.Pn] = fieldsOf(d)
						changed = true
					}
				}
			}
		}
	}
	// self-check: every child in every tree is explained by the schema of its parent
	for _, name := range p.Names {
		walk(p.Ann[name].Root, func(n *lib.Node) {
			for _, c := range n.Kids {
				f := findField(schema, n.Pn, c.N)
				if f == nil {
					lib.Fatal("schema self-check: %s has no field %q (resource %s)", n.Pn, c.N, name)
				}
				if f.List != c.Li || f.Choice != c.Ch {
					lib.Fatal("schema self-check: %s.%s list/choice mismatch", n.Pn, c.N)
				}
				if f.AnyRes {
					if c.K != "resource" || c.JN != c.N {
						lib.Fatal("schema self-check: %s.%s resource slot mismatch", n.Pn, c.N)
					}
					continue
				}
				ok := false
				for _, a := range f.Alts {
					if a.Pn == c.Pn && a.Jn == c.JN && a.Ty == c.Ty && a.K == c.K {
						ok = true
					}
				}
				if !ok {
					lib.Fatal("schema self-check: %s.%s: node (%s,%s,%s,%s) matches no alternative %+v", n.Pn, c.N, c.Pn, c.JN, c.Ty, c.K, f.Alts)
				}
			}
		})
	}
	return schema
}

func findField(schema map[string][]Field, pn, n string) *Field {
	fs := schema[pn]
	for i := range fs {
		if fs[i].N == n {
			return &fs[i]
		}
	}
	return nil
}

// ---------------------------------------------------------------- donors

type donorRef struct {
	Res  string
	Node *lib.Node
}

// donorIndex lists, per proto type, the nodes of the pristine trees whose
// message can be cloned, donors first.
func donorIndex(p *Pool) map[string][]donorRef {
	order := []string{"D1", "D2", "M1", "MR4", "MR1", "MR2", "M2", "M3", "M0", "MR3"}
	idx := map[string][]donorRef{}
	for _, name := range order {
		a, ok := p.Ann[name]
		if !ok {
			continue
		}
		walk(a.Root, func(n *lib.Node) {
			if nodeMessage(n) == nil {
				return
			}
			idx[n.Pn] = append(idx[n.Pn], donorRef{name, n})
		})
	}
	return idx
}

func sortedKeys[V any](m map[string]V) []string {
	ks := make([]string, 0, len(m))
	for k := range m {
		ks = append(ks, k)
	}
	sort.Strings(ks)
	return ks
}
