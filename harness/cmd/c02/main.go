// Command c02: path navigation against the FHIR JSON tree.
//
//	c02 gen  trees.ndjson resources.ndjson     build populated resources (schema-driven) and their annotated trees
//	c02 run  resources.ndjson cases.ndjson obs.ndjson
package main

import (
	"encoding/json"
	"github.com/verily-src/fhirpath-go/fhirpath"
	"github.com/verily-src/fhirpath-go/fhirpath/evalopts"
	"math/rand"
	"os"
	"runtime"
	"sort"
	"strings"

	"github.com/verily-src/fhirpath-go/fhirpath/zzverif/lib"
	"google.golang.org/protobuf/proto"
	"google.golang.org/protobuf/reflect/protoreflect"
)

type resRec struct {
	ID   string          `json:"id"`
	JSON json.RawMessage `json:"json"`
}

type caseRec struct {
	ID    string          `json:"id"`
	Ti    int             `json:"ti"`
	Kind  string          `json:"kind"`
	Steps json.RawMessage `json:"steps"`
	Text  string          `json:"text"`
	Raw   map[string]json.RawMessage
}

func main() {
	if len(os.Args) < 2 {
		lib.Fatal("usage: c02 gen|run ...")
	}
	switch os.Args[1] {
	case "gen":
		gen(os.Args[2], os.Args[3])
	case "run":
		run(os.Args[2], os.Args[3], os.Args[4])
	case "types":
		typeTable(os.Args[2])
	default:
		lib.Fatal("unknown subcommand")
	}
}

// gen: which types and instances depends on the tier and the seed.
//
//	quick    : Patient, Observation, Bundle, SubstancePolymer, StructureDefinition, MedicationRequest + 24 types rotating with the seed, instance = seed mod 3,
//	           plus the hand-written model resources MR1..MR3, MR5 and 6 randomly thinned instances
//	thorough : all 146 types (instance number rotating so that every choice alternative index occurs), MR1..MR3, MR5,
//	           and 40 randomly thinned instances
func gen(treesPath, resPath string) {
	seed := lib.Seed()
	rng := rand.New(rand.NewSource(seed))
	types := lib.ResourceTypes()
	type job struct {
		ty string
		o  lib.PopOptions
		id string
	}
	var jobs []job
	thorough := os.Getenv("VERIF_TIER") == "thorough"
	if thorough {
		for n, t := range types {
			jobs = append(jobs, job{t, lib.PopOptions{Inst: int(seed) + n%3, Contained: true}, ""})
		}
		for k := 0; k < 40; k++ {
			t := types[rng.Intn(len(types))]
			jobs = append(jobs, job{t, lib.PopOptions{Inst: rng.Intn(50), Contained: true, Rand: rand.New(rand.NewSource(rng.Int63())), KeepProb: 0.5}, ""})
		}
	} else {
		// always: the types whose components share a SHORT message name with a component of another kind (Timing.Repeat is
		// an Element, SubstancePolymer.Repeat a BackboneElement; ElementDefinition.Mapping / StructureDefinition.Mapping;
		// SubstanceAmount.ReferenceRange / Observation.ReferenceRange), so that both members of a pair are met in one process
		pick := map[string]bool{"Patient": true, "Observation": true, "Bundle": true, "SubstancePolymer": true, "StructureDefinition": true, "MedicationRequest": true}
		perm := rng.Perm(len(types))
		for _, i := range perm {
			if len(pick) >= 30 {
				break
			}
			pick[types[i]] = true
		}
		names := []string{}
		for t := range pick {
			names = append(names, t)
		}
		sort.Strings(names)
		for _, t := range names {
			jobs = append(jobs, job{t, lib.PopOptions{Inst: int(seed % 3), Contained: true}, ""})
		}
		for k := 0; k < 6; k++ {
			t := types[rng.Intn(len(types))]
			jobs = append(jobs, job{t, lib.PopOptions{Inst: rng.Intn(50), Contained: true, Rand: rand.New(rand.NewSource(rng.Int63())), KeepProb: 0.5}, ""})
		}
	}
	tw, err := lib.NewWriter(treesPath)
	if err != nil {
		lib.Fatal("%v", err)
	}
	rw, err := lib.NewWriter(resPath)
	if err != nil {
		lib.Fatal("%v", err)
	}
	emit := func(id string, res proto.Message) {
		an, err := lib.Annotate(res)
		if err != nil {
			lib.Fatal("annotate %s: %v", id, err)
		}
		if err := tw.Write(map[string]any{"id": id, "tree": an.Root, "sch": lib.SchemaOfTree(an.Root), "sel": selectNodes(an.Root)}); err != nil {
			lib.Fatal("%v", err)
		}
		if err := rw.Write(resRec{ID: id, JSON: an.JSON}); err != nil {
			lib.Fatal("%v", err)
		}
	}
	// MR5: a Bundle whose entries are resources of DIFFERENT types that share element names and backbone short names
	// (Patient.Contact / Organization.Contact): one evaluation walks both
	// MR7, MR8: Bundles of an Observation, a DeviceRequest and a PlanDefinition in two orders - one step (code, subject) meets a
	// plain element on one type and a choice element on another
	for _, m := range []string{"MR1", "MR2", "MR3", "MR5", "MR6", "MR7", "MR8"} {
		emit(m, lib.LoadModelResource(m))
	}
	for n, j := range jobs {
		res, js, err := lib.PopulatedResource(j.ty, j.o)
		if err != nil {
			lib.Fatal("generator: %v\n%.400s", err, js)
		}
		emit(j.ty+"#"+itoa(n), res)
	}
	if err := tw.Close(); err != nil {
		lib.Fatal("%v", err)
	}
	if err := rw.Close(); err != nil {
		lib.Fatal("%v", err)
	}
}

func itoa(n int) string {
	b, _ := json.Marshal(n)
	return string(b)
}

func run(resPath, casesPath, obsPath string) {
	var resources []proto.Message
	var forests []*lib.Forest
	if err := lib.ReadNDJSON(resPath, func(b []byte) error {
		var r resRec
		if err := json.Unmarshal(b, &r); err != nil {
			return err
		}
		res, err := lib.ParseResource(r.JSON)
		if err != nil {
			return err
		}
		res = lib.FixModelResource(r.ID, res) // the model resources' corrections (lib/model.go) do not survive the JSON round trip
		f, err := lib.NewForest(res)
		if err != nil {
			return err
		}
		resources = append(resources, res)
		forests = append(forests, f)
		return nil
	}); err != nil {
		lib.Fatal("%v", err)
	}
	var cases []caseRec
	if err := lib.ReadNDJSON(casesPath, func(b []byte) error {
		var c caseRec
		if err := json.Unmarshal(b, &c); err != nil {
			return err
		}
		if err := json.Unmarshal(b, &c.Raw); err != nil {
			return err
		}
		delete(c.Raw, "text")
		cases = append(cases, c)
		return nil
	}); err != nil {
		lib.Fatal("%v", err)
	}
	w, err := lib.NewWriter(obsPath)
	if err != nil {
		lib.Fatal("%v", err)
	}
	// C02_MUT=1: snapshot the resource around every evaluation (used by the C03 check, which runs sequentially so that
	// a report always belongs to its own evaluation)
	withMut := os.Getenv("C02_MUT") == "1"
	workers := runtime.NumCPU()
	if withMut {
		workers = 1
	}
	lib.ParallelMap(len(cases), workers, func(i int) {
		c := cases[i]
		if c.Ti < 1 || c.Ti > len(resources) {
			lib.Fatal("case %s: tree %d out of range", c.ID, c.Ti)
		}
		var snap *lib.Snapshot
		if withMut {
			snap = lib.TakeSnapshot([]proto.Message{resources[c.Ti-1]}, nil)
		}
		out := lib.EvalOutcome(forests[c.Ti-1], c.Text, lib.AsResources(resources[c.Ti-1]), nil, nil)
		if items, ok := out["items"].([]lib.Item); ok {
			for _, it := range items {
				// a string result may be the rendering of a date/time value: give the judge its parse
				tvs := []lib.Item{}
				if it["t"] == "s" {
					s := lib.FromCodePoints(it["cp"].([]int))
					for _, kind := range []string{"date", "dt", "time"} {
						if tv, err := lib.ParseTemporal(kind, s); err == nil {
							tvs = append(tvs, tv)
						}
					}
				}
				it["tvs"] = tvs
			}
		}
		rec := map[string]any{}
		for k, v := range c.Raw {
			rec[k] = v
		}
		rec["src"], rec["out"] = c.Text, out
		// the last element name in other letter cases (Name, NAME, birth_date, birthdate): a name that is not an element of
		// the type must fail, however close it is to one
		if c.Kind == "path" && !withMut {
			if vs := caseVariants(c.Text); len(vs) > 0 {
				list := []map[string]any{}
				for _, v := range vs {
					vo := lib.EvalOutcome(forests[c.Ti-1], v[1], lib.AsResources(resources[c.Ti-1]), nil, nil)
					list = append(list, map[string]any{"name": v[0], "src": v[1], "out": lib.Outcome{"k": vo["k"], "cls": clsOf(vo)}})
				}
				rec["variants"] = list
			}
		}
		// C12 element cases: the same type test on the element handed in as an environment variable - for a choice-typed
		// element the WRAPPER message itself (Observation_ValueX ...), which the operators must look through
		if env := envTypeTest(c, forests[c.Ti-1], resources[c.Ti-1]); env != nil {
			rec["envsrc"], rec["envout"] = env["src"], env["out"]
		}
		if snap != nil {
			rec["mut"] = snap.Report()
		}
		if err := w.Write(rec); err != nil {
			lib.Fatal("%v", err)
		}
	})
	if err := w.Close(); err != nil {
		lib.Fatal("%v", err)
	}
}

// selectNodes picks the nodes the type checks (C12) look at: the first node of
// every distinct message type, plus up to three nodes reached through a choice.
// This is input selection only; what is expected of them is decided by the specification.
func selectNodes(root *lib.Node) [][]int {
	out := [][]int{}
	seen := map[string]bool{}
	choices := 0
	var walk func(n *lib.Node)
	walk = func(n *lib.Node) {
		key := n.Pn + "|" + n.Ty
		if !seen[key] {
			seen[key] = true
			out = append(out, append([]int{}, n.Addr...))
		} else if n.Ch && choices < 3 {
			choices++
			out = append(out, append([]int{}, n.Addr...))
		}
		for _, c := range n.Kids {
			walk(c)
		}
	}
	walk(root)
	return out
}

// typeTable lists every top-level FHIR type reachable from the resources with its kind.
func typeTable(path string) {
	kinds := map[string]string{}
	for _, t := range lib.ResourceTypes() {
		var visit func(md protoreflect.MessageDescriptor)
		visit = func(md protoreflect.MessageDescriptor) {
			ty, k := lib.FHIRTypeOf(md)
			_, nested := md.Parent().(protoreflect.MessageDescriptor)
			if !nested && (k == "resource" || k == "complex" || k == "prim") && md.Name() != "ContainedResource" && md.Name() != "ReferenceId" {
				if _, ok := kinds[ty]; ok {
					return
				}
				kinds[ty] = k
			} else if nested {
				key := "~" + lib.ProtoName(md)
				if _, ok := kinds[key]; ok {
					return
				}
				kinds[key] = "nested"
			}
			for i := 0; i < md.Fields().Len(); i++ {
				if m := md.Fields().Get(i).Message(); m != nil && m.FullName() != "google.protobuf.Any" {
					visit(m)
				}
			}
		}
		visit(lib.ResourceDescriptor(t))
	}
	out := map[string]string{}
	for k, v := range kinds {
		if v != "nested" {
			out[k] = v
		}
	}
	b, _ := json.Marshal(out)
	if err := os.WriteFile(path, b, 0o644); err != nil {
		lib.Fatal("%v", err)
	}
}

// envTypeTest evaluates "%x is|as T" for a C12 element case, with %x the proto message at the case's address (the
// choice wrapper when the node has one). nil when the record is not such a case.
func envTypeTest(c caseRec, f *lib.Forest, res proto.Message) map[string]any {
	raw, ok := c.Raw["cs"]
	if !ok {
		return nil
	}
	var cs struct {
		Kind string `json:"kind"`
		Addr []int  `json:"addr"`
		Op   string `json:"op"`
		Ns   string `json:"ns"`
		Name string `json:"name"`
	}
	if err := json.Unmarshal(raw, &cs); err != nil || cs.Kind != "el" || (cs.Op != "is" && cs.Op != "as") {
		return nil
	}
	n := f.Res[0].Root
	for _, k := range cs.Addr {
		if k < 1 || k > len(n.Kids) {
			return nil
		}
		n = n.Kids[k-1]
	}
	var m proto.Message = n.Ptr
	if n.Wrap != nil && n.K != "resource" {
		// (a resource inside a Bundle entry or `contained` sits in a ContainedResource message: not a choice wrapper
		// in the sense of the property; the resource itself is handed in)
		m = n.Wrap
	}
	if m == nil {
		return nil
	}
	ty := cs.Name
	if cs.Ns != "" {
		ty = cs.Ns + "." + cs.Name
	}
	src := "%x " + cs.Op + " " + ty
	out := lib.EvalOutcome(f, src, lib.AsResources(res), nil, []fhirpath.EvaluateOption{evalopts.EnvVariable("x", m)})
	return map[string]any{"src": src, "out": out}
}

func clsOf(o lib.Outcome) []string {
	if c, ok := o["cls"].([]string); ok {
		return c
	}
	return []string{}
}

// caseVariants returns [name, source] pairs in which the last element name of a dotted path is written in another
// letter case. Paths that do not end in a plain name (an indexer, a delimited identifier) have none.
func caseVariants(src string) [][2]string {
	i := strings.LastIndex(src, ".")
	if i < 0 || i+1 >= len(src) {
		return nil
	}
	name := src[i+1:]
	for _, r := range name {
		if !(r >= 'a' && r <= 'z' || r >= 'A' && r <= 'Z' || r >= '0' && r <= '9') {
			return nil
		}
	}
	seen := map[string]bool{name: true}
	var out [][2]string
	add := func(v string) {
		if v != "" && !seen[v] {
			seen[v] = true
			out = append(out, [2]string{v, src[:i+1] + v})
		}
	}
	add(strings.ToUpper(name[:1]) + name[1:])
	add(strings.ToUpper(name))
	add(strings.ToLower(name))
	snake := ""
	for k, r := range name {
		if r >= 'A' && r <= 'Z' && k > 0 {
			snake += "_"
		}
		snake += strings.ToLower(string(r))
	}
	if strings.Contains(snake, "_") {
		out = append(out, [2]string{snake, src[:i+1] + snake})
	}
	// spellings that name the PROTO field rather than the element: google/fhir renames elements that are reserved words
	// (class -> class_value, for -> for_value, assert -> assert_value) and lower-cases runs of capitals (carrierAIDC ->
	// carrier_aidc, requestURL -> request_url); the members of Reference's `reference` oneof are proto fields too
	add(name + "Value")
	decap := []rune(name)
	for k := 1; k < len(decap); k++ {
		if decap[k] >= 'A' && decap[k] <= 'Z' && decap[k-1] >= 'A' && decap[k-1] <= 'Z' {
			for q := k; q < len(decap) && decap[q] >= 'A' && decap[q] <= 'Z'; q++ {
				decap[q] = decap[q] - 'A' + 'a'
			}
		}
	}
	add(string(decap))
	if name == "reference" {
		for _, v := range []string{"uri", "fragment", "patientId", "organizationId", "practitionerId"} {
			add(v)
		}
	}
	return out
}
