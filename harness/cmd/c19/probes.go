package main

import (
	"encoding/json"
	"errors"
	"strings"

	dtpb "github.com/google/fhir/go/proto/google/fhir/proto/r4/core/datatypes_go_proto"
	bpb "github.com/google/fhir/go/proto/google/fhir/proto/r4/core/resources/basic_go_proto"
	bcrpb "github.com/google/fhir/go/proto/google/fhir/proto/r4/core/resources/bundle_and_contained_resource_go_proto"
	qpb "github.com/google/fhir/go/proto/google/fhir/proto/r4/core/resources/questionnaire_go_proto"
	"github.com/verily-src/fhirpath-go/fhirpath"
	"github.com/verily-src/fhirpath-go/fhirpath/system"
	"github.com/verily-src/fhirpath-go/fhirpath/zzverif/lib"
	"github.com/verily-src/fhirpath-go/internal/element/canonical"
	"github.com/verily-src/fhirpath-go/internal/element/reference"
	"github.com/verily-src/fhirpath-go/internal/fhir"
	"github.com/verily-src/fhirpath-go/internal/resource"
	"google.golang.org/protobuf/proto"
	"google.golang.org/protobuf/reflect/protoreflect"
)

var errNoIdentity = errors.New("resource has no identity")

// P is one projected probe result. Every probe kind has a fixed set of keys
// (TLC cannot read an absent record field).
type P = map[string]any

func msgOf(err error) string {
	s := err.Error()
	if len(s) > 160 {
		s = s[:160]
	}
	return lib.Ascii(s)
}

// guarded runs fn under recover + deadline; it returns "" or "panic"/"timeout".
func guarded(p P, fn func()) string {
	rep := lib.SafeRetry(fn)
	if rep.Timeout {
		p["k"] = "timeout"
		return "timeout"
	}
	if rep.Panic != "" {
		p["k"] = "panic"
		p["msg"] = rep.Panic
		p["site"] = rep.Stack
		return "panic"
	}
	return ""
}

// ------------------------------------------------------------------ PLit

func emptyLit(k string) P {
	return P{"k": k, "nforms": 0, "form": "none", "hasType": false, "type": "", "itype": "", "base": "", "rid": "", "ver": "",
		"frag": "", "uri": "", "str": "", "uriv": "", "prefer": "", "msg": "", "site": ""}
}

// runLit calls a function returning (*LiteralInfo, error) and projects the
// result through the exported accessors.
func runLit(fn func() (*reference.LiteralInfo, error)) (P, *reference.LiteralInfo) {
	p := emptyLit("ok")
	var lit *reference.LiteralInfo
	var err error
	if guarded(p, func() { lit, err = fn() }) != "" {
		return p, nil
	}
	if err != nil {
		p["k"] = "err"
		p["msg"] = msgOf(err)
		return p, nil
	}
	if lit == nil {
		p["k"] = "nilnil"
		return p, nil
	}
	if guarded(p, func() {
		n := 0
		form := "none"
		if u, ok := lit.NonRESTURI(); ok {
			n++
			form = "nonrest"
			p["uri"] = u
		}
		if f, ok := lit.FragmentID(); ok {
			n++
			form = "frag"
			p["frag"] = f
		}
		if id, ok := lit.Identity(); ok {
			n++
			form = "rest"
			p["itype"] = id.Type().String()
			p["rid"] = id.ID()
			v, _ := id.VersionID()
			p["ver"] = v
		}
		if t, ok := lit.Type(); ok {
			p["hasType"] = true
			p["type"] = t.String()
		}
		p["base"] = lit.ServiceBaseURL()
		p["nforms"] = n
		p["form"] = form
		p["str"] = lit.URIString()
		p["uriv"] = lit.URI().GetValue() // nil-safe getter: "" when URI() is nil
		p["prefer"] = lit.PreferRelativeVersionedURIString()
	}) != "" {
		return p, nil
	}
	return p, lit
}

func skipLit() P { return emptyLit("skip") }

// ------------------------------------------------------------------- PId

func emptyID(k string) P {
	return P{"k": k, "type": "", "rid": "", "ver": "", "str": "", "msg": "", "site": ""}
}

func runID(fn func() (*resource.Identity, error)) (P, *resource.Identity) {
	p := emptyID("ok")
	var id *resource.Identity
	var err error
	if guarded(p, func() { id, err = fn() }) != "" {
		return p, nil
	}
	if err != nil {
		p["k"] = "err"
		p["msg"] = msgOf(err)
		return p, nil
	}
	if id == nil {
		p["k"] = "nilnil"
		return p, nil
	}
	if guarded(p, func() {
		p["type"] = id.Type().String()
		p["rid"] = id.ID()
		v, _ := id.VersionID()
		p["ver"] = v
		p["str"] = id.String()
	}) != "" {
		return p, nil
	}
	return p, id
}

// runIDTwice parses text, and re-parses the String() of what came back.
func runIDTwice(text string, parse func(string) (*resource.Identity, error)) (P, P) {
	p1, id := runID(func() (*resource.Identity, error) { return parse(text) })
	if id == nil {
		return p1, emptyID("skip")
	}
	s := p1["str"].(string)
	p2, _ := runID(func() (*resource.Identity, error) { return parse(s) })
	return p1, p2
}

// ------------------------------------------------------------ PBool / PStr

func runBool(fn func() bool) P {
	p := P{"k": "ok", "b": false, "msg": "", "site": ""}
	var b bool
	if guarded(p, func() { b = fn() }) != "" {
		return p
	}
	p["b"] = b
	return p
}
func skipBool() P { return P{"k": "skip", "b": false, "msg": "", "site": ""} }
func skipStr() P  { return P{"k": "skip", "s": "", "msg": "", "site": ""} }

// ----------------------------------------------------------- references

// typedRef builds the typed (strong) reference of a REST identity through the
// exported constructors: Typed for an unversioned identity, NewIdentity +
// TypedFromIdentity for a versioned one.
func typedRef(typ, rid, ver string) (P, *dtpb.Reference) {
	p := P{"k": "ok", "type": "", "rid": "", "hist": "", "tfield": "", "msg": "", "site": ""}
	var ref *dtpb.Reference
	var err error
	if guarded(p, func() {
		if ver == "" {
			ref, err = reference.Typed(resource.Type(typ), rid)
			return
		}
		var id *resource.Identity
		id, err = resource.NewIdentity(typ, rid, ver)
		if err != nil {
			return
		}
		ref = reference.TypedFromIdentity(id)
	}) != "" {
		return p, nil
	}
	if err != nil {
		p["k"] = "err"
		p["msg"] = msgOf(err)
		return p, nil
	}
	if ref == nil {
		p["k"] = "nilnil"
		return p, nil
	}
	// projection by reflection on the oneof (independent of fhirpath-go)
	m := ref.ProtoReflect()
	fd := m.WhichOneof(m.Descriptor().Oneofs().ByName("reference"))
	if fd == nil {
		p["k"] = "err"
		p["msg"] = "no oneof member set"
		return p, nil
	}
	name := string(fd.Name())
	if rid, ok := m.Get(fd).Message().Interface().(*dtpb.ReferenceId); ok && strings.HasSuffix(name, "_id") {
		p["type"] = snakeToCamel(strings.TrimSuffix(name, "_id"))
		p["rid"] = rid.GetValue()
		p["hist"] = rid.GetHistory().GetValue()
	} else {
		p["k"] = "err"
		p["msg"] = "oneof member is " + name
		return p, nil
	}
	p["tfield"] = ref.GetType().GetValue()
	return p, ref
}

func snakeToCamel(s string) string {
	var b strings.Builder
	up := true
	for _, r := range s {
		if r == '_' {
			up = true
			continue
		}
		if up && r >= 'a' && r <= 'z' {
			r -= 32
		}
		up = false
		b.WriteRune(r)
	}
	return b.String()
}

func uriRef(text string) *dtpb.Reference {
	return &dtpb.Reference{Reference: &dtpb.Reference_Uri{Uri: &dtpb.String{Value: text}}}
}
func fragRef(typ, frag string) *dtpb.Reference {
	return &dtpb.Reference{Type: &dtpb.Uri{Value: typ}, Reference: &dtpb.Reference_Fragment{Fragment: &dtpb.String{Value: frag}}}
}

// --------------------------------------------------------------- read-back

var readBackExpr *fhirpath.Expression

func initReadBack() {
	e, err := fhirpath.Compile("Basic.subject.reference")
	if err != nil {
		lib.Fatal("compile read-back expression: %v", err)
	}
	readBackExpr = e
}

// readBack evaluates `Basic.subject.reference` on a Basic holding ref.
func readBack(ref *dtpb.Reference) P {
	if ref == nil {
		return skipStr()
	}
	res := &bpb.Basic{Subject: proto.Clone(ref).(*dtpb.Reference)}
	return readBackOf(res)
}

func readBackOf(res fhir.Resource) P {
	p := P{"k": "ok", "s": "", "msg": "", "site": ""}
	var out system.Collection
	var err error
	if guarded(p, func() { out, err = readBackExpr.Evaluate([]fhir.Resource{res}) }) != "" {
		return p
	}
	if err != nil {
		p["k"] = "err"
		p["msg"] = msgOf(err)
		return p
	}
	switch len(out) {
	case 0:
		p["k"] = "empty"
	case 1:
		switch v := out[0].(type) {
		case *dtpb.String:
			p["s"] = v.GetValue()
		case system.String:
			p["s"] = string(v)
		default:
			p["k"] = "nonstring"
		}
	default:
		p["k"] = "many"
	}
	return p
}

// readBackJSON parses {"resourceType":"Basic","subject":{"reference":text}}
// with jsonformat (the way a caller obtains resources) and reads it back.
func readBackJSON(text string) P {
	js, err := json.Marshal(map[string]any{"resourceType": "Basic", "subject": map[string]any{"reference": text}})
	if err != nil {
		return skipStr()
	}
	msg, err := lib.ParseResource(js)
	if err != nil {
		return skipStr()
	}
	res, ok := msg.(fhir.Resource)
	if !ok {
		return skipStr()
	}
	return readBackOf(res)
}

// ------------------------------------------------------------------ aspects

func aspLitParse(c *caseRec) map[string]any {
	p1, lit := runLit(func() (*reference.LiteralInfo, error) { return reference.LiteralInfoFromURI(c.Text) })
	p2 := skipLit()
	if lit != nil {
		s := p1["str"].(string)
		p2, _ = runLit(func() (*reference.LiteralInfo, error) { return reference.LiteralInfoFromURI(s) })
	}
	return map[string]any{"aspect": "litparse", "p1": p1, "p2": p2}
}

func aspIdentity(c *caseRec) map[string]any {
	n, id := runID(func() (*resource.Identity, error) { return resource.NewIdentity(c.Type, c.Rid, c.Ver) })
	for _, k := range []string{"relstr", "relver", "prefer", "unvers", "withver"} {
		n[k] = ""
	}
	for _, k := range []string{"relverok", "veridok", "equalSelf", "equalOther"} {
		n[k] = false
	}
	if id != nil {
		guarded(n, func() {
			n["relstr"] = id.RelativeURIString()
			rv, ok := id.RelativeVersionedURIString()
			n["relver"] = rv
			n["relverok"] = ok
			n["prefer"] = id.PreferRelativeVersionedURIString()
			_, vok := id.VersionID()
			n["veridok"] = vok
			n["unvers"] = id.Unversioned().String()
			n["withver"] = id.WithNewVersion("9").String()
			twin, err := resource.NewIdentity(c.Type, c.Rid, c.Ver)
			n["equalSelf"] = err == nil && id.Equal(twin) && twin.Equal(id) && id.Equal(id)
			n["equalOther"] = id.Equal(id.WithNewVersion("9")) || id.Equal(nil)
		})
	}
	fromURL, _ := runID(func() (*resource.Identity, error) { return resource.NewIdentityFromURL(c.Text) })
	fromHist, _ := runID(func() (*resource.Identity, error) { return resource.NewIdentityFromHistoryURL(c.Text) })
	return map[string]any{"aspect": "identity", "new": n, "fromURL": fromURL, "fromHist": fromHist}
}

func aspLitFmt(c *caseRec) map[string]any {
	sref, ref := typedRef(c.Type, c.Rid, c.Ver)
	lit, withBase := skipLit(), skipLit()
	if ref != nil {
		var l *reference.LiteralInfo
		lit, l = runLit(func() (*reference.LiteralInfo, error) { return reference.LiteralInfoOf(ref) })
		if l != nil {
			withBase, _ = runLit(func() (*reference.LiteralInfo, error) { return l.WithServiceBaseURL(c.Base) })
		}
	}
	return map[string]any{"aspect": "litfmt", "sref": sref, "lit": lit, "withBase": withBase}
}

func aspIdentURL(c *caseRec) map[string]any {
	url, url2 := runIDTwice(c.Text, reference.IdentityFromURL)
	// an Identity has no base URL, so IdentityFromAbsoluteURL has no format -> parse round trip
	abs, _ := runID(func() (*resource.Identity, error) { return reference.IdentityFromAbsoluteURL(c.Text) })
	abs2 := emptyID("skip")
	rel, rel2 := runIDTwice(c.Rel, reference.IdentityFromRelativeURI)
	// package resource: unanchored "…Type/id" and absolute "…/Type/id/_history/v" parsers
	rurl, rurl2 := runIDTwice(c.Text, resource.NewIdentityFromURL)
	rhist, _ := runID(func() (*resource.Identity, error) { return resource.NewIdentityFromHistoryURL(c.Text) })
	return map[string]any{"aspect": "identurl", "url": url, "url2": url2, "abs": abs, "abs2": abs2, "rel": rel, "rel2": rel2,
		"rurl": rurl, "rurl2": rurl2, "rhist": rhist}
}

func litOf(ref *dtpb.Reference) P {
	if ref == nil {
		return skipLit()
	}
	p, _ := runLit(func() (*reference.LiteralInfo, error) { return reference.LiteralInfoOf(ref) })
	return p
}
func idOf(ref *dtpb.Reference) P {
	if ref == nil {
		return emptyID("skip")
	}
	p, _ := runID(func() (*resource.Identity, error) { return reference.IdentityOf(ref) })
	return p
}
func isOf(a, b *dtpb.Reference) P {
	if a == nil || b == nil {
		return skipBool()
	}
	return runBool(func() bool { return reference.Is(a, b) })
}

func aspStrongWeak(c *caseRec) map[string]any {
	_, s := typedRef(c.Type, c.Rid, c.Ver)
	w := reference.Weak(resource.Type(c.Type), c.Rel)
	n := uriRef(c.Rel)
	var s2, w2 *dtpb.Reference
	if s != nil {
		s2 = proto.Clone(s).(*dtpb.Reference)
	}
	w2 = proto.Clone(w).(*dtpb.Reference)
	return map[string]any{"aspect": "strongweak",
		"slit": litOf(s), "wlit": litOf(w), "nlit": litOf(n),
		"sid": idOf(s), "wid": idOf(w),
		"isSW": isOf(s, w), "isWS": isOf(w, s), "isSS": isOf(s, s2), "isWW": isOf(w, w2), "isSN": isOf(s, n), "isNS": isOf(n, s),
		"isSD": isOf(s, displayOnly()), "isDS": isOf(displayOnly(), s)}
}

func aspReadBack(c *caseRec) map[string]any {
	fs, fr := skipStr(), skipStr()
	switch c.Kind {
	case "rest":
		_, s := typedRef(c.Type, c.Rid, c.Ver)
		fs = readBack(s)
		fr = readBack(reference.Weak(resource.Type(c.Type), c.Rel))
	case "frag":
		fs = readBack(fragRef(c.Type, c.Rid))
	}
	var w *dtpb.Reference
	if c.Kind == "empty" {
		w = uriRef(c.Text)
	} else {
		w = reference.Weak(resource.Type(c.Type), c.Text)
	}
	return map[string]any{"aspect": "readback", "fs": fs, "fw": readBack(w), "fr": fr, "fj": readBackJSON(c.Text)}
}

func aspFragRef(c *caseRec) map[string]any {
	f := fragRef(c.Type, c.Rid)
	u := reference.Weak(resource.Type(c.Type), c.Text)
	n := uriRef(c.Text)
	return map[string]any{"aspect": "fragref", "flit": litOf(f), "ulit": litOf(u), "nlit": litOf(n), "fid": idOf(f), "uid": idOf(u),
		"isFF": isOf(f, proto.Clone(f).(*dtpb.Reference)), "isUU": isOf(u, proto.Clone(u).(*dtpb.Reference)), "isFU": isOf(f, u), "isUF": isOf(u, f)}
}

func aspWeakRef(c *caseRec) map[string]any {
	var w *dtpb.Reference
	if c.Kind == "urn" {
		w = reference.Weak(resource.Type(c.Type), c.Text)
	} else {
		w = uriRef(c.Text)
	}
	return map[string]any{"aspect": "weakref", "wlit": litOf(w), "wid": idOf(w), "isWW": isOf(w, proto.Clone(w).(*dtpb.Reference)),
		"isWD": isOf(w, displayOnly()), "isDW": isOf(displayOnly(), w)}
}

// ----------------------------------------------------------------- canonical

func emptyCan(k string) P {
	return P{"k": k, "url": "", "ver": "", "frag": "", "str": "", "ctype": "", "ctypeok": false, "msg": "", "site": ""}
}

func runCan(fn func() (*resource.CanonicalIdentity, error)) (P, bool) {
	p := emptyCan("ok")
	var ci *resource.CanonicalIdentity
	var err error
	if guarded(p, func() { ci, err = fn() }) != "" {
		return p, false
	}
	if err != nil {
		p["k"] = "err"
		p["msg"] = msgOf(err)
		return p, false
	}
	if ci == nil {
		p["k"] = "nilnil"
		return p, false
	}
	if guarded(p, func() {
		p["url"] = ci.Url
		p["ver"] = ci.Version
		p["frag"] = ci.Fragment
		p["str"] = ci.String()
		t, ok := ci.Type()
		p["ctype"] = t.String()
		p["ctypeok"] = ok
	}) != "" {
		return p, false
	}
	return p, true
}

func aspCanon(c *caseRec) map[string]any {
	parsed, ok := runCan(func() (*resource.CanonicalIdentity, error) {
		return canonical.IdentityFromReference(&dtpb.Canonical{Value: c.Text})
	})
	reparsed := emptyCan("skip")
	if ok {
		s := parsed["str"].(string)
		reparsed, _ = runCan(func() (*resource.CanonicalIdentity, error) {
			return canonical.IdentityFromReference(&dtpb.Canonical{Value: s})
		})
	}
	made := skipStr()
	ctor := emptyCan("skip")
	if c.Kind == "canon" {
		// for a canonical case: base = url, ver = version, rid = fragment
		made = P{"k": "ok", "s": "", "msg": "", "site": ""}
		if guarded(made, func() {
			var opts []canonical.Option
			if c.Ver != "" {
				opts = append(opts, canonical.WithVersion(c.Ver))
			}
			if c.Rid != "" {
				opts = append(opts, canonical.WithFragment(c.Rid))
			}
			made["s"] = canonical.New(c.Base, opts...).GetValue()
		}) != "" {
			made["s"] = ""
		}
		ctor, _ = runCan(func() (*resource.CanonicalIdentity, error) {
			return resource.NewCanonicalIdentity(c.Base, c.Ver, c.Rid)
		})
	}
	fromRes, verRes, fragRes, idRes := skipStr(), skipStr(), skipStr(), emptyCan("skip")
	if c.Kind == "canon" {
		// a canonical resource carrying url, version and (as its id) the fragment
		q := &qpb.Questionnaire{Url: &dtpb.Uri{Value: c.Base}}
		if c.Ver != "" {
			q.Version = &dtpb.String{Value: c.Ver}
		}
		if c.Rid != "" {
			q.Id = &dtpb.Id{Value: c.Rid}
		}
		canStr := func(fn func(fhir.CanonicalResource) (*dtpb.Canonical, error)) P {
			p := P{"k": "ok", "s": "", "msg": "", "site": ""}
			var cv *dtpb.Canonical
			var err error
			if guarded(p, func() { cv, err = fn(q) }) != "" {
				return p
			}
			if err != nil {
				p["k"] = "err"
				p["msg"] = msgOf(err)
				return p
			}
			p["s"] = cv.GetValue()
			return p
		}
		fromRes = canStr(canonical.FromResource)
		verRes = canStr(canonical.VersionedFromResource)
		fragRes = canStr(canonical.FragmentFromResource)
		idRes, _ = runCan(func() (*resource.CanonicalIdentity, error) { return canonical.IdentityOf(q) })
	}
	return map[string]any{"aspect": "canon", "parsed": parsed, "reparsed": reparsed, "made": made, "ctor": ctor,
		"fromRes": fromRes, "verRes": verRes, "fragRes": fragRes, "idRes": idRes}
}

// ---------------------------------------------------------------------- pool

func buildPoolRef(d refDesc) *dtpb.Reference {
	var r *dtpb.Reference
	switch d.Shape {
	case "strong":
		_, r = typedRef(d.Type, d.Rid, d.Ver)
	case "weak":
		r = reference.Weak(resource.Type(d.Type), d.Text)
	case "weaknt":
		r = uriRef(d.Text)
	case "frag":
		r = fragRef(d.Type, d.Rid)
	case "none": // no literal part
		r = &dtpb.Reference{}
		if d.Type != "" {
			r.Type = &dtpb.Uri{Value: d.Type}
		}
	}
	if r == nil {
		return nil
	}
	if d.Ident != "" {
		r.Identifier = &dtpb.Identifier{System: &dtpb.Uri{Value: "urn:sys"}, Value: &dtpb.String{Value: d.Ident}}
	}
	if d.Disp != "" {
		r.Display = &dtpb.String{Value: d.Disp}
	}
	return r
}

// displayOnly is a reference without a literal part.
func displayOnly() *dtpb.Reference { return &dtpb.Reference{Display: &dtpb.String{Value: "Jane Doe"}} }

func aspIsRel(c *caseRec) map[string]any {
	refs := make([]*dtpb.Reference, len(c.Refs))
	for i, d := range c.Refs {
		refs[i] = buildPoolRef(d)
	}
	m := make([][]string, len(refs))
	for i := range refs {
		m[i] = make([]string, len(refs))
		for j := range refs {
			if refs[i] == nil || refs[j] == nil {
				m[i][j] = "X" // the reference could not be built
				continue
			}
			a, b := refs[i], refs[j]
			if i == j {
				b = proto.Clone(a).(*dtpb.Reference) // reflexivity on equal values, not on one pointer
			}
			p := runBool(func() bool { return reference.Is(a, b) })
			switch {
			case p["k"] != "ok":
				m[i][j] = "P"
			case p["b"].(bool):
				m[i][j] = "T"
			default:
				m[i][j] = "F"
			}
		}
	}
	return map[string]any{"aspect": "isrel", "m": m}
}

// ----------------------------------------------------------------------- raw

// aspRaw observes every parser on one string in one record.
func aspRaw(c *caseRec) map[string]any {
	rec := map[string]any{"aspect": "raw"}
	for _, part := range []map[string]any{aspLitParse(c), aspIdentURL(c), aspWeakRef(c), aspCanon(c)} {
		for k, v := range part {
			if k != "aspect" {
				rec[k] = v
			}
		}
	}
	rec["fw"] = readBack(uriRef(c.Text))
	rec["fj"] = readBackJSON(c.Text)
	return rec
}

// ------------------------------------------------------------------ fromres

// newResource builds an empty resource of the named R4 type with id and
// meta.versionId set, by reflection on the google/fhir descriptors only.
func newResource(typ, rid, ver string) fhir.Resource {
	cr := (&bcrpb.ContainedResource{}).ProtoReflect()
	oo := cr.Descriptor().Oneofs().Get(0)
	for i := 0; i < oo.Fields().Len(); i++ {
		fd := oo.Fields().Get(i)
		if string(fd.Message().Name()) != typ {
			continue
		}
		m := cr.NewField(fd).Message()
		idf := m.Descriptor().Fields().ByName("id")
		idm := m.Mutable(idf).Message()
		idm.Set(idm.Descriptor().Fields().ByName("value"), protoreflect.ValueOfString(rid))
		if ver != "" {
			mf := m.Descriptor().Fields().ByName("meta")
			meta := m.Mutable(mf).Message()
			vf := meta.Descriptor().Fields().ByName("version_id")
			vm := meta.Mutable(vf).Message()
			vm.Set(vm.Descriptor().Fields().ByName("value"), protoreflect.ValueOfString(ver))
		}
		res, ok := m.Interface().(fhir.Resource)
		if !ok {
			lib.Fatal("%s is not a fhir.Resource", typ)
		}
		return res
	}
	lib.Fatal("no resource type %s in ContainedResource", typ)
	return nil
}

func refProbe(fn func() (*dtpb.Reference, error)) P {
	p := P{"k": "ok", "shape": "", "type": "", "rid": "", "hist": "", "uri": "", "tfield": "", "msg": "", "site": ""}
	var ref *dtpb.Reference
	var err error
	if guarded(p, func() { ref, err = fn() }) != "" {
		return p
	}
	if err != nil {
		p["k"] = "err"
		p["msg"] = msgOf(err)
		return p
	}
	if ref == nil {
		p["k"] = "nilnil"
		return p
	}
	p["tfield"] = ref.GetType().GetValue()
	m := ref.ProtoReflect()
	fd := m.WhichOneof(m.Descriptor().Oneofs().ByName("reference"))
	switch {
	case fd == nil:
		p["shape"] = "none"
	case fd.Name() == "uri":
		p["shape"] = "uri"
		p["uri"] = ref.GetUri().GetValue()
	case fd.Name() == "fragment":
		p["shape"] = "fragment"
		p["uri"] = "#" + ref.GetFragment().GetValue()
	default:
		p["shape"] = "typed"
		if rid, ok := m.Get(fd).Message().Interface().(*dtpb.ReferenceId); ok {
			p["type"] = snakeToCamel(strings.TrimSuffix(string(fd.Name()), "_id"))
			p["rid"] = rid.GetValue()
			p["hist"] = rid.GetHistory().GetValue()
		}
	}
	return p
}

// aspFromRes: identities and references derived from a resource of the type.
func aspFromRes(c *caseRec) map[string]any {
	res := newResource(c.Type, c.Rid, c.Ver)
	ident, _ := runID(func() (*resource.Identity, error) {
		id, ok := resource.IdentityOf(res)
		if !ok {
			return nil, errNoIdentity
		}
		return id, nil
	})
	strs := P{"k": "ok", "uri": "", "vuri": "", "vok": false, "msg": "", "site": ""}
	guarded(strs, func() {
		strs["uri"] = resource.URIString(res)
		v, ok := resource.VersionedURIString(res)
		strs["vuri"] = v
		strs["vok"] = ok
	})
	typed := refProbe(func() (*dtpb.Reference, error) { return reference.TypedFromResource(res) })
	weakv := refProbe(func() (*dtpb.Reference, error) { return reference.WeakRelativeVersioned(res) })
	return map[string]any{"aspect": "fromres", "ident": ident, "strs": strs, "typed": typed, "weakv": weakv}
}
