// Command c19 exercises the reference / identity / canonical parsing and
// formatting functions of fhirpath-go for property C19.
//
//	c19 types out.tla                      write spec/gen/C19Types.tla (R4 resource list from google/fhir)
//	c19 run cases.ndjson obs.ndjson [rawN] replay TLC's cases; then rawN seeded byte-mutated neighbours
//
// Every case is observed through several "aspects" (one observation record
// each); the TLA+ judge (spec/C19_Judge.tla) decides. Nothing here decides
// whether an observation is right.
package main

import (
	"encoding/json"
	"fmt"
	"os"
	"runtime"
	"strconv"

	"github.com/verily-src/fhirpath-go/fhirpath/zzverif/lib"
)

type refDesc struct {
	Shape string `json:"shape"`
	Type  string `json:"type"`
	Rid   string `json:"rid"`
	Ver   string `json:"ver"`
	Text  string `json:"text"`
	Ident string `json:"ident"`
	Disp  string `json:"display"`
}

type caseRec struct {
	ID    string `json:"id"`
	Kind  string `json:"kind"`
	Type  string `json:"type"`
	Rid   string `json:"rid"`
	Ver   string `json:"ver"`
	Base  string `json:"base"`
	Ridc  string `json:"ridc"`
	Verc  string `json:"verc"`
	Basec string `json:"basec"`
	X     string `json:"x"`
	Den   struct {
		Text  string    `json:"text"`
		Rel   string    `json:"rel"`
		Valid bool      `json:"valid"`
		Refs  []refDesc `json:"refs"`
	} `json:"den"`
	// copied from Den (TLC-generated cases) or set directly (raw cases)
	Text  string    `json:"-"`
	Rel   string    `json:"-"`
	Valid bool      `json:"-"`
	Refs  []refDesc `json:"-"`
	ci    int
}

// echo is the part of a case every observation carries back to the judge.
func (c *caseRec) echo() map[string]any {
	return map[string]any{"id": c.ID, "kind": c.Kind, "type": c.Type, "rid": c.Rid, "ver": c.Ver, "base": c.Base,
		"ridc": c.Ridc, "verc": c.Verc, "basec": c.Basec, "x": c.X, "text": c.Text}
}

func main() {
	if len(os.Args) >= 3 && os.Args[1] == "types" {
		if err := writeTypesModule(os.Args[2]); err != nil {
			lib.Fatal("%v", err)
		}
		fmt.Println(len(r4ResourceTypes()))
		return
	}
	if len(os.Args) < 4 || os.Args[1] != "run" {
		lib.Fatal("usage: c19 types out.tla | c19 run cases.ndjson obs.ndjson [rawN]")
	}
	rawN := 0
	if len(os.Args) >= 5 {
		n, err := strconv.Atoi(os.Args[4])
		if err != nil {
			lib.Fatal("rawN: %v", err)
		}
		rawN = n
	}
	var cases []*caseRec
	if err := lib.ReadNDJSON(os.Args[2], func(b []byte) error {
		c := &caseRec{}
		if err := json.Unmarshal(b, c); err != nil {
			return err
		}
		c.Text, c.Rel, c.Valid, c.Refs = c.Den.Text, c.Den.Rel, c.Den.Valid, c.Den.Refs
		c.ci = len(cases) + 1
		cases = append(cases, c)
		return nil
	}); err != nil {
		lib.Fatal("%v", err)
	}
	// self-check of the independent resource list against the Reference datatype
	if err := selfCheckTypes(); err != nil {
		lib.Fatal("%v", err)
	}
	if rawN > 0 {
		cases = append(cases, rawCases(cases, rawN, lib.Seed())...)
	}
	w, err := lib.NewWriter(os.Args[3])
	if err != nil {
		lib.Fatal("%v", err)
	}
	initReadBack()
	lib.ParallelMap(len(cases), runtime.NumCPU(), func(i int) {
		c := cases[i]
		for _, rec := range observe(c) {
			compact(rec)
			rec["id"] = c.ID + "@" + rec["aspect"].(string)
			rec["cs"] = c.echo()
			rec["ci"] = c.ci
			if err := w.Write(rec); err != nil {
				lib.Fatal("%v", err)
			}
		}
	})
	if err := w.Close(); err != nil {
		lib.Fatal("%v", err)
	}
}

// observe runs every aspect of a case.
func observe(c *caseRec) []map[string]any {
	switch c.Kind {
	case "rest":
		recs := []map[string]any{aspIdentity(c), aspLitFmt(c), aspLitParse(c), aspIdentURL(c), aspReadBack(c)}
		if c.Base == "" { // strong vs weak does not involve the base URL
			recs = append(recs, aspStrongWeak(c), aspFromRes(c))
		}
		return recs
	case "frag":
		return []map[string]any{aspLitParse(c), aspIdentURL(c), aspFragRef(c), aspReadBack(c)}
	case "urn":
		return []map[string]any{aspLitParse(c), aspIdentURL(c), aspWeakRef(c), aspReadBack(c)}
	case "canon":
		return []map[string]any{aspCanon(c), aspLitParse(c)}
	case "empty":
		return []map[string]any{aspLitParse(c), aspIdentURL(c), aspCanon(c), aspWeakRef(c), aspReadBack(c)}
	case "pool":
		return []map[string]any{aspIsRel(c)}
	case "raw":
		return []map[string]any{aspRaw(c)}
	}
	lib.Fatal("unknown case kind %q", c.Kind)
	return nil
}

// compact drops what the judge never reads: a probe that did not return a
// value keeps only its kind (and where it failed); the message and site of a
// successful probe are empty anyway.
func compact(rec map[string]any) {
	for k, v := range rec {
		p, ok := v.(P)
		if !ok {
			continue
		}
		if p["k"] == "ok" {
			delete(p, "msg")
			delete(p, "site")
			continue
		}
		q := P{"k": p["k"]}
		if b, ok := p["b"]; ok {
			q["b"] = b
		}
		if m, _ := p["msg"].(string); m != "" {
			q["msg"] = m
		}
		if k := p["k"]; k == "panic" || k == "timeout" {
			q["site"], _ = p["site"].(string) // the judge names the site of a crash in the signature
		}
		rec[k] = q
	}
}
