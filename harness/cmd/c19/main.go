package main

import (
	"fmt"
	"os"

	"github.com/verily-src/fhirpath-go/fhirpath/zzverif/lib"
)

func main() {
	if len(os.Args) >= 3 && os.Args[1] == "types" {
		if err := writeTypesModule(os.Args[2]); err != nil {
			lib.Fatal("%v", err)
		}
		fmt.Println(len(r4ResourceTypes()), len(referenceOneofFields()))
		return
	}
	lib.Fatal("usage")
}

func init() {
	if len(os.Args) >= 2 && os.Args[1] == "fields" {
		for _, f := range referenceOneofFields() {
			fmt.Println(f)
		}
		os.Exit(0)
	}
}
