package main

import (
	"fmt"
	"math/rand"
	"strings"

	dtpb "github.com/google/fhir/go/proto/google/fhir/proto/r4/core/datatypes_go_proto"
)

// selfCheckTypes verifies that every name of the independently read resource
// list has its typed-reference member in the R4 Reference datatype (both from
// google/fhir descriptors). A failure is a machinery problem.
func selfCheckTypes() error {
	fields := (&dtpb.Reference{}).ProtoReflect().Descriptor().Fields()
	for _, t := range r4ResourceTypes() {
		if fields.ByName(protoName(camelToSnake(t)+"_id")) == nil {
			return fmt.Errorf("resource type %s has no Reference.%s_id member", t, camelToSnake(t))
		}
	}
	return nil
}

func camelToSnake(s string) string {
	var b strings.Builder
	for i, r := range s {
		if r >= 'A' && r <= 'Z' {
			if i > 0 {
				b.WriteByte('_')
			}
			r += 32
		}
		b.WriteRune(r)
	}
	return b.String()
}

// mutation alphabet: structural characters of the grammars, a few ordinary
// ones, white space and one non-ASCII rune (all valid UTF-8)
var rawAlphabet = []rune("/#|:_.-%?&=+ \taZ09~é")

// rawCases derives n byte-mutated neighbours of the valid reference strings
// among the generated cases. Seeded; the judge computes their denotation.
func rawCases(cases []*caseRec, n int, seed int64) []*caseRec {
	var origins []*caseRec
	for _, c := range cases {
		if c.Valid && c.Text != "" && (c.Kind == "rest" || c.Kind == "frag" || c.Kind == "urn" || c.Kind == "canon") {
			origins = append(origins, c)
		}
	}
	if len(origins) == 0 {
		return nil
	}
	rng := rand.New(rand.NewSource(seed))
	ops := []string{"del", "ins", "rep", "dup", "swap", "case", "trunc", "addslash", "dupslash", "delslash", "two"}
	out := make([]*caseRec, 0, n)
	seen := map[string]bool{}
	for tries := 0; len(out) < n && tries < 20*n; tries++ {
		o := origins[rng.Intn(len(origins))]
		op := ops[rng.Intn(len(ops))]
		text := mutate(rng, []rune(o.Text), op)
		if op == "two" {
			text = mutate(rng, []rune(mutate(rng, []rune(o.Text), ops[rng.Intn(10)])), ops[rng.Intn(10)])
		}
		if text == o.Text || seen[text] {
			continue
		}
		seen[text] = true
		out = append(out, &caseRec{
			ID: fmt.Sprintf("raw/%d", len(out)+1), Kind: "raw", Type: o.Type, Rid: text, X: o.Kind + "-" + op,
			Text: text, Rel: text, ci: 0,
		})
	}
	return out
}

func mutate(rng *rand.Rand, r []rune, op string) string {
	if len(r) == 0 {
		return string(rawAlphabet[rng.Intn(len(rawAlphabet))])
	}
	pos := rng.Intn(len(r))
	ch := rawAlphabet[rng.Intn(len(rawAlphabet))]
	slashes := []int{}
	for i, c := range r {
		if c == '/' {
			slashes = append(slashes, i)
		}
	}
	cut := func(i int) []rune { return append(append([]rune{}, r[:i]...), r[i+1:]...) }
	ins := func(i int, c rune) []rune { return append(append(append([]rune{}, r[:i]...), c), r[i:]...) }
	switch op {
	case "del":
		return string(cut(pos))
	case "ins":
		return string(ins(rng.Intn(len(r)+1), ch))
	case "rep":
		o := append([]rune{}, r...)
		o[pos] = ch
		return string(o)
	case "dup":
		return string(ins(pos, r[pos]))
	case "swap":
		if len(r) < 2 {
			return string(r)
		}
		if pos == len(r)-1 {
			pos--
		}
		o := append([]rune{}, r...)
		o[pos], o[pos+1] = o[pos+1], o[pos]
		return string(o)
	case "case":
		o := append([]rune{}, r...)
		for k := 0; k < len(o); k++ {
			i := (pos + k) % len(o)
			if o[i] >= 'a' && o[i] <= 'z' {
				o[i] -= 32
				return string(o)
			}
			if o[i] >= 'A' && o[i] <= 'Z' {
				o[i] += 32
				return string(o)
			}
		}
		return string(o)
	case "trunc":
		return string(r[:pos])
	case "addslash":
		return string(ins(rng.Intn(len(r)+1), '/'))
	case "dupslash":
		if len(slashes) == 0 {
			return string(ins(len(r), '/'))
		}
		return string(ins(slashes[rng.Intn(len(slashes))], '/'))
	case "delslash":
		if len(slashes) == 0 {
			return string(r)
		}
		return string(cut(slashes[rng.Intn(len(slashes))]))
	}
	return string(r)
}
