package main

import (
	"encoding/json"
	"fmt"
	"strings"
	"time"

	"github.com/google/fhir/go/fhirversion"
	"github.com/google/fhir/go/jsonformat"
	dtpb "github.com/google/fhir/go/proto/google/fhir/proto/r4/core/datatypes_go_proto"
	"github.com/verily-src/fhirpath-go/fhirpath"
	"github.com/verily-src/fhirpath-go/fhirpath/evalopts"
	"github.com/verily-src/fhirpath-go/fhirpath/system"
	"github.com/verily-src/fhirpath-go/fhirpath/zzverif/lib"
	"github.com/verily-src/fhirpath-go/internal/fhir"
	"github.com/verily-src/fhirpath-go/internal/fhirconv"
	"google.golang.org/protobuf/proto"
)

var marshaller *jsonformat.Marshaller

func init() {
	var err error
	marshaller, err = jsonformat.NewMarshaller(false, "", "", fhirversion.R4)
	if err != nil {
		panic(err)
	}
}

// elemDesc is the specification's description of a temporal FHIR primitive:
// kind, precision enum name, components in the element's own timezone,
// microseconds, timezone spelling and offset in minutes.
type elemDesc struct {
	Ek   string `json:"ek"`
	Prec string `json:"prec"`
	Y    int    `json:"y"`
	Mo   int    `json:"mo"`
	D    int    `json:"d"`
	H    int    `json:"h"`
	Mi   int    `json:"mi"`
	Sec  int    `json:"sec"`
	Us   int    `json:"us"`
	Tzs  string `json:"tzs"`
	Off  int    `json:"off"`
}

func numZone(off int) string {
	sign := "+"
	if off < 0 {
		sign = "-"
		off = -off
	}
	return fmt.Sprintf("%s%02d:%02d", sign, off/60, off%60)
}

func (d elemDesc) timezone() string {
	if d.Tzs == "num" {
		return numZone(d.Off)
	}
	return d.Tzs
}

// build constructs the proto message the description denotes.
func (d elemDesc) build(id string) proto.Message {
	us := time.Date(d.Y, time.Month(d.Mo), d.D, d.H, d.Mi, d.Sec, d.Us*1000, time.FixedZone("", d.Off*60)).UnixMicro()
	tz := d.timezone()
	switch d.Ek {
	case "Date":
		p, ok := dtpb.Date_Precision_value[d.Prec]
		if !ok {
			lib.Fatal("case %s: no Date precision %q", id, d.Prec)
		}
		return &dtpb.Date{ValueUs: us, Timezone: tz, Precision: dtpb.Date_Precision(p)}
	case "DateTime":
		p, ok := dtpb.DateTime_Precision_value[d.Prec]
		if !ok {
			lib.Fatal("case %s: no DateTime precision %q", id, d.Prec)
		}
		return &dtpb.DateTime{ValueUs: us, Timezone: tz, Precision: dtpb.DateTime_Precision(p)}
	case "Instant":
		p, ok := dtpb.Instant_Precision_value[d.Prec]
		if !ok {
			lib.Fatal("case %s: no Instant precision %q", id, d.Prec)
		}
		return &dtpb.Instant{ValueUs: us, Timezone: tz, Precision: dtpb.Instant_Precision(p)}
	case "Time":
		p, ok := dtpb.Time_Precision_value[d.Prec]
		if !ok {
			lib.Fatal("case %s: no Time precision %q", id, d.Prec)
		}
		return &dtpb.Time{ValueUs: (int64(d.H)*3600+int64(d.Mi)*60+int64(d.Sec))*1_000_000 + int64(d.Us), Precision: dtpb.Time_Precision(p)}
	}
	lib.Fatal("case %s: unknown element kind %q", id, d.Ek)
	return nil
}

// parseZone reads a FHIR timezone string without using the repository.
func parseZone(tz string) (minutes int, ok bool) {
	switch tz {
	case "", "Z", "UTC":
		return 0, true
	}
	if len(tz) != 6 || (tz[0] != '+' && tz[0] != '-') || tz[3] != ':' {
		return 0, false
	}
	var hh, mm int
	if _, err := fmt.Sscanf(tz[1:], "%02d:%02d", &hh, &mm); err != nil {
		return 0, false
	}
	m := hh*60 + mm
	if tz[0] == '-' {
		m = -m
	}
	return m, true
}

// projectElement describes a temporal/scalar FHIR element through its proto
// fields only: precision enum name, the components of value_us in the
// element's own timezone, the raw timezone string and its offset.
func projectElement(m proto.Message) map[string]any {
	comps := func(ek, prec string, us int64, tz string) map[string]any {
		off, offok := parseZone(tz)
		t := time.UnixMicro(us).UTC().Add(time.Duration(off) * time.Minute)
		return map[string]any{"k": "ok", "ek": ek, "prec": prec, "y": t.Year(), "mo": int(t.Month()), "d": t.Day(),
			"h": t.Hour(), "mi": t.Minute(), "sec": t.Second(), "us": t.Nanosecond() / 1000,
			"tzs": lib.Ascii(tz), "off": off, "offok": offok, "inday": true}
	}
	switch x := m.(type) {
	case *dtpb.Date:
		return comps("Date", x.GetPrecision().String(), x.GetValueUs(), x.GetTimezone())
	case *dtpb.DateTime:
		return comps("DateTime", x.GetPrecision().String(), x.GetValueUs(), x.GetTimezone())
	case *dtpb.Instant:
		return comps("Instant", x.GetPrecision().String(), x.GetValueUs(), x.GetTimezone())
	case *dtpb.Time:
		us := x.GetValueUs()
		r := comps("Time", x.GetPrecision().String(), us, "")
		// a time of day outside 00:00:00 .. 23:59:59.999999 has no components
		r["inday"] = us >= 0 && us < 86_400_000_000
		if !r["inday"].(bool) {
			r["h"], r["mi"], r["sec"], r["us"] = -1, -1, -1, -1
		}
		return r
	case *dtpb.Decimal:
		r := map[string]any{"k": "ok", "ek": "Decimal", "text": cps(x.GetValue())}
		if it, err := lib.DecFromString(x.GetValue()); err == nil {
			r["dec"] = it
		} else {
			r["dec"] = lib.Item{"t": "unk"}
		}
		return r
	case *dtpb.Integer:
		return map[string]any{"k": "ok", "ek": "Integer", "i": x.GetValue()}
	case *dtpb.Quantity:
		r := map[string]any{"k": "ok", "ek": "Quantity", "unit": cps(x.GetUnit().GetValue()), "code": cps(x.GetCode().GetValue()),
			"system": cps(x.GetSystem().GetValue()), "text": cps(x.GetValue().GetValue())}
		if it, err := lib.DecFromString(x.GetValue().GetValue()); err == nil {
			r["dec"] = it
		} else {
			r["dec"] = lib.Item{"t": "unk"}
		}
		return r
	}
	return map[string]any{"k": "err", "ek": "none"}
}

func cps(s string) []int {
	c, _ := lib.CodePoints(s)
	return c
}

// jsonformatText is google/fhir jsonformat's rendering of a single primitive:
// the element is placed in Extension.value[x] and the JSON value read back.
func jsonformatText(m proto.Message) (string, bool) {
	ext := &dtpb.Extension{Url: &dtpb.Uri{Value: "u"}, Value: &dtpb.Extension_ValueX{}}
	switch x := proto.Clone(m).(type) {
	case *dtpb.Date:
		ext.Value.Choice = &dtpb.Extension_ValueX_Date{Date: x}
	case *dtpb.DateTime:
		ext.Value.Choice = &dtpb.Extension_ValueX_DateTime{DateTime: x}
	case *dtpb.Instant:
		ext.Value.Choice = &dtpb.Extension_ValueX_Instant{Instant: x}
	case *dtpb.Time:
		ext.Value.Choice = &dtpb.Extension_ValueX_Time{Time: x}
	default:
		return "", false
	}
	js, err := marshaller.MarshalElement(ext)
	if err != nil {
		return "", false
	}
	var obj map[string]any
	if err := json.Unmarshal(js, &obj); err != nil {
		return "", false
	}
	for k, v := range obj {
		if strings.HasPrefix(k, "value") {
			s, ok := v.(string)
			return s, ok
		}
	}
	return "", false
}

// guarded runs fn under recover + deadline and returns the outcome it built,
// or the panic/timeout outcome.
func guarded(fn func() lib.Outcome) lib.Outcome {
	var out lib.Outcome
	rep := lib.SafeRetry(func() { out = fn() })
	if rep.Timeout {
		return lib.TimeoutOutcome()
	}
	if rep.Panic != "" {
		return lib.PanicOutcome(rep)
	}
	return out
}

func sysOutcome(v system.Any, err error) lib.Outcome {
	if err != nil {
		return lib.ErrOutcome("err", err)
	}
	return lib.OkOutcome([]lib.Item{lib.SystemItem(v)})
}

// ---------------------------------------------------------------- proto-precision

type protoCase struct {
	ID    string          `json:"id"`
	Sub   string          `json:"sub"`
	RawEl json.RawMessage `json:"el"`
	El    elemDesc        `json:"-"`
	Canon []int           `json:"canon"`
	Ek    string          `json:"ek"`
	Expr  []int           `json:"expr"`
}

// scalarDesc is the specification's description of a non-temporal element.
type scalarDesc struct {
	Ek   string `json:"ek"`
	B    bool   `json:"b"`
	I    int64  `json:"i"`
	S    []int  `json:"s"`
	Code []int  `json:"code"`
}

func (d scalarDesc) build(id string) proto.Message {
	str := lib.FromCodePoints(d.S)
	switch d.Ek {
	case "Boolean":
		return &dtpb.Boolean{Value: d.B}
	case "String":
		return &dtpb.String{Value: str}
	case "Uri":
		return &dtpb.Uri{Value: str}
	case "Url":
		return &dtpb.Url{Value: str}
	case "Code":
		return &dtpb.Code{Value: str}
	case "Oid":
		return &dtpb.Oid{Value: str}
	case "Id":
		return &dtpb.Id{Value: str}
	case "Uuid":
		return &dtpb.Uuid{Value: str}
	case "Markdown":
		return &dtpb.Markdown{Value: str}
	case "Canonical":
		return &dtpb.Canonical{Value: str}
	case "Integer":
		return &dtpb.Integer{Value: int32(d.I)}
	case "UnsignedInt":
		return &dtpb.UnsignedInt{Value: uint32(d.I)}
	case "PositiveInt":
		return &dtpb.PositiveInt{Value: uint32(d.I)}
	case "Decimal":
		return &dtpb.Decimal{Value: str}
	case "Quantity":
		q := &dtpb.Quantity{Value: &dtpb.Decimal{Value: str}}
		if len(d.Code) > 0 {
			q.Code = &dtpb.Code{Value: lib.FromCodePoints(d.Code)}
			q.System = &dtpb.Uri{Value: "http://unitsofmeasure.org"}
		}
		return q
	}
	lib.Fatal("case %s: unknown scalar element kind %q", id, d.Ek)
	return nil
}

func runProto(e *env, raw json.RawMessage, rec map[string]any) {
	var c protoCase
	must(json.Unmarshal(raw, &c), c.ID)
	switch c.Sub {
	case "from":
		must(json.Unmarshal(c.RawEl, &c.El), c.ID)
		runProtoFrom(e, c, rec)
	case "fromscalar":
		var d scalarDesc
		must(json.Unmarshal(c.RawEl, &d), c.ID)
		el := d.build(c.ID)
		rec["src"] = lib.Ascii(fmt.Sprintf("system.From(%s{%s})", d.Ek, lib.FromCodePoints(d.S)))
		rec["from"] = guarded(func() lib.Outcome { return sysOutcome(system.From(el)) })
		rec["out"] = rec["from"]
	default:
		runProtoTo(e, c, rec)
	}
}

func runProtoFrom(e *env, c protoCase, rec map[string]any) {
	el := c.El.build(c.ID)
	var val system.Any
	sys := guarded(func() lib.Outcome {
		var v system.Any
		var err error
		switch x := el.(type) {
		case *dtpb.Date:
			v, err = system.DateFromProto(x)
		case *dtpb.DateTime:
			v, err = system.DateTimeFromProto(x)
		case *dtpb.Time:
			v = system.TimeFromProto(x)
		case *dtpb.Instant:
			v, err = system.From(x) // there is no InstantFromProto
		}
		if err == nil {
			val = v
		}
		return sysOutcome(v, err)
	})
	rec["sys"] = sys
	rec["from"] = guarded(func() lib.Outcome { return sysOutcome(system.From(el)) })
	src := "%x = " + lib.FromCodePoints(c.Canon)
	if val != nil {
		rec["eq"] = lib.EvalOutcome(e.forest, src, e.res, nil, []fhirpath.EvaluateOption{evalopts.EnvVariable("x", val)})
	} else {
		rec["eq"] = lib.Outcome{"k": "err", "cls": []string{}, "msg": "no value to compare"}
	}
	rec["src"] = lib.Ascii(fmt.Sprintf("%s{%s %s} ; %s", c.El.Ek, c.El.Prec, c.El.timezone(), src))
	rec["out"] = sys
	rec["calls"] = 3
}

func runProtoTo(e *env, c protoCase, rec map[string]any) {
	src := lib.FromCodePoints(c.Expr)
	rec["src"] = lib.Ascii(src + " -> ToProto" + c.Ek)
	var val system.Any
	rec["val"] = guarded(func() lib.Outcome {
		ex, err := fhirpath.Compile(src)
		if err != nil {
			return lib.ErrOutcome("cerr", err)
		}
		col, err := ex.Evaluate(e.res)
		if err != nil {
			return lib.ErrOutcome("err", err)
		}
		if len(col) == 1 {
			if v, ok := col[0].(system.Any); ok {
				val = v
			}
		}
		return lib.OkOutcome(e.forest.ProjectCollection(col))
	})
	var el proto.Message
	rec["call"] = guarded(func() lib.Outcome {
		switch v := val.(type) {
		case system.Date:
			el = v.ToProtoDate()
		case system.DateTime:
			el = v.ToProtoDateTime()
		case system.Time:
			el = v.ToProtoTime()
		case system.Decimal:
			el = v.ToProtoDecimal()
		case system.Integer:
			el = v.ToProtoInteger()
		case system.Quantity:
			el = v.ToProtoQuantity()
		default:
			return lib.Outcome{"k": "err", "cls": []string{}, "msg": "no System value to convert"}
		}
		return lib.Outcome{"k": "ok", "items": []lib.Item{}}
	})
	if el != nil {
		p := projectElement(el)
		if js, ok := jsonformatText(el); ok {
			p["js"] = cps(js)
		} else {
			p["js"] = []int{}
		}
		rec["el"] = p
		rec["back"] = guarded(func() lib.Outcome { return sysOutcome(system.From(el)) })
	} else {
		rec["el"] = map[string]any{"k": "err", "ek": "none"}
		rec["back"] = lib.Outcome{"k": "err", "cls": []string{}, "msg": "no element"}
	}
	rec["out"] = rec["val"]
	rec["calls"] = 3
}

// ---------------------------------------------------------------- fhir-helpers

type helperCase struct {
	ID   string   `json:"id"`
	Sub  string   `json:"sub"`
	Ek   string   `json:"ek"`
	El   elemDesc `json:"el"`
	Text []int    `json:"text"`
}

func formatElement(el proto.Message) (specific, generic string) {
	switch x := el.(type) {
	case *dtpb.Date:
		return fhirconv.DateToString(x), fhirconv.ToString(x)
	case *dtpb.DateTime:
		return fhirconv.DateTimeToString(x), fhirconv.ToString(x)
	case *dtpb.Instant:
		return fhirconv.InstantToString(x), fhirconv.ToString(x)
	case *dtpb.Time:
		return fhirconv.TimeToString(x), fhirconv.ToString(x)
	}
	return "", ""
}

func parseElement(ek, s string) (proto.Message, error) {
	switch ek {
	case "Date":
		return fhir.ParseDate(s)
	case "DateTime":
		return fhir.ParseDateTime(s)
	case "Instant":
		return fhir.ParseInstant(s)
	case "Time":
		return fhir.ParseTime(s)
	}
	return nil, fmt.Errorf("unknown element kind %q", ek)
}

func runHelpers(e *env, raw json.RawMessage, rec map[string]any) {
	var c helperCase
	must(json.Unmarshal(raw, &c), c.ID)
	errEl := map[string]any{"k": "err", "ek": "none"}
	if c.Sub == "fmt" {
		el := c.El.build(c.ID)
		var s, gs string
		var el2p map[string]any
		call := guarded(func() lib.Outcome {
			a, b := formatElement(el)
			var p map[string]any
			if el2, err := parseElement(c.El.Ek, a); err == nil {
				p = projectElement(el2)
			}
			s, gs, el2p = a, b, p
			return lib.Outcome{"k": "ok", "items": []lib.Item{}}
		})
		rec["call"] = call
		rec["s"], rec["gs"], rec["js"], rec["el2"] = []int{}, []int{}, []int{}, errEl
		if call["k"] == "ok" {
			rec["s"], rec["gs"] = cps(s), cps(gs)
			if el2p != nil {
				rec["el2"] = el2p
			}
		}
		rec["src"] = lib.Ascii(fmt.Sprintf("%s{%s %s} -> %q", c.El.Ek, c.El.Prec, c.El.timezone(), s))
		if js, ok := jsonformatText(el); ok {
			rec["js"] = cps(js)
		} else {
			lib.Fatal("case %s: jsonformat cannot render the element the case describes", c.ID)
		}
		rec["out"] = map[string]any{"k": "text", "cp": rec["s"]}
		rec["calls"] = 3
		return
	}
	text := lib.FromCodePoints(c.Text)
	rec["src"] = lib.Ascii(fmt.Sprintf("Parse%s(%q)", c.Ek, text))
	rec["el"], rec["s2"], rec["js2"] = errEl, []int{}, []int{}
	var elp map[string]any
	var s2, js2 string
	call := guarded(func() lib.Outcome {
		el, err := parseElement(c.Ek, text)
		if err != nil {
			return lib.ErrOutcome("err", err)
		}
		p := projectElement(el)
		a, _ := formatElement(el)
		j, _ := jsonformatText(el)
		elp, s2, js2 = p, a, j
		return lib.Outcome{"k": "ok", "items": []lib.Item{}}
	})
	rec["call"] = call
	if call["k"] == "ok" {
		rec["el"], rec["s2"], rec["js2"] = elp, cps(s2), cps(js2)
	}
	rec["out"] = map[string]any{"k": "text", "cp": rec["s2"]}
	rec["calls"] = 2
}
