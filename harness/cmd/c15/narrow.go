package main

import (
	"encoding/json"
	"math/big"

	dtpb "github.com/google/fhir/go/proto/google/fhir/proto/r4/core/datatypes_go_proto"
	"github.com/verily-src/fhirpath-go/fhirpath/zzverif/lib"
	"github.com/verily-src/fhirpath-go/internal/fhir"
	"github.com/verily-src/fhirpath-go/internal/fhirconv"
	"github.com/verily-src/fhirpath-go/internal/narrow"
	"golang.org/x/exp/constraints"
)

// named32 is a defined type whose underlying type is int32 (what a proto enum is).
type named32 int32

// conv converts one value of the source type (given exactly, as a big.Int that
// the source type can represent) and reports (converted?, result).
type conv func(v *big.Int) (bool, *big.Int)

var narrowTable = map[string]map[string]conv{}

func toBig[T constraints.Integer](r T) *big.Int {
	if isSignedType[T]() {
		return big.NewInt(int64(r))
	}
	return new(big.Int).SetUint64(uint64(r))
}

func isSignedType[T constraints.Integer]() bool {
	var z T
	return z-1 < 0
}

func fromBig[F constraints.Integer](v *big.Int) F {
	if v.Sign() < 0 {
		return F(v.Int64())
	}
	return F(v.Uint64())
}

func regPair[F, T constraints.Integer](fn, tn string) {
	if narrowTable["narrow:"+fn] == nil {
		narrowTable["narrow:"+fn] = map[string]conv{}
	}
	narrowTable["narrow:"+fn][tn] = func(v *big.Int) (bool, *big.Int) {
		r, ok := narrow.ToInteger[T](fromBig[F](v))
		return ok, toBig(r)
	}
}

func regFrom[F constraints.Integer](fn string) {
	regPair[F, int8](fn, "int8")
	regPair[F, int16](fn, "int16")
	regPair[F, int32](fn, "int32")
	regPair[F, int64](fn, "int64")
	regPair[F, int](fn, "int")
	regPair[F, uint8](fn, "uint8")
	regPair[F, uint16](fn, "uint16")
	regPair[F, uint32](fn, "uint32")
	regPair[F, uint64](fn, "uint64")
	regPair[F, uint](fn, "uint")
	regPair[F, uintptr](fn, "uintptr")
	regPair[F, named32](fn, "named32")
}

func regFhir[T constraints.Integer](tn string) {
	add := func(fn string, c conv) {
		if narrowTable["fhirconv:"+fn] == nil {
			narrowTable["fhirconv:"+fn] = map[string]conv{}
		}
		narrowTable["fhirconv:"+fn][tn] = c
	}
	add("Integer", func(v *big.Int) (bool, *big.Int) {
		r, err := fhirconv.ToInteger[T](&dtpb.Integer{Value: int32(v.Int64())})
		return err == nil, toBig(r)
	})
	add("UnsignedInt", func(v *big.Int) (bool, *big.Int) {
		r, err := fhirconv.ToInteger[T](&dtpb.UnsignedInt{Value: uint32(v.Uint64())})
		return err == nil, toBig(r)
	})
	add("PositiveInt", func(v *big.Int) (bool, *big.Int) {
		r, err := fhirconv.ToInteger[T](&dtpb.PositiveInt{Value: uint32(v.Uint64())})
		return err == nil, toBig(r)
	})
}

// regFhirPrim registers the narrowing constructors of internal/fhir: the result
// is the value of the Integer element they build.
func regFhirPrim() {
	narrowTable["fhirprim:int"] = map[string]conv{"int32": func(v *big.Int) (bool, *big.Int) {
		el, err := fhir.IntegerFromInt(int(v.Int64()))
		if err != nil {
			return false, new(big.Int)
		}
		return true, big.NewInt(int64(el.GetValue()))
	}}
	narrowTable["fhirprim:UnsignedInt"] = map[string]conv{"int32": func(v *big.Int) (bool, *big.Int) {
		el, err := fhir.IntegerFromUnsignedInt(&dtpb.UnsignedInt{Value: uint32(v.Uint64())})
		if err != nil {
			return false, new(big.Int)
		}
		return true, big.NewInt(int64(el.GetValue()))
	}}
	narrowTable["fhirprim:PositiveInt"] = map[string]conv{"int32": func(v *big.Int) (bool, *big.Int) {
		el, err := fhir.IntegerFromPositiveInt(&dtpb.PositiveInt{Value: uint32(v.Uint64())})
		if err != nil {
			return false, new(big.Int)
		}
		return true, big.NewInt(int64(el.GetValue()))
	}}
}

func init() {
	regFhirPrim()
	regFrom[int8]("int8")
	regFrom[int16]("int16")
	regFrom[int32]("int32")
	regFrom[int64]("int64")
	regFrom[int]("int")
	regFrom[uint8]("uint8")
	regFrom[uint16]("uint16")
	regFrom[uint32]("uint32")
	regFrom[uint64]("uint64")
	regFrom[uint]("uint")
	regFrom[uintptr]("uintptr")
	regFrom[named32]("named32")
	regFhir[int8]("int8")
	regFhir[int16]("int16")
	regFhir[int32]("int32")
	regFhir[int64]("int64")
	regFhir[int]("int")
	regFhir[uint8]("uint8")
	regFhir[uint16]("uint16")
	regFhir[uint32]("uint32")
	regFhir[uint64]("uint64")
	regFhir[uint]("uint")
	regFhir[uintptr]("uintptr")
	regFhir[named32]("named32")
}

type signedNum struct {
	Neg bool  `json:"neg"`
	M   []int `json:"m"`
}

func (s signedNum) big() *big.Int {
	v := new(big.Int)
	base := big.NewInt(10000)
	for i := len(s.M) - 1; i >= 0; i-- {
		v.Mul(v, base)
		v.Add(v, big.NewInt(int64(s.M[i])))
	}
	if s.Neg {
		v.Neg(v)
	}
	return v
}

func signedOf(v *big.Int) signedNum {
	return signedNum{Neg: v.Sign() < 0, M: lib.Limbs(v)}
}

type narrowCase struct {
	ID   string    `json:"id"`
	Sub  string    `json:"sub"`
	API  string    `json:"api"`
	From string    `json:"from"`
	To   string    `json:"to"`
	Lo   int64     `json:"lo"`
	Hi   int64     `json:"hi"`
	V    signedNum `json:"v"`
}

func runNarrow(e *env, raw json.RawMessage, rec map[string]any) {
	var c narrowCase
	must(json.Unmarshal(raw, &c), c.ID)
	fn := narrowTable[c.API+":"+c.From][c.To]
	if fn == nil {
		lib.Fatal("case %s: no instantiation %s %s -> %s", c.ID, c.API, c.From, c.To)
	}
	rec["src"] = c.API + ".ToInteger[" + c.To + "](" + c.From + ")"
	if c.Sub == "range" {
		n := int(c.Hi - c.Lo + 1)
		oks, res := make([]int, n), make([]int, n)
		call := guarded(func() lib.Outcome {
			a, b := make([]int, n), make([]int, n)
			for i := 0; i < n; i++ {
				ok, r := fn(big.NewInt(c.Lo + int64(i)))
				if ok {
					a[i] = 1
					if r.IsInt64() && r.Int64() > -2147483648 && r.Int64() < 2147483647 {
						b[i] = int(r.Int64())
					} else {
						b[i] = 2147483647 // a converted value no 16-bit input can have
					}
				}
			}
			oks, res = a, b
			return lib.Outcome{"k": "ok", "items": []lib.Item{}}
		})
		rec["call"], rec["ok"], rec["res"] = call, oks, res
		rec["out"] = map[string]any{"k": "range", "n": n}
		rec["calls"] = n
		return
	}
	var ok bool
	res := new(big.Int)
	call := guarded(func() lib.Outcome {
		a, b := fn(c.V.big())
		ok, res = a, b
		return lib.Outcome{"k": "ok", "items": []lib.Item{}}
	})
	rec["call"], rec["ok"], rec["res"] = call, ok, signedOf(res)
	rec["out"] = map[string]any{"k": "point", "ok": ok}
	rec["calls"] = 1
}
