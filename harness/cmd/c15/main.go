// Command c15 replays the C15 case space (literals and value representations
// round-trip) against the real code.
//
//	c15 run cases.ndjson obs.ndjson
//
// Every case carries its kind; the harness only concretises the case (code
// points -> source text, element descriptions -> proto messages), runs the
// real API under recover + deadline and projects what came back. It never
// decides whether an observation is right.
package main

import (
	"encoding/json"
	"os"
	"runtime"

	"github.com/verily-src/fhirpath-go/fhirpath/zzverif/lib"
)

type caseHead struct {
	ID   string `json:"id"`
	Kind string `json:"kind"`
	Sub  string `json:"sub"`
}

type env struct {
	forest *lib.Forest
	res    []lib.Resource
}

func (e *env) eval(src string) lib.Outcome {
	return lib.EvalOutcome(e.forest, src, e.res, nil, nil)
}

func main() {
	if len(os.Args) != 4 || os.Args[1] != "run" {
		lib.Fatal("usage: c15 run cases.ndjson obs.ndjson")
	}
	var cases []json.RawMessage
	if err := lib.ReadNDJSON(os.Args[2], func(b []byte) error {
		cases = append(cases, append(json.RawMessage(nil), b...))
		return nil
	}); err != nil {
		lib.Fatal("%v", err)
	}
	patient := lib.LoadModelResource("MR1")
	forest, err := lib.NewForest(patient)
	if err != nil {
		lib.Fatal("%v", err)
	}
	e := &env{forest: forest, res: lib.AsResources(patient)}
	w, err := lib.NewWriter(os.Args[3])
	if err != nil {
		lib.Fatal("%v", err)
	}
	lib.ParallelMap(len(cases), runtime.NumCPU(), func(i int) {
		var h caseHead
		if err := json.Unmarshal(cases[i], &h); err != nil {
			lib.Fatal("case %d: %v", i, err)
		}
		rec := map[string]any{"id": h.ID, "kind": h.Kind, "cs": cases[i]}
		switch h.Kind {
		case "lit-string":
			runString(e, cases[i], rec)
		case "lit-decimal":
			runNumber(e, cases[i], rec)
		case "lit-temporal":
			runTemporal(e, cases[i], rec)
		case "proto-precision":
			runProto(e, cases[i], rec)
		case "fhir-helpers":
			runHelpers(e, cases[i], rec)
		case "narrow":
			runNarrow(e, cases[i], rec)
		default:
			lib.Fatal("case %s: unknown kind %q", h.ID, h.Kind)
		}
		if err := w.Write(rec); err != nil {
			lib.Fatal("%v", err)
		}
	})
	if err := w.Close(); err != nil {
		lib.Fatal("%v", err)
	}
}

func must(err error, id string) {
	if err != nil {
		lib.Fatal("case %s: %v", id, err)
	}
}
