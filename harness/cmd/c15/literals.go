package main

import (
	"encoding/json"

	"github.com/verily-src/fhirpath-go/fhirpath/zzverif/lib"
)

// ---------------------------------------------------------------- lit-string

type stringCase struct {
	ID   string `json:"id"`
	Body []int  `json:"body"`
}

// The body is placed between single quotes; the whole text is compiled and
// evaluated through the public API.
func runString(e *env, raw json.RawMessage, rec map[string]any) {
	var c stringCase
	must(json.Unmarshal(raw, &c), c.ID)
	src := "'" + lib.FromCodePoints(c.Body) + "'"
	rec["src"] = lib.Ascii(src)
	rec["out"] = e.eval(src)
}

// ---------------------------------------------------------------- lit-decimal

type numberCase struct {
	ID   string `json:"id"`
	Text []int  `json:"text"`
	Conv string `json:"conv"`
}

// lit: the literal; rt: its string form converted back; rteq: the comparison
// of the two made by the code itself.
func runNumber(e *env, raw json.RawMessage, rec map[string]any) {
	var c numberCase
	must(json.Unmarshal(raw, &c), c.ID)
	l := lib.FromCodePoints(c.Text)
	rt := "(" + l + ").toString()." + c.Conv + "()"
	rec["src"] = lib.Ascii(l)
	rec["lit"] = e.eval(l)
	rec["rt"] = e.eval(rt)
	rec["rteq"] = e.eval(rt + " = " + l)
	rec["out"] = rec["lit"]
	rec["calls"] = 3
}

// ---------------------------------------------------------------- lit-temporal

type temporalCase struct {
	ID     string `json:"id"`
	Text   []int  `json:"text"`
	Conv   string `json:"conv"`
	CanonT []int  `json:"canonT"`
	CanonR []int  `json:"canonR"`
}

func runTemporal(e *env, raw json.RawMessage, rec map[string]any) {
	var c temporalCase
	must(json.Unmarshal(raw, &c), c.ID)
	l := lib.FromCodePoints(c.Text)
	rt := "(" + l + ").toString()." + c.Conv + "()"
	rec["src"] = lib.Ascii(l)
	rec["lit"] = e.eval(l)
	rec["rt"] = e.eval(rt)
	rec["rteq"] = e.eval(rt + " = " + l)
	rec["eqT"] = e.eval(l + " = " + lib.FromCodePoints(c.CanonT))
	rec["eqR"] = e.eval(l + " = " + lib.FromCodePoints(c.CanonR))
	rec["out"] = rec["lit"]
	rec["calls"] = 5
}
