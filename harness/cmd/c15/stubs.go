package main

import "encoding/json"

func runProto(e *env, raw json.RawMessage, rec map[string]any)   {}
func runHelpers(e *env, raw json.RawMessage, rec map[string]any) {}
func runNarrow(e *env, raw json.RawMessage, rec map[string]any)  {}
