// Command ntvals prepares a node-level trace (hook fhirpath/verif_on.go) for the trace specification: the System
// values the hook spells as "<Type>:<text>" in the inv / outv lists of every event are turned into the abstract
// items of spec/FPValues.tla (exact decimals as limbs, strings as code points, temporal values by component), a
// value the specification's domain does not hold (no value, a text that does not parse, more than 60 digits) into
// {"t":"none"}. Nothing else of an event is touched; nothing is decided here.
//
//	ntvals in.ndjson out.ndjson
package main

import (
	"bufio"
	"encoding/json"
	"os"
	"regexp"
	"strconv"
	"strings"

	apb "github.com/google/fhir/go/proto/google/fhir/proto/annotations_go_proto"
	"google.golang.org/protobuf/proto"
	"google.golang.org/protobuf/reflect/protoreflect"
	"google.golang.org/protobuf/reflect/protoregistry"

	"github.com/shopspring/decimal"
	"github.com/verily-src/fhirpath-go/fhirpath/zzverif/lib"
)

var none = lib.Item{"t": "none"}

func item(s string) lib.Item {
	i := strings.IndexByte(s, ':')
	if i < 0 {
		return none
	}
	typ, txt := s[:i], s[i+1:]
	switch typ {
	case "Boolean":
		if txt == "true" || txt == "false" {
			return lib.BoolItem(txt == "true")
		}
	case "Integer":
		if n, err := strconv.ParseInt(txt, 10, 32); err == nil {
			return lib.IntItem(n)
		}
	case "String":
		it := lib.StrItem(txt)
		if _, bad := it["badutf8"]; !bad {
			return it
		}
	case "Decimal":
		if len(txt) <= 60 && !strings.ContainsAny(txt, "eE") {
			if it, err := lib.DecFromString(txt); err == nil {
				return it
			}
		}
	case "Date":
		if it, err := lib.ParseTemporal("date", txt); err == nil {
			return it
		}
	case "DateTime":
		if it, err := lib.ParseTemporal("dt", txt); err == nil {
			return it
		}
	case "Time":
		if it, err := lib.ParseTemporal("time", txt); err == nil {
			return it
		}
	case "Quantity":
		num, unit := txt, ""
		if j := strings.IndexByte(txt, ' '); j >= 0 {
			num, unit = txt[:j], txt[j+1:]
		}
		if len(num) <= 60 && !strings.ContainsAny(num, "eE") {
			if d, err := lib.DecFromString(num); err == nil {
				q := lib.QtyItem(d, unit)
				// the unit as an ASCII word and the amount in thousandths, where both exist (what FPTemporal's rules take)
				q["u"], q["th"] = "", 0
				if th, ok := thousandths(num); ok && isWord(unit) {
					q["u"], q["th"] = unit, th
				}
				return q
			}
		}
	}
	return none
}

var typeSpec = regexp.MustCompile(`^\{namespace:(\w+) typeName:([\w.]+)\}$`)

// fhirType is the FHIR type name and kind of a proto message type; ty = "" when the item is no message, "?" when it is a wrapper
// (ContainedResource, a choice type) or a type the registry does not know.
func fhirType(full string) map[string]string {
	if full == "" {
		return map[string]string{"ty": "", "kind": ""}
	}
	none := map[string]string{"ty": "?", "kind": ""}
	if strings.HasSuffix(full, ".ContainedResource") {
		return none
	}
	mt, err := protoregistry.GlobalTypes.FindMessageByName(protoreflect.FullName(full))
	if err != nil {
		return none
	}
	d := mt.Descriptor()
	if proto.HasExtension(d.Options(), apb.E_IsChoiceType) && proto.GetExtension(d.Options(), apb.E_IsChoiceType).(bool) {
		return none
	}
	ty, kind := lib.FHIRTypeOf(d)
	return map[string]string{"ty": ty, "kind": kind}
}

func isWord(s string) bool {
	if s == "" || len(s) > 16 {
		return false
	}
	for _, c := range s {
		if !(c >= 'a' && c <= 'z' || c >= 'A' && c <= 'Z') {
			return false
		}
	}
	return true
}

// thousandths returns num*1000 when that is a whole number of moderate size.
func thousandths(num string) (int, bool) {
	d, err := decimal.NewFromString(num)
	if err != nil {
		return 0, false
	}
	t := d.Mul(decimal.NewFromInt(1000))
	if !t.IsInteger() || t.Abs().Cmp(decimal.NewFromInt(2000000000)) > 0 {
		return 0, false
	}
	return int(t.IntPart()), true
}

func main() {
	if len(os.Args) != 3 {
		lib.Fatal("usage: ntvals in.ndjson out.ndjson")
	}
	in, err := os.Open(os.Args[1])
	if err != nil {
		lib.Fatal("%v", err)
	}
	out, err := os.Create(os.Args[2])
	if err != nil {
		lib.Fatal("%v", err)
	}
	w := bufio.NewWriterSize(out, 1<<20)
	sc := bufio.NewScanner(in)
	sc.Buffer(make([]byte, 1<<20), 1<<28)
	for sc.Scan() {
		var rec map[string]any
		if err := json.Unmarshal(sc.Bytes(), &rec); err != nil {
			lib.Fatal("malformed trace line: %v", err)
		}
		for _, key := range []string{"inv", "outv"} {
			raw, ok := rec[key].([]any)
			if !ok {
				if _, present := rec[key]; present || (key == "inv") == (rec["e"] == "B") {
					rec[key] = []lib.Item{}
				}
				continue
			}
			items := make([]lib.Item, len(raw))
			for i, x := range raw {
				s, _ := x.(string)
				items[i] = item(s)
			}
			rec[key] = items
		}
		// type tests (law typeop, C12): the proto message type of every outcome item becomes its FHIR type name and kind, read
		// from the google/fhir descriptor annotations (lib.FHIRTypeOf - not from the package under test); the type specifier
		// of an is/as node ("{namespace:FHIR typeName:Patient}") becomes tns / tname
		if rec["e"] == "E" {
			otk := []map[string]string{}
			if raw, ok := rec["oty"].([]any); ok {
				for _, x := range raw {
					name, _ := x.(string)
					otk = append(otk, fhirType(name))
				}
			}
			rec["otk"] = otk
			delete(rec, "oty")
		} else {
			rec["tns"], rec["tname"] = "", ""
			if k, _ := rec["k"].(string); k == "Is" || k == "As" {
				ps, _ := rec["p"].(string)
				if m := typeSpec.FindStringSubmatch(ps); m != nil {
					rec["tns"], rec["tname"] = m[1], m[2]
				}
				rec["p"] = ""
			}
		}
		b, _ := json.Marshal(rec)
		w.Write(b)
		w.WriteByte('\n')
	}
	if err := sc.Err(); err != nil {
		lib.Fatal("%v", err)
	}
	w.Flush()
	out.Close()
}
