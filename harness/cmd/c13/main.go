// Command c13 replays the C13 case space (conversion functions) against the
// real code.
//
//	c13 run cases.ndjson obs.ndjson       evaluate every program of every case
//	c13 gen N out.ndjson                  seeded string cases (VERIF_SEED), same case format
//	c13 probe expr...                     debug aid: evaluate expressions on MR1
//
// A case (emitted by TLC from spec/C13.tla, or by `gen`) names a source - an
// abstract item x handed over as a literal (text ra+rc), as environment
// variable %x, as a FHIR primitive element of kind fk (the harness puts it
// into Parameters.parameter.value[x]) or as a complex element of MR1 - and a
// target type T with the programs to run. The harness only concretises the
// item, runs the public API and projects what comes back; all judging is
// done by spec/C13_Judge.tla.
package main

import (
	"encoding/json"
	"fmt"
	"math/big"
	"os"
	"runtime"
	"strconv"
	"strings"

	"github.com/shopspring/decimal"
	"github.com/verily-src/fhirpath-go/fhirpath"
	"github.com/verily-src/fhirpath-go/fhirpath/evalopts"
	"github.com/verily-src/fhirpath-go/fhirpath/system"
	"github.com/verily-src/fhirpath-go/fhirpath/zzverif/lib"
)

type prog struct {
	P   string `json:"p"`
	Sfx string `json:"sfx"`
}

type caseRec struct {
	ID    string         `json:"id"`
	T     string         `json:"T"`
	Sk    string         `json:"sk"`
	Fk    string         `json:"fk"`
	X     map[string]any `json:"x"`
	Ra    string         `json:"ra"`
	Rc    []int          `json:"rc"`
	Progs []prog         `json:"progs"`
}

func main() {
	if len(os.Args) >= 2 && os.Args[1] == "probe" {
		probe(os.Args[2:])
		return
	}
	if len(os.Args) == 4 && os.Args[1] == "gen" {
		n, err := strconv.Atoi(os.Args[2])
		if err != nil {
			lib.Fatal("gen: %v", err)
		}
		genCases(n, os.Args[3])
		return
	}
	if len(os.Args) != 4 || os.Args[1] != "run" {
		lib.Fatal("usage: c13 run cases.ndjson obs.ndjson | c13 gen N out.ndjson | c13 probe expr...")
	}
	var cases []caseRec
	if err := lib.ReadNDJSON(os.Args[2], func(b []byte) error {
		var c caseRec
		d := json.NewDecoder(strings.NewReader(string(b)))
		d.UseNumber()
		if err := d.Decode(&c); err != nil {
			return err
		}
		cases = append(cases, c)
		return nil
	}); err != nil {
		lib.Fatal("%v", err)
	}
	mr1 := lib.LoadModelResource("MR1")
	mr1Forest, err := lib.NewForest(mr1)
	if err != nil {
		lib.Fatal("%v", err)
	}
	w, err := lib.NewWriter(os.Args[3])
	if err != nil {
		lib.Fatal("%v", err)
	}
	lib.ParallelMap(len(cases), runtime.NumCPU(), func(i int) {
		c := cases[i]
		recv := c.Ra + lib.FromCodePoints(c.Rc)
		forest, res := mr1Forest, lib.AsResources(mr1)
		var mkOpts func() []fhirpath.EvaluateOption
		var buildErr lib.Outcome
		switch c.Sk {
		case "lit":
		case "env":
			v, err := systemValue(c.X)
			if err != nil {
				// The System value of a temporal item or a quantity can only be built through
				// the repository's own parsers (unexported fields). A parser that rejects the
				// canonical rendering of a pool item is an observation about the code, not a
				// harness failure: record it as the outcome of every program of the case (the
				// judge then reports the source as not denoting its item).
				buildErr = lib.Outcome{"k": "err", "cls": []string{}, "msg": lib.Ascii("harness could not build the environment value through system.Parse*: " + err.Error())}
			}
			mkOpts = func() []fhirpath.EvaluateOption {
				return []fhirpath.EvaluateOption{evalopts.EnvVariable("x", v)}
			}
		case "el":
			if t, _ := c.X["t"].(string); t != "cx" {
				js, err := parametersJSON(c.X, c.Fk)
				if err != nil {
					lib.Fatal("case %s: %v", c.ID, err)
				}
				msg, err := lib.ParseResource(js)
				if err != nil {
					lib.Fatal("case %s: jsonformat rejects %s: %v", c.ID, js, err)
				}
				f, err := lib.NewForest(msg)
				if err != nil {
					lib.Fatal("case %s: %v", c.ID, err)
				}
				forest, res = f, lib.AsResources(msg)
			}
		default:
			lib.Fatal("case %s: unknown source kind %q", c.ID, c.Sk)
		}
		eval := func(src string) lib.Outcome {
			if buildErr != nil {
				return buildErr
			}
			var opts []fhirpath.EvaluateOption
			if mkOpts != nil {
				opts = mkOpts()
			}
			return lib.EvalOutcome(forest, src, res, nil, opts)
		}
		xout := eval(recv)
		sout := eval(recv + ".toString()")
		for _, p := range c.Progs {
			src := recv + p.Sfx
			out := eval(src)
			rec := map[string]any{
				"id": c.ID + "/" + p.P, "cid": c.ID, "T": c.T, "prog": p.P, "sfx": p.Sfx, "alias": false,
				"sk": c.Sk, "fk": c.Fk, "x": c.X, "ra": c.Ra, "rc": c.Rc,
				"src": lib.Ascii(src), "out": out, "xout": xout, "sout": sout,
			}
			if err := w.Write(rec); err != nil {
				lib.Fatal("%v", err)
			}
			// convertsToDateTime is registered under a misspelt name in the unchanged
			// tree: also observe the implementation under the name it can be called by,
			// as a separate record, so that the naming defect does not hide it.
			if out["k"] == "cerr" && p.P == "conv" && c.T == "DateTime" {
				asrc := recv + ".convertToDateTime()"
				aout := eval(asrc)
				if aout["k"] != "cerr" {
					rec2 := map[string]any{}
					for k, v := range rec {
						rec2[k] = v
					}
					rec2["id"] = c.ID + "/" + p.P + "#alias"
					rec2["alias"] = true
					rec2["src"] = lib.Ascii(asrc)
					rec2["out"] = aout
					if err := w.Write(rec2); err != nil {
						lib.Fatal("%v", err)
					}
				}
			}
		}
	})
	if err := w.Close(); err != nil {
		lib.Fatal("%v", err)
	}
}

// ---------------------------------------------------------------- abstract item -> inputs

func num(v any) (int, error) {
	switch n := v.(type) {
	case json.Number:
		i, err := n.Int64()
		return int(i), err
	case float64:
		return int(n), nil
	case int:
		return n, nil
	}
	return 0, fmt.Errorf("not a number: %T", v)
}

func field(it map[string]any, k string) int {
	n, err := num(it[k])
	if err != nil {
		lib.Fatal("item field %s: %v (%v)", k, err, it)
	}
	return n
}

func cps(v any) (string, error) {
	arr, ok := v.([]any)
	if !ok {
		return "", fmt.Errorf("not a code point array: %T", v)
	}
	out := make([]int, 0, len(arr))
	for _, e := range arr {
		n, err := num(e)
		if err != nil {
			return "", err
		}
		out = append(out, n)
	}
	return lib.FromCodePoints(out), nil
}

// decimalOf rebuilds the exact decimal of an abstract Decimal item.
func decimalOf(it map[string]any) (decimal.Decimal, error) {
	arr, ok := it["m"].([]any)
	if !ok {
		return decimal.Decimal{}, fmt.Errorf("decimal without limbs: %v", it)
	}
	coef := new(big.Int)
	base := big.NewInt(10000)
	for i := len(arr) - 1; i >= 0; i-- {
		l, err := num(arr[i])
		if err != nil {
			return decimal.Decimal{}, err
		}
		coef.Mul(coef, base)
		coef.Add(coef, big.NewInt(int64(l)))
	}
	if neg, _ := it["neg"].(bool); neg {
		coef.Neg(coef)
	}
	e, err := num(it["e"])
	if err != nil {
		return decimal.Decimal{}, err
	}
	return decimal.NewFromBigInt(coef, int32(e)), nil
}

// plainDecimal renders a decimal without exponent, with at least one
// fractional digit when it has a negative exponent (as FHIR JSON numbers).
func plainDecimal(d decimal.Decimal) string { return d.String() }

func dateText(it map[string]any, p int) string {
	s := fmt.Sprintf("%04d", field(it, "y"))
	if p >= 2 {
		s += fmt.Sprintf("-%02d", field(it, "mo"))
	}
	if p >= 3 {
		s += fmt.Sprintf("-%02d", field(it, "d"))
	}
	return s
}

func timeText(it map[string]any, p int) string {
	s := fmt.Sprintf("%02d", field(it, "h"))
	if p >= 5 {
		s += fmt.Sprintf(":%02d", field(it, "mi"))
	}
	if p >= 6 {
		s += fmt.Sprintf(":%02d", field(it, "sec"))
	}
	if p >= 7 {
		s += fmt.Sprintf(".%03d", field(it, "ms"))
	}
	return s
}

func zoneText(it map[string]any) string {
	if tz, _ := it["tz"].(bool); !tz {
		return ""
	}
	off := field(it, "off")
	if off == 0 {
		return "Z"
	}
	sign := "+"
	if off < 0 {
		sign, off = "-", -off
	}
	return fmt.Sprintf("%s%02d:%02d", sign, off/60, off%60)
}

// dateTimeText renders an abstract DateTime; fhirpathForm adds the bare 'T'
// the FHIRPath grammar needs after a date-only DateTime.
func dateTimeText(it map[string]any, fhirpathForm bool) string {
	p := field(it, "p")
	if p <= 3 {
		s := dateText(it, p)
		if fhirpathForm {
			s += "T"
		}
		return s
	}
	return dateText(it, 3) + "T" + timeText(it, p) + zoneText(it)
}

// systemValue builds the System value an abstract item denotes (used for
// environment variables). Temporal values and quantities have unexported
// fields, so they are built from their lexical form; the judge checks the
// denotation of every source by evaluating it alone.
func systemValue(it map[string]any) (system.Any, error) {
	t, _ := it["t"].(string)
	switch t {
	case "b":
		b, _ := it["b"].(bool)
		return system.Boolean(b), nil
	case "i":
		n, err := num(it["i"])
		return system.Integer(int32(n)), err
	case "s":
		s, err := cps(it["cp"])
		return system.String(s), err
	case "d":
		d, err := decimalOf(it)
		return system.Decimal(d), err
	case "date":
		return system.ParseDate(dateText(it, field(it, "p")))
	case "time":
		return system.ParseTime(timeText(it, field(it, "p")))
	case "dt":
		return system.ParseDateTime(dateTimeText(it, true))
	case "q":
		val, ok := it["val"].(map[string]any)
		if !ok {
			return nil, fmt.Errorf("quantity without value")
		}
		d, err := decimalOf(val)
		if err != nil {
			return nil, err
		}
		unit, err := cps(it["unit"])
		if err != nil {
			return nil, err
		}
		return system.ParseQuantity(plainDecimal(d), unit)
	}
	return nil, fmt.Errorf("no System value for item tag %q", t)
}

func upperFirst(s string) string { return strings.ToUpper(s[:1]) + s[1:] }

// parametersJSON is a Parameters resource whose single parameter carries the
// item as value[x] of FHIR kind fk.
func parametersJSON(it map[string]any, fk string) ([]byte, error) {
	t, _ := it["t"].(string)
	var v any
	switch {
	case t == "b" && fk == "boolean":
		b, _ := it["b"].(bool)
		v = b
	case t == "i" && (fk == "integer" || fk == "positiveInt" || fk == "unsignedInt"):
		n, err := num(it["i"])
		if err != nil {
			return nil, err
		}
		v = n
	case t == "d" && fk == "decimal":
		d, err := decimalOf(it)
		if err != nil {
			return nil, err
		}
		v = json.Number(plainDecimal(d))
	case t == "s" && (fk == "string" || fk == "code" || fk == "id" || fk == "uri" || fk == "markdown" || fk == "url" || fk == "canonical"):
		s, err := cps(it["cp"])
		if err != nil {
			return nil, err
		}
		v = s
	case t == "date" && fk == "date":
		v = dateText(it, field(it, "p"))
	case t == "dt" && (fk == "dateTime" || fk == "instant"):
		v = dateTimeText(it, false)
	case t == "time" && fk == "time":
		v = timeText(it, field(it, "p"))
	case t == "q" && fk == "Quantity":
		val, ok := it["val"].(map[string]any)
		if !ok {
			return nil, fmt.Errorf("quantity without value")
		}
		d, err := decimalOf(val)
		if err != nil {
			return nil, err
		}
		unit, err := cps(it["unit"])
		if err != nil {
			return nil, err
		}
		// the human-readable unit differs from the code on purpose: the System unit is the code
		v = map[string]any{"value": json.Number(plainDecimal(d)), "unit": "display of " + unit, "system": "http://unitsofmeasure.org", "code": unit}
	default:
		return nil, fmt.Errorf("item %q cannot be a FHIR %s", t, fk)
	}
	return json.Marshal(map[string]any{
		"resourceType": "Parameters",
		"parameter":    []any{map[string]any{"name": "x", "value" + upperFirst(fk): v}},
	})
}
