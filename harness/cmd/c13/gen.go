package main

import (
	"fmt"
	"math/rand"
	"strings"

	"github.com/verily-src/fhirpath-go/fhirpath/zzverif/lib"
)

// Seeded generator of string cases (direction B): renderings drawn from the
// lexical grammars of the eight target types and near misses obtained by small
// edits. The generator decides nothing about what is right: every case carries
// its item (the code points), and spec/C13_Judge.tla recomputes the literal
// text, the program suffixes and the expected outcome from the item alone.

var targets = []string{"Boolean", "Integer", "Decimal", "String", "Date", "DateTime", "Time", "Quantity"}

func digits(r *rand.Rand, n int) string {
	var b strings.Builder
	for i := 0; i < n; i++ {
		b.WriteByte(byte('0' + r.Intn(10)))
	}
	return b.String()
}

func pick(r *rand.Rand, xs ...string) string { return xs[r.Intn(len(xs))] }

func randCase(r *rand.Rand, s string) string {
	switch r.Intn(4) {
	case 0:
		return strings.ToUpper(s)
	case 1:
		return strings.ToUpper(s[:1]) + s[1:]
	}
	return s
}

func genBoolean(r *rand.Rand) string {
	return randCase(r, pick(r, "true", "t", "yes", "y", "1", "1.0", "false", "f", "no", "n", "0", "0.0"))
}

func genInteger(r *rand.Rand) string {
	sign := pick(r, "", "", "+", "-")
	switch r.Intn(6) {
	case 0: // around the int32 boundary
		return sign + fmt.Sprint(int64(2147483640)+int64(r.Intn(16)))
	case 1:
		return sign + digits(r, 10+r.Intn(12))
	case 2:
		return sign + strings.Repeat("0", r.Intn(3)) + digits(r, 1+r.Intn(3))
	}
	return sign + digits(r, 1+r.Intn(9))
}

func genDecimal(r *rand.Rand) string {
	sign := pick(r, "", "", "+", "-")
	ip := digits(r, 1+r.Intn(4))
	if r.Intn(8) == 0 {
		ip = digits(r, 12+r.Intn(20))
	}
	fp := digits(r, 1+r.Intn(4))
	if r.Intn(8) == 0 {
		fp = digits(r, 10+r.Intn(20))
	}
	if r.Intn(6) == 0 {
		return sign + ip
	}
	return sign + ip + "." + fp
}

func genDate(r *rand.Rand) string {
	y := pick(r, "2020", "2019", "2000", "1900", "0001", "9999", digits(r, 4))
	mo := fmt.Sprintf("%02d", 1+r.Intn(12))
	d := fmt.Sprintf("%02d", 1+r.Intn(28))
	switch r.Intn(10) {
	case 0:
		mo = pick(r, "00", "13", "99")
	case 1:
		d = pick(r, "00", "29", "30", "31", "32")
	case 2:
		mo, d = "02", pick(r, "28", "29", "30")
	}
	switch r.Intn(4) {
	case 0:
		return y
	case 1:
		return y + "-" + mo
	}
	return y + "-" + mo + "-" + d
}

func genTime(r *rand.Rand) string {
	h := fmt.Sprintf("%02d", r.Intn(24))
	mi := fmt.Sprintf("%02d", r.Intn(60))
	s := fmt.Sprintf("%02d", r.Intn(60))
	switch r.Intn(10) {
	case 0:
		h = pick(r, "24", "25", "99")
	case 1:
		mi = pick(r, "60", "61", "99")
	case 2:
		s = pick(r, "61", "99")
	}
	switch r.Intn(5) {
	case 0:
		return h
	case 1:
		return h + ":" + mi
	case 2:
		return h + ":" + mi + ":" + s
	}
	return h + ":" + mi + ":" + s + "." + digits(r, 3)
}

func genZone(r *rand.Rand) string {
	switch r.Intn(4) {
	case 0:
		return ""
	case 1:
		return "Z"
	}
	return pick(r, "+", "-") + fmt.Sprintf("%02d:%02d", r.Intn(15), pick2(r))
}

func pick2(r *rand.Rand) int { return []int{0, 0, 30, 45, 59}[r.Intn(5)] }

func genDateTime(r *rand.Rand) string {
	d := genDate(r)
	if r.Intn(5) == 0 {
		return d
	}
	return d + "T" + genTime(r) + genZone(r)
}

func genQuantity(r *rand.Rand) string {
	num := genDecimal(r)
	if r.Intn(3) == 0 {
		num = genInteger(r)
	}
	ws := pick(r, " ", " ", " ", "", "  ", "\t")
	unit := pick(r, "mg", "kg", "days", "day", "year", "wk", "km/h", "mm[Hg]", "1", "m2", "g", "weeks", "ms", "a b")
	switch r.Intn(5) {
	case 0:
		return num
	case 1, 2:
		return num + ws + "'" + unit + "'"
	}
	return num + ws + unit
}

const editAlphabet = "0123456789+-.:TZ eE'@/ atz,_"

func mutate(r *rand.Rand, s string) string {
	rs := []rune(s)
	switch r.Intn(8) {
	case 0: // delete
		if len(rs) > 0 {
			i := r.Intn(len(rs))
			rs = append(rs[:i:i], rs[i+1:]...)
		}
	case 1: // insert
		i := r.Intn(len(rs) + 1)
		c := rune(editAlphabet[r.Intn(len(editAlphabet))])
		rs = append(rs[:i:i], append([]rune{c}, rs[i:]...)...)
	case 2: // replace
		if len(rs) > 0 {
			rs[r.Intn(len(rs))] = rune(editAlphabet[r.Intn(len(editAlphabet))])
		}
	case 3: // swap neighbours
		if len(rs) > 1 {
			i := r.Intn(len(rs) - 1)
			rs[i], rs[i+1] = rs[i+1], rs[i]
		}
	case 4: // duplicate a character
		if len(rs) > 0 {
			i := r.Intn(len(rs))
			rs = append(rs[:i:i], append([]rune{rs[i]}, rs[i:]...)...)
		}
	case 5: // pad
		if r.Intn(2) == 0 {
			rs = append([]rune{' '}, rs...)
		} else {
			rs = append(rs, ' ')
		}
	case 6: // truncate
		if len(rs) > 1 {
			rs = rs[:1+r.Intn(len(rs)-1)]
		}
	case 7: // non-ASCII look-alike
		if len(rs) > 0 {
			i := r.Intn(len(rs))
			switch {
			case rs[i] >= '0' && rs[i] <= '9':
				rs[i] = rune(0x0660 + (rs[i] - '0')) // Arabic-Indic digit
			case rs[i] == '-':
				rs[i] = 0x2212 // minus sign
			default:
				rs[i] = 0x00e9
			}
		}
	}
	return string(rs)
}

func escapeLit(s string) string {
	var b strings.Builder
	b.WriteByte('\'')
	for _, c := range s {
		switch c {
		case '\'':
			b.WriteString(`\'`)
		case '\\':
			b.WriteString(`\\`)
		default:
			b.WriteRune(c)
		}
	}
	b.WriteByte('\'')
	return b.String()
}

func suffixes(T string) []prog {
	ps := []prog{
		{"to", ".to" + T + "()"},
		{"conv", ".convertsTo" + T + "()"},
		{"toto", ".to" + T + "().to" + T + "()"},
		{"strto", ".toString().to" + T + "()"},
	}
	if T == "String" { // the generated items are Strings: already of the target type
		ps = append(ps, prog{"strconv", ".toString().convertsToString()"})
	}
	return ps
}

func genCases(n int, path string) {
	r := rand.New(rand.NewSource(lib.Seed()))
	w, err := lib.NewWriter(path)
	if err != nil {
		lib.Fatal("%v", err)
	}
	gens := []func(*rand.Rand) string{genBoolean, genInteger, genDecimal, genDate, genDateTime, genTime, genQuantity}
	seen := map[string]bool{}
	for i := 0; len(seen) < n && i < 20*n; i++ {
		s := gens[r.Intn(len(gens))](r)
		for k := r.Intn(3); k > 0; k-- { // 0, 1 or 2 edits
			s = mutate(r, s)
		}
		if seen[s] || strings.ContainsRune(s, '\v') {
			continue
		}
		seen[s] = true
		cp, _ := lib.CodePoints(s)
		x := map[string]any{"t": "s", "cp": cp}
		sk := []string{"lit", "env", "el"}[len(seen)%3]
		if strings.ContainsAny(s, "\n\r") && sk == "lit" {
			sk = "env"
		}
		if sk == "el" && s == "" {
			sk = "env"
		}
		for _, T := range targets {
			c := caseRec{ID: fmt.Sprintf("g%d-%d.%s.%s", lib.Seed(), len(seen), sk, T), T: T, Sk: sk, X: x, Rc: []int{}, Progs: suffixes(T)}
			switch sk {
			case "lit":
				c.Rc, _ = lib.CodePoints(escapeLit(s))
			case "env":
				c.Ra = "%x"
			case "el":
				c.ID = fmt.Sprintf("g%d-%d.el-string.%s", lib.Seed(), len(seen), T)
				c.Fk, c.Ra = "string", "Parameters.parameter.value"
			}
			if err := w.Write(c); err != nil {
				lib.Fatal("%v", err)
			}
		}
	}
	if err := w.Close(); err != nil {
		lib.Fatal("%v", err)
	}
}
