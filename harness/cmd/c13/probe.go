package main

import (
	"encoding/json"
	"fmt"

	"github.com/verily-src/fhirpath-go/fhirpath/zzverif/lib"
)

// probe evaluates expressions on MR1 and prints the projected outcomes (debug aid).
func probe(exprs []string) {
	patient := lib.LoadModelResource("MR1")
	forest, err := lib.NewForest(patient)
	if err != nil {
		lib.Fatal("%v", err)
	}
	res := lib.AsResources(patient)
	for _, e := range exprs {
		out := lib.EvalOutcome(forest, e, res, nil, nil)
		b, _ := json.Marshal(out)
		fmt.Printf("%-45s %s\n", e, b)
	}
}
