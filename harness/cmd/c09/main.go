// Command c09 replays the C09 case space (date/time arithmetic, quantity
// arithmetic within one unit) against the real code.
//
//	c09 run cases.ndjson obs.ndjson
//
// Every case is executed through several channels and all outcomes are
// recorded for the TLA+ judge (this program never decides what is right):
//
//	lit     the expression text rendered by the specification (literals)
//	env     the same program with both operands supplied as environment
//	        variables built with system.ParseDate/ParseDateTime/ParseTime/
//	        ParseQuantity
//	fhir    the temporal operand taken from a FHIR date/dateTime/time element
//	        of an input resource (Patient.birthDate, Observation.value[x])
//	direct  system.{Date,DateTime,Time,Quantity}.{Add,Sub} called directly
//	eq      ((x op q) op' q) = x   for the inverse-law cases
//	eqr     (x op q) = <literal of the reference result>: the result seen
//	        through the implementation's own equality (hidden components)
//
// A channel that does not apply to a case is {"k":"na"}.
package main

import (
	"encoding/json"
	"fmt"
	"math/big"
	"os"
	"reflect"
	"runtime"
	"sync"

	"github.com/verily-src/fhirpath-go/fhirpath"
	"github.com/verily-src/fhirpath-go/fhirpath/evalopts"
	"github.com/verily-src/fhirpath-go/fhirpath/system"
	"github.com/verily-src/fhirpath-go/fhirpath/zzverif/lib"
)

type temporal struct {
	T   string `json:"t"`
	P   int    `json:"p"`
	Y   int    `json:"y"`
	Mo  int    `json:"mo"`
	D   int    `json:"d"`
	H   int    `json:"h"`
	Mi  int    `json:"mi"`
	Sec int    `json:"sec"`
	Ms  int    `json:"ms"`
	Tz  bool   `json:"tz"`
	Off int    `json:"off"`
}

type qty struct {
	Th   int64  `json:"th"`
	Unit string `json:"unit"`
}

type caseRec struct {
	Kind string   `json:"kind"`
	X    temporal `json:"x"`
	Op   string   `json:"op"`
	Q    qty      `json:"q"`
	Q2   qty      `json:"q2"`
}

type genRec struct {
	ID    string          `json:"id"`
	Cs    json.RawMessage `json:"cs"`
	Text  string          `json:"text"`
	EText string          `json:"etext"`
	FText string          `json:"ftext"`
	QText string          `json:"qtext"`
	RText string          `json:"rtext"`
	Xs    string          `json:"xs"`
	N1    string          `json:"n1"`
	N2    string          `json:"n2"`
}

func na() lib.Outcome { return lib.Outcome{"k": "na"} }

// lexical renders the abstract temporal item in the lexical form shared by
// FHIRPath (after '@' / '@T') and FHIR JSON. This is the harness's own
// concretisation; the specification renders the literal text independently and
// the two are cross-checked through the projection (chk.x).
func lexical(x temporal) string {
	date := fmt.Sprintf("%04d", x.Y)
	dp := x.P
	if dp >= 2 {
		date += fmt.Sprintf("-%02d", x.Mo)
	}
	if dp >= 3 {
		date += fmt.Sprintf("-%02d", x.D)
	}
	tm := ""
	if x.P >= 4 {
		tm = fmt.Sprintf("%02d", x.H)
	}
	if x.P >= 5 {
		tm += fmt.Sprintf(":%02d", x.Mi)
	}
	if x.P >= 6 {
		tm += fmt.Sprintf(":%02d", x.Sec)
	}
	if x.P >= 7 {
		tm += fmt.Sprintf(".%03d", x.Ms)
	}
	switch x.T {
	case "date":
		return date
	case "time":
		return tm
	}
	s := date + "T" + tm
	if x.Tz {
		if x.Off == 0 {
			s += "Z"
		} else {
			o, sign := x.Off, "+"
			if o < 0 {
				o, sign = -o, "-"
			}
			s += fmt.Sprintf("%s%02d:%02d", sign, o/60, o%60)
		}
	}
	return s
}

// sameTemporal compares a projected item with the abstract operand of the case.
func sameTemporal(it lib.Item, x temporal) bool {
	b, err := json.Marshal(it)
	if err != nil {
		return false
	}
	var got temporal
	if err := json.Unmarshal(b, &got); err != nil {
		return false
	}
	return reflect.DeepEqual(got, x)
}

func sameQuantity(it lib.Item, q qty) bool {
	want := lib.QtyItem(lib.DecFromBig(big.NewInt(q.Th), -3), q.Unit)
	a, _ := json.Marshal(it)
	b, _ := json.Marshal(want)
	return string(a) == string(b)
}

func parseX(x temporal) (system.Any, error) {
	s := lexical(x)
	switch x.T {
	case "date":
		return system.ParseDate(s)
	case "dt":
		return system.ParseDateTime(s)
	case "time":
		return system.ParseTime(s)
	}
	return nil, fmt.Errorf("unknown temporal kind %q", x.T)
}

// fhirResource builds the input resource carrying x as a FHIR element.
func fhirResource(x temporal) string {
	s := lexical(x)
	switch x.T {
	case "date":
		return fmt.Sprintf(`{"resourceType":"Patient","id":"p","birthDate":%q}`, s)
	case "dt":
		if x.P <= 3 {
			s = s[:len(s)-1] // FHIR partial dateTimes carry no 'T'
		}
		return fmt.Sprintf(`{"resourceType":"Observation","id":"o","status":"final","code":{"text":"c"},"valueDateTime":%q}`, s)
	default:
		return fmt.Sprintf(`{"resourceType":"Observation","id":"o","status":"final","code":{"text":"c"},"valueTime":%q}`, s)
	}
}

type fhirInput struct {
	forest *lib.Forest
	res    []lib.Resource
}

var (
	fhirMu    sync.Mutex
	fhirCache = map[string]*fhirInput{}
)

func fhirFor(x temporal) *fhirInput {
	js := fhirResource(x)
	fhirMu.Lock()
	defer fhirMu.Unlock()
	if fi, ok := fhirCache[js]; ok {
		return fi
	}
	m, err := lib.ParseResource([]byte(js))
	if err != nil {
		lib.Fatal("cannot build the FHIR input %s: %v", js, err)
	}
	forest, err := lib.NewForest(m)
	if err != nil {
		lib.Fatal("cannot annotate %s: %v", js, err)
	}
	fi := &fhirInput{forest: forest, res: lib.AsResources(m)}
	fhirCache[js] = fi
	return fi
}

// guarded runs one direct API call under recover and the deadline.
func guarded(fn func() (system.Any, error)) lib.Outcome {
	var out lib.Outcome
	rep := lib.SafeRetry(func() {
		out = nil
		v, err := fn()
		if err != nil {
			out = lib.ErrOutcome("err", err)
			return
		}
		out = lib.OkOutcome([]lib.Item{lib.SystemItem(v)})
	})
	if rep.Timeout {
		return lib.TimeoutOutcome()
	}
	if rep.Panic != "" {
		return lib.PanicOutcome(rep)
	}
	return out
}

func addSub(x system.Any, op string, q system.Quantity) (system.Any, error) {
	switch v := x.(type) {
	case system.Date:
		if op == "+" {
			return v.Add(q)
		}
		return v.Sub(q)
	case system.DateTime:
		if op == "+" {
			return v.Add(q)
		}
		return v.Sub(q)
	case system.Time:
		if op == "+" {
			return v.Add(q)
		}
		return v.Sub(q)
	case system.Quantity:
		if op == "+" {
			return v.Add(q)
		}
		return v.Sub(q)
	}
	return nil, fmt.Errorf("harness: no direct %s for %T", op, x)
}

func other(op string) string {
	if op == "+" {
		return "-"
	}
	return "+"
}

func main() {
	if len(os.Args) != 4 || os.Args[1] != "run" {
		lib.Fatal("usage: c09 run cases.ndjson obs.ndjson")
	}
	var cases []genRec
	if err := lib.ReadNDJSON(os.Args[2], func(b []byte) error {
		var g genRec
		if err := json.Unmarshal(b, &g); err != nil {
			return err
		}
		cases = append(cases, g)
		return nil
	}); err != nil {
		lib.Fatal("%v", err)
	}
	w, err := lib.NewWriter(os.Args[3])
	if err != nil {
		lib.Fatal("%v", err)
	}
	lib.ParallelMap(len(cases), runtime.NumCPU(), func(i int) {
		g := cases[i]
		var c caseRec
		if err := json.Unmarshal(g.Cs, &c); err != nil {
			lib.Fatal("case %s: %v", g.ID, err)
		}
		outs := map[string]lib.Outcome{"lit": na(), "env": na(), "fhir": na(), "direct": na(), "eq": na(), "eqr": na()}
		chkX, chkQ := true, true

		q1, err := system.ParseQuantity(g.N1, c.Q.Unit)
		if err != nil {
			lib.Fatal("case %s: quantity %q %q: %v", g.ID, g.N1, c.Q.Unit, err)
		}
		q2, err := system.ParseQuantity(g.N2, c.Q2.Unit)
		if err != nil {
			lib.Fatal("case %s: quantity %q %q: %v", g.ID, g.N2, c.Q2.Unit, err)
		}
		chkQ = sameQuantity(lib.SystemItem(q1), c.Q) && sameQuantity(lib.SystemItem(q2), c.Q2)
		env := func(x system.Any) []fhirpath.EvaluateOption {
			o := []fhirpath.EvaluateOption{evalopts.EnvVariable("q", q1), evalopts.EnvVariable("r", q2)}
			if x != nil {
				o = append(o, evalopts.EnvVariable("x", x))
			}
			return o
		}

		if c.Kind == "qq" {
			outs["lit"] = lib.EvalOutcome(nil, g.Text, nil, nil, nil)
			outs["env"] = lib.EvalOutcome(nil, g.EText, nil, nil, env(nil))
			if c.Op == "+" || c.Op == "-" {
				outs["direct"] = guarded(func() (system.Any, error) { return addSub(q1, c.Op, q2) })
			}
		} else {
			x, err := parseX(c.X)
			if err != nil {
				lib.Fatal("case %s: operand %q: %v", g.ID, lexical(c.X), err)
			}
			// the operand as parsed by system.Parse* and as written by the specification's literal
			chkX = sameTemporal(lib.SystemItem(x), c.X)
			if lo := lib.EvalOutcome(nil, g.Xs, nil, nil, nil); lo["k"] != "ok" || len(lo["items"].([]lib.Item)) != 1 || !sameTemporal(lo["items"].([]lib.Item)[0], c.X) {
				chkX = false
			}
			outs["lit"] = lib.EvalOutcome(nil, g.Text, nil, nil, nil)
			outs["env"] = lib.EvalOutcome(nil, g.EText, nil, nil, env(x))
			if g.FText != "" {
				fi := fhirFor(c.X)
				outs["fhir"] = lib.EvalOutcome(fi.forest, g.FText, fi.res, nil, nil)
			}
			switch c.Kind {
			case "ar":
				outs["direct"] = guarded(func() (system.Any, error) { return addSub(x, c.Op, q1) })
				if g.RText != "" {
					outs["eqr"] = lib.EvalOutcome(nil, g.RText, nil, nil, nil)
				}
			case "inv":
				outs["direct"] = guarded(func() (system.Any, error) {
					y, err := addSub(x, c.Op, q1)
					if err != nil {
						return nil, err
					}
					return addSub(y, other(c.Op), q1)
				})
				outs["eq"] = lib.EvalOutcome(nil, g.QText, nil, nil, nil)
			}
		}
		for _, o := range outs { // keep the records small: the judge never looks at error texts
			delete(o, "cls")
			if m, ok := o["msg"].(string); ok && len(m) > 48 {
				o["msg"] = m[:48]
			}
		}
		rec := map[string]any{"id": g.ID, "cs": g.Cs, "src": g.Text, "outs": outs, "chk": map[string]bool{"x": chkX, "q": chkQ}}
		if err := w.Write(rec); err != nil {
			lib.Fatal("%v", err)
		}
	})
	if err := w.Close(); err != nil {
		lib.Fatal("%v", err)
	}
}
