// Command c14 replays C14 cases (string functions over code points) against
// the real code.
//
//	c14 run cases.ndjson obs.ndjson
//
// A case is {id, cs:{fn, rk, s, a}, toks}. The source text is the
// specification's rendering: toks is a list of {a, cp} (ASCII text followed by
// code points); this command only joins them, writing the code points as
// UTF-8. The receiver kind rk and the argument sources say which environment
// variables / which Patient the expression is evaluated with:
//
//	%r   the receiver string as a System.String or a FHIR primitive
//	%p1  %p2  string / integer arguments passed by variable
//	%e   an empty collection     %ms two strings     %mi two integers
//	%fi  a FHIR integer
//	Patient: id, language, implicitRules, name[0].family, name[0].given (x2),
//	         extension[0].valueMarkdown all hold the receiver string
//	         (and gender, an enum-backed code, for the elGender receiver)
//
// Nothing here decides what is right: the observation is the projected outcome.
package main

import (
	"encoding/json"
	"fmt"
	"os"
	"runtime"
	"strings"

	dtpb "github.com/google/fhir/go/proto/google/fhir/proto/r4/core/datatypes_go_proto"
	ppb "github.com/google/fhir/go/proto/google/fhir/proto/r4/core/resources/patient_go_proto"
	"github.com/verily-src/fhirpath-go/fhirpath"
	"github.com/verily-src/fhirpath-go/fhirpath/evalopts"
	"github.com/verily-src/fhirpath-go/fhirpath/system"
	"github.com/verily-src/fhirpath-go/fhirpath/zzverif/lib"
	"google.golang.org/protobuf/proto"
)

type tok struct {
	A  string `json:"a"`
	Cp []int  `json:"cp"`
}
type arg struct {
	K   string `json:"k"`
	Src string `json:"src"`
	Cp  []int  `json:"cp"`
	I   int64  `json:"i"`
}
type caseRec struct {
	Fn string `json:"fn"`
	Rk string `json:"rk"`
	S  []int  `json:"s"`
	A  []arg  `json:"a"`
}
type genRec struct {
	ID   string          `json:"id"`
	Cs   json.RawMessage `json:"cs"`
	Toks []tok           `json:"toks"`
}

func join(toks []tok) string {
	var b strings.Builder
	for _, t := range toks {
		b.WriteString(t.A)
		b.WriteString(lib.FromCodePoints(t.Cp))
	}
	return b.String()
}

// readable renders a source text in ASCII for the observation record (TLC's
// JSON reader is only trusted with ASCII); the exact text is toks.
func readable(s string) string {
	var b strings.Builder
	for _, r := range s {
		if r < 32 || r > 126 || r == '"' || r == '\\' {
			fmt.Fprintf(&b, "<U+%04X>", r)
		} else {
			b.WriteRune(r)
		}
	}
	return b.String()
}

func fhirString(kind, s string) (proto.Message, bool) {
	switch kind {
	case "fString":
		return &dtpb.String{Value: s}, true
	case "fCode":
		return &dtpb.Code{Value: s}, true
	case "fId":
		return &dtpb.Id{Value: s}, true
	case "fMarkdown":
		return &dtpb.Markdown{Value: s}, true
	case "fUri":
		return &dtpb.Uri{Value: s}, true
	case "fUrl":
		return &dtpb.Url{Value: s}, true
	case "fCanonical":
		return &dtpb.Canonical{Value: s}, true
	case "fOid":
		return &dtpb.Oid{Value: s}, true
	case "fUuid":
		return &dtpb.Uuid{Value: s}, true
	}
	return nil, false
}

// patientJSON is the Patient every element receiver is read from, as FHIR
// JSON (parsed with jsonformat, no validation). The id is set on the parsed
// message afterwards: jsonformat checks the id grammar even without validation.
func patientJSON(s string, gender bool) []byte {
	m := map[string]any{
		"resourceType":  "Patient",
		"language":      s,
		"implicitRules": s,
		"active":        true,
		"name":          []any{map[string]any{"family": s, "given": []any{s, s}}},
		"extension":     []any{map[string]any{"url": "http://example.org/note", "valueMarkdown": s}},
	}
	if gender {
		m["gender"] = s // a required binding: s must be one of the four administrative-gender codes
	}
	b, err := json.Marshal(m)
	if err != nil {
		lib.Fatal("patient json: %v", err)
	}
	return b
}

// patientProto is the same Patient built directly (used when the string is
// empty, which FHIR JSON cannot carry).
func patientProto(s string) *ppb.Patient {
	return &ppb.Patient{
		Id:            &dtpb.Id{Value: s},
		Language:      &dtpb.Code{Value: s},
		ImplicitRules: &dtpb.Uri{Value: s},
		Active:        &dtpb.Boolean{Value: true},
		Name:          []*dtpb.HumanName{{Family: &dtpb.String{Value: s}, Given: []*dtpb.String{{Value: s}, {Value: s}}}},
		Extension: []*dtpb.Extension{{
			Url:   &dtpb.Uri{Value: "http://example.org/note"},
			Value: &dtpb.Extension_ValueX{Choice: &dtpb.Extension_ValueX_Markdown{Markdown: &dtpb.Markdown{Value: s}}},
		}},
	}
}

func needsPatient(rk string) bool {
	return strings.HasPrefix(rk, "el") || rk == "emptyEl" || rk == "multiEl" || rk == "xComplex" || rk == "xFhirBool"
}

func main() {
	if len(os.Args) != 4 || os.Args[1] != "run" {
		lib.Fatal("usage: c14 run cases.ndjson obs.ndjson")
	}
	var cases []genRec
	if err := lib.ReadNDJSON(os.Args[2], func(b []byte) error {
		var g genRec
		if err := json.Unmarshal(b, &g); err != nil {
			return err
		}
		cases = append(cases, g)
		return nil
	}); err != nil {
		lib.Fatal("%v", err)
	}
	w, err := lib.NewWriter(os.Args[3])
	if err != nil {
		lib.Fatal("%v", err)
	}
	lib.ParallelMap(len(cases), runtime.NumCPU(), func(i int) {
		g := cases[i]
		var c caseRec
		if err := json.Unmarshal(g.Cs, &c); err != nil {
			lib.Fatal("case %s: %v", g.ID, err)
		}
		s := lib.FromCodePoints(c.S)
		if cps, ok := lib.CodePoints(s); !ok || len(cps) != len(c.S) {
			lib.Fatal("case %s: receiver is not a well-formed string", g.ID)
		}
		src := join(g.Toks)
		opts := []fhirpath.EvaluateOption{
			evalopts.EnvVariable("e", system.Collection{}),
			evalopts.EnvVariable("ms", system.Collection{system.String(s), system.String(s)}),
			evalopts.EnvVariable("mi", system.Collection{system.Integer(0), system.Integer(1)}),
			evalopts.EnvVariable("fi", &dtpb.Integer{Value: 7}),
		}
		if c.Rk == "env" {
			opts = append(opts, evalopts.EnvVariable("r", system.String(s)))
		} else if m, ok := fhirString(c.Rk, s); ok {
			opts = append(opts, evalopts.EnvVariable("r", m))
		}
		for j, a := range c.A {
			name := fmt.Sprintf("p%d", j+1)
			switch {
			case a.K == "s" && a.Src == "env":
				opts = append(opts, evalopts.EnvVariable(name, system.String(lib.FromCodePoints(a.Cp))))
			case a.K == "s" && a.Src == "fenv":
				opts = append(opts, evalopts.EnvVariable(name, &dtpb.String{Value: lib.FromCodePoints(a.Cp)}))
			case a.K == "i" && a.Src == "env":
				opts = append(opts, evalopts.EnvVariable(name, system.Integer(int32(a.I))))
			case a.K == "i" && a.Src == "fenv":
				opts = append(opts, evalopts.EnvVariable(name, &dtpb.Integer{Value: int32(a.I)}))
			}
			if a.K == "i" && int64(int32(a.I)) != a.I {
				lib.Fatal("case %s: integer argument outside int32", g.ID)
			}
		}
		var res []lib.Resource
		how := "none"
		if needsPatient(c.Rk) {
			var p proto.Message
			if s != "" {
				m, err := lib.ParseResource(patientJSON(s, c.Rk == "elGender"))
				if err != nil && c.Rk == "elGender" {
					lib.Fatal("case %s: cannot build a Patient with gender %q: %v", g.ID, s, err)
				}
				if err == nil {
					if pt, ok := m.(*ppb.Patient); ok {
						pt.Id = &dtpb.Id{Value: s}
						p, how = pt, "jsonformat"
					}
				}
			}
			if p == nil {
				p, how = patientProto(s), "proto"
			}
			res = lib.AsResources(p)
		}
		rec := map[string]any{"id": g.ID, "cs": g.Cs, "src": readable(src), "res": how}
		rec["out"] = lib.EvalOutcome(nil, src, res, nil, opts)
		if err := w.Write(rec); err != nil {
			lib.Fatal("%v", err)
		}
	})
	if err := w.Close(); err != nil {
		lib.Fatal("%v", err)
	}
}
