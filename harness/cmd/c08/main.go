// Command c08 replays the C08 case space (exact Integer/Decimal arithmetic)
// against the real code, and cross-checks the TLA+ judge against math/big.
//
//	c08 run    cases.ndjson obs.ndjson
//	c08 xcheck obs.ndjson verdicts.ndjson report.json
//
// `run` concretises every case (literals are already in the text the
// specification rendered; variables %a / %b are bound to System values or FHIR
// primitives; "res" operands are elements of a Patient built from FHIR JSON),
// evaluates the whole expression and each operand alone through the public
// API, and projects the results. It never decides whether a result is right.
//
// `xcheck` recomputes, with math/big, whether every outcome the TLA+ judge
// ACCEPTED and every witness it PROPOSED is permitted. A disagreement is a bug
// of the specification (or of this cross-check), never a verdict about the
// code: the driver turns it into exit 2.
package main

import (
	"encoding/json"
	"fmt"
	"math/big"
	"os"
	"runtime"
	"strings"

	dtpb "github.com/google/fhir/go/proto/google/fhir/proto/r4/core/datatypes_go_proto"
	"github.com/shopspring/decimal"
	"github.com/verily-src/fhirpath-go/fhirpath"
	"github.com/verily-src/fhirpath-go/fhirpath/evalopts"
	"github.com/verily-src/fhirpath-go/fhirpath/system"
	"github.com/verily-src/fhirpath-go/fhirpath/zzverif/lib"
)

type operand struct {
	T   string `json:"t"`
	I   int64  `json:"i"`
	Neg bool   `json:"neg"`
	Ds  []int  `json:"ds"`
	Sc  int    `json:"sc"`
	Src string `json:"src"`
	Ft  string `json:"ft"`
}

type caseRec struct {
	Op string  `json:"op"`
	L  operand `json:"l"`
	R  operand `json:"r"`
	P  int     `json:"p"`
}

type genRec struct {
	ID    string          `json:"id"`
	Cs    json.RawMessage `json:"cs"`
	Text  string          `json:"text"`
	LText string          `json:"ltext"`
	RText string          `json:"rtext"`
	Exp   json.RawMessage `json:"exp,omitempty"`
}

func main() {
	if len(os.Args) >= 2 && os.Args[1] == "run" && len(os.Args) == 4 {
		run(os.Args[2], os.Args[3])
		return
	}
	if len(os.Args) >= 2 && os.Args[1] == "xcheck" && len(os.Args) == 5 {
		xcheck(os.Args[2], os.Args[3], os.Args[4])
		return
	}
	lib.Fatal("usage: c08 run cases.ndjson obs.ndjson | c08 xcheck obs.ndjson verdicts.ndjson report.json")
}

// ---------------------------------------------------------------- concretise

// coefficient of a decimal operand: the integer spelled by its digits, signed.
func (o operand) coef() *big.Int {
	c := new(big.Int)
	ten := big.NewInt(10)
	for _, d := range o.Ds {
		if d < 0 || d > 9 {
			lib.Fatal("bad digit %d", d)
		}
		c.Mul(c, ten)
		c.Add(c, big.NewInt(int64(d)))
	}
	if o.Neg {
		c.Neg(c)
	}
	return c
}

// plain decimal text [-]digits[.digits] (the FHIR decimal lexical form)
func (o operand) decText() string {
	var b strings.Builder
	if o.Neg {
		b.WriteByte('-')
	}
	n := len(o.Ds)
	for k, d := range o.Ds {
		if k == n-o.Sc && o.Sc > 0 {
			b.WriteByte('.')
		}
		b.WriteByte(byte('0' + d))
	}
	return b.String()
}

func (o operand) systemValue() system.Any {
	if o.T == "i" {
		return system.Integer(int32(o.I))
	}
	return system.Decimal(decimal.NewFromBigInt(o.coef(), int32(-o.Sc)))
}

func (o operand) protoValue() any {
	switch o.Ft {
	case "integer":
		return &dtpb.Integer{Value: int32(o.I)}
	case "positiveInt":
		return &dtpb.PositiveInt{Value: uint32(o.I)}
	case "unsignedInt":
		return &dtpb.UnsignedInt{Value: uint32(o.I)}
	case "decimal":
		return &dtpb.Decimal{Value: o.decText()}
	}
	lib.Fatal("no proto for ft %q", o.Ft)
	return nil
}

func (o operand) check() {
	switch o.T {
	case "i":
		if o.I < -2147483648 || o.I > 2147483647 {
			lib.Fatal("integer operand out of int32: %d", o.I)
		}
		if (o.Ft == "positiveInt" && o.I < 1) || (o.Ft == "unsignedInt" && o.I < 0) {
			lib.Fatal("operand %d invalid for %s", o.I, o.Ft)
		}
	case "d":
		if len(o.Ds) == 0 || o.Sc < 0 || o.Sc >= len(o.Ds) {
			lib.Fatal("bad decimal operand %+v", o)
		}
	case "none":
	default:
		lib.Fatal("bad operand kind %q", o.T)
	}
}

// jsonNumber is the JSON text of the operand's value.
func (o operand) jsonNumber() string {
	if o.T == "i" {
		return fmt.Sprintf("%d", o.I)
	}
	return o.decText()
}

// patientJSON builds the input Patient; slot 0 = left operand, 1 = right.
func patientJSON(ops [2]*operand) []byte {
	ext := [2]string{`"valueInteger":0`, `"valueInteger":0`}
	rank := [2]string{"1", "2"}
	size := [2]string{"0", "0"}
	for k, o := range ops {
		if o == nil || o.Src != "res" {
			continue
		}
		switch o.Ft {
		case "integer":
			ext[k] = `"valueInteger":` + o.jsonNumber()
		case "decimal":
			ext[k] = `"valueDecimal":` + o.jsonNumber()
		case "positiveInt":
			rank[k] = o.jsonNumber()
		case "unsignedInt":
			size[k] = o.jsonNumber()
		}
	}
	return []byte(`{"resourceType":"Patient","id":"c08",` +
		`"extension":[{"url":"http://verif.example/left",` + ext[0] + `},{"url":"http://verif.example/right",` + ext[1] + `}],` +
		`"telecom":[{"system":"phone","value":"1","rank":` + rank[0] + `},{"system":"phone","value":"2","rank":` + rank[1] + `}],` +
		`"photo":[{"contentType":"image/png","size":` + size[0] + `},{"contentType":"image/png","size":` + size[1] + `}]}`)
}

type input struct {
	forest *lib.Forest
	res    []lib.Resource
}

func buildInput(ops [2]*operand) input {
	msg, err := lib.ParseResource(patientJSON(ops))
	if err != nil {
		lib.Fatal("input Patient does not parse: %v", err)
	}
	f, err := lib.NewForest(msg)
	if err != nil {
		lib.Fatal("annotate: %v", err)
	}
	return input{forest: f, res: lib.AsResources(msg)}
}

func run(casesPath, obsPath string) {
	var cases []genRec
	if err := lib.ReadNDJSON(casesPath, func(b []byte) error {
		var g genRec
		if err := json.Unmarshal(b, &g); err != nil {
			return err
		}
		g.Cs = append(json.RawMessage{}, g.Cs...)
		g.Exp = append(json.RawMessage{}, g.Exp...)
		cases = append(cases, g)
		return nil
	}); err != nil {
		lib.Fatal("%v", err)
	}
	shared := buildInput([2]*operand{nil, nil})
	w, err := lib.NewWriter(obsPath)
	if err != nil {
		lib.Fatal("%v", err)
	}
	lib.ParallelMap(len(cases), runtime.NumCPU(), func(i int) {
		g := cases[i]
		var c caseRec
		if err := json.Unmarshal(g.Cs, &c); err != nil {
			lib.Fatal("case %s: %v", g.ID, err)
		}
		c.L.check()
		c.R.check()
		in := shared
		if c.L.Src == "res" || c.R.Src == "res" {
			in = buildInput([2]*operand{&c.L, &c.R})
		}
		env := func() []fhirpath.EvaluateOption {
			var opts []fhirpath.EvaluateOption
			for k, o := range []operand{c.L, c.R} {
				name := "a"
				if k == 1 {
					name = "b"
				}
				switch o.Src {
				case "env":
					opts = append(opts, evalopts.EnvVariable(name, o.systemValue()))
				case "pb":
					opts = append(opts, evalopts.EnvVariable(name, o.protoValue()))
				}
			}
			return opts
		}
		rec := map[string]any{"id": g.ID, "cs": g.Cs, "text": g.Text, "ltext": g.LText, "rtext": g.RText}
		if len(g.Exp) > 0 {
			rec["exp"] = g.Exp
		}
		rec["out"] = lib.EvalOutcome(in.forest, g.Text, in.res, nil, env())
		rec["lout"] = lib.EvalOutcome(in.forest, g.LText, in.res, nil, env())
		if c.R.T != "none" {
			rec["rout"] = lib.EvalOutcome(in.forest, g.RText, in.res, nil, env())
		} else {
			rec["rout"] = lib.Outcome{"k": "none"}
		}
		if err := w.Write(rec); err != nil {
			lib.Fatal("%v", err)
		}
	})
	if err := w.Close(); err != nil {
		lib.Fatal("%v", err)
	}
}

// ---------------------------------------------------------------- math/big reference (cross-check only)

type num struct {
	isInt bool
	v     *big.Rat
}

func (o operand) num() num {
	if o.T == "i" {
		return num{true, new(big.Rat).SetInt64(o.I)}
	}
	den := new(big.Int).Exp(big.NewInt(10), big.NewInt(int64(o.Sc)), nil)
	return num{false, new(big.Rat).SetFrac(o.coef(), den)}
}

type item struct {
	T   string `json:"t"`
	I   int64  `json:"i"`
	Neg bool   `json:"neg"`
	M   []int  `json:"m"`
	E   int    `json:"e"`
}

func (x item) num() (num, bool) {
	switch x.T {
	case "i":
		return num{true, new(big.Rat).SetInt64(x.I)}, true
	case "d":
		c := new(big.Int)
		base := big.NewInt(10000)
		for k := len(x.M) - 1; k >= 0; k-- {
			c.Mul(c, base)
			c.Add(c, big.NewInt(int64(x.M[k])))
		}
		if x.Neg {
			c.Neg(c)
		}
		r := new(big.Rat).SetInt(c)
		p := new(big.Int).Exp(big.NewInt(10), big.NewInt(int64(abs(x.E))), nil)
		if x.E >= 0 {
			r.Mul(r, new(big.Rat).SetInt(p))
		} else {
			r.Quo(r, new(big.Rat).SetInt(p))
		}
		return num{false, r}, true
	}
	return num{}, false
}

func abs(x int) int {
	if x < 0 {
		return -x
	}
	return x
}

var (
	ratMin32 = new(big.Rat).SetInt64(-2147483648)
	ratMax32 = new(big.Rat).SetInt64(2147483647)
	ratOne   = big.NewRat(1, 1)
	ratHalf  = big.NewRat(1, 2)
)

func fits32(r *big.Rat) bool { return r.IsInt() && r.Cmp(ratMin32) >= 0 && r.Cmp(ratMax32) <= 0 }

func pow10(k int) *big.Rat {
	p := new(big.Rat).SetInt(new(big.Int).Exp(big.NewInt(10), big.NewInt(int64(abs(k))), nil))
	if k < 0 {
		p.Inv(p)
	}
	return p
}

// truncated quotient of a by b (b != 0)
func truncQuot(a, b *big.Rat) *big.Rat {
	q := new(big.Rat).Quo(a, b)
	n := new(big.Int).Quo(q.Num(), q.Denom()) // big.Int.Quo truncates toward zero
	return new(big.Rat).SetInt(n)
}

func floorRat(x *big.Rat) *big.Rat {
	n := new(big.Int).Div(x.Num(), x.Denom()) // Euclidean: floor for positive denominators
	return new(big.Rat).SetInt(n)
}

// reference is the math/big statement of what C08 permits for a case.
type reference struct {
	hasVal   bool
	exact    *big.Rat // demanded value when !quot
	valInt   bool     // demanded kind (ignored when anyKind)
	anyKind  bool
	intOrDec bool // Integer required only when both operands are Integers (decimal div)
	quot     bool // `/`: any decimal within |b| * 10^-16
	a, b     *big.Rat
	tieAlt   *big.Rat // second permitted value of round at a negative tie
	orEmpty  bool
	orErr    bool
}

func refOf(c caseRec) reference {
	A := c.L.num()
	switch c.Op {
	case "+", "-", "*", "/", "div", "mod":
		B := c.R.num()
		both := A.isInt && B.isInt
		switch c.Op {
		case "+", "-", "*":
			r := new(big.Rat)
			switch c.Op {
			case "+":
				r.Add(A.v, B.v)
			case "-":
				r.Sub(A.v, B.v)
			case "*":
				r.Mul(A.v, B.v)
			}
			if both && !fits32(r) {
				return reference{orEmpty: true}
			}
			return reference{hasVal: true, exact: r, valInt: both}
		case "/":
			if B.v.Sign() == 0 {
				return reference{orEmpty: true}
			}
			return reference{hasVal: true, quot: true, a: A.v, b: B.v}
		case "div":
			if B.v.Sign() == 0 {
				return reference{orEmpty: true}
			}
			q := truncQuot(A.v, B.v)
			if !fits32(q) {
				return reference{orEmpty: true}
			}
			return reference{hasVal: true, exact: q, valInt: true, intOrDec: !both}
		case "mod":
			if B.v.Sign() == 0 {
				return reference{orEmpty: true}
			}
			q := truncQuot(A.v, B.v)
			r := new(big.Rat).Sub(A.v, new(big.Rat).Mul(q, B.v))
			return reference{hasVal: true, exact: r, valInt: both, orEmpty: !fits32(q)}
		}
	case "neg", "abs":
		r := new(big.Rat).Neg(A.v)
		if c.Op == "abs" {
			r = new(big.Rat).Abs(A.v)
		}
		if A.isInt && !fits32(r) {
			return reference{orEmpty: true}
		}
		return reference{hasVal: true, exact: r, valInt: A.isInt}
	case "floor", "ceiling", "truncate":
		f := floorRat(A.v)
		var r *big.Rat
		switch c.Op {
		case "floor":
			r = f
		case "ceiling":
			r = new(big.Rat).Neg(floorRat(new(big.Rat).Neg(A.v)))
		case "truncate":
			if A.v.Sign() < 0 {
				r = new(big.Rat).Neg(floorRat(new(big.Rat).Neg(A.v)))
			} else {
				r = f
			}
		}
		if !fits32(r) {
			return reference{orEmpty: true, orErr: true}
		}
		return reference{hasVal: true, exact: r, valInt: true}
	case "round", "roundp":
		p := 0
		if c.Op == "roundp" {
			p = c.P
		}
		if p < 0 {
			return reference{orEmpty: true, orErr: true}
		}
		scale := pow10(p)
		x := new(big.Rat).Mul(new(big.Rat).Abs(A.v), scale)
		f := floorRat(x)
		frac := new(big.Rat).Sub(x, f)
		r := f
		var alt *big.Rat
		switch frac.Cmp(ratHalf) {
		case 1:
			r = new(big.Rat).Add(f, ratOne)
		case 0:
			r = new(big.Rat).Add(f, ratOne) // away from zero
			if A.v.Sign() < 0 {
				alt = new(big.Rat).Neg(new(big.Rat).Quo(f, scale)) // half up for a negative tie
			}
		}
		r = new(big.Rat).Quo(r, scale)
		if A.v.Sign() < 0 {
			r.Neg(r)
		}
		huge := !(A.v.Cmp(new(big.Rat).Sub(ratMin32, ratOne)) > 0 && A.v.Cmp(new(big.Rat).Add(ratMax32, ratOne)) < 0)
		return reference{hasVal: true, exact: r, anyKind: true, tieAlt: alt, orEmpty: huge, orErr: huge}
	}
	lib.Fatal("unknown operator %q", c.Op)
	return reference{}
}

func (r reference) acceptsValue(v num) bool {
	if !r.hasVal {
		return false
	}
	if r.quot {
		if v.isInt {
			return false
		}
		d := new(big.Rat).Sub(new(big.Rat).Mul(v.v, r.b), r.a)
		d.Abs(d)
		lim := new(big.Rat).Mul(new(big.Rat).Abs(r.b), pow10(-16))
		return d.Cmp(lim) <= 0
	}
	if !r.anyKind {
		if r.intOrDec {
			// either kind
		} else if v.isInt != r.valInt {
			return false
		}
	}
	if v.v.Cmp(r.exact) == 0 {
		return true
	}
	return r.tieAlt != nil && v.v.Cmp(r.tieAlt) == 0
}

type outcome struct {
	K     string `json:"k"`
	Items []item `json:"items"`
}

func (r reference) permits(o outcome) bool {
	switch o.K {
	case "ok":
		if len(o.Items) == 0 {
			return r.orEmpty
		}
		if len(o.Items) != 1 {
			return false
		}
		v, ok := o.Items[0].num()
		return ok && r.acceptsValue(v)
	case "err":
		return r.orErr
	}
	return false
}

type witness struct {
	K       string `json:"k"`
	Items   []item `json:"items"`
	Typ     string `json:"typ"`
	OrEmpty bool   `json:"orEmpty"`
	OrErr   bool   `json:"orErr"`
}

func (r reference) agreesWithWitness(w witness) string {
	if w.OrEmpty != r.orEmpty {
		return fmt.Sprintf("orEmpty: spec %v, math/big %v", w.OrEmpty, r.orEmpty)
	}
	if w.OrErr != r.orErr {
		return fmt.Sprintf("orErr: spec %v, math/big %v", w.OrErr, r.orErr)
	}
	if (len(w.Items) == 1) != r.hasVal {
		return fmt.Sprintf("value proposed: spec %v, math/big %v", len(w.Items) == 1, r.hasVal)
	}
	if len(w.Items) == 1 {
		v, ok := w.Items[0].num()
		if !ok {
			return "witness is not a number"
		}
		v.isInt = w.Typ == "Integer"
		if !r.acceptsValue(v) {
			return "math/big does not accept the witness value " + v.v.RatString()
		}
		if !r.quot && r.tieAlt == nil && v.v.Cmp(r.exact) != 0 {
			return "witness differs from the math/big value " + r.exact.RatString()
		}
	}
	return ""
}

type obsRec struct {
	ID  string          `json:"id"`
	Cs  caseRec         `json:"cs"`
	Out outcome         `json:"out"`
	Exp json.RawMessage `json:"exp"`
}

type verdictRec struct {
	ID   string          `json:"id"`
	Ok   bool            `json:"ok"`
	Why  string          `json:"why"`
	Sig  string          `json:"sig"`
	Want json.RawMessage `json:"want"`
}

func xcheck(obsPath, verdictPath, reportPath string) {
	verdicts := map[string]verdictRec{}
	if err := lib.ReadNDJSON(verdictPath, func(b []byte) error {
		var v verdictRec
		if err := json.Unmarshal(b, &v); err != nil {
			return err
		}
		v.Want = append(json.RawMessage{}, v.Want...)
		verdicts[v.ID] = v
		return nil
	}); err != nil {
		lib.Fatal("%v", err)
	}
	type dis struct {
		ID   string `json:"id"`
		What string `json:"what"`
	}
	var out struct {
		Outcomes      int   `json:"outcomes_checked"`
		Witnesses     int   `json:"witnesses_checked"`
		Disagreements []dis `json:"disagreements"`
	}
	out.Disagreements = []dis{}
	add := func(id, what string) {
		if len(out.Disagreements) < 50 {
			out.Disagreements = append(out.Disagreements, dis{id, what})
		}
	}
	if err := lib.ReadNDJSON(obsPath, func(b []byte) error {
		var o obsRec
		if err := json.Unmarshal(b, &o); err != nil {
			return err
		}
		v, ok := verdicts[o.ID]
		if !ok {
			return nil
		}
		ref := refOf(o.Cs)
		if v.Why == "outcome" { // the verdict was decided by Permitted(c, out)
			out.Outcomes++
			if got := ref.permits(o.Out); got != v.Ok {
				add(o.ID, fmt.Sprintf("judge says permitted=%v, math/big says %v", v.Ok, got))
			}
		}
		for _, raw := range []json.RawMessage{o.Exp, v.Want} {
			if len(raw) == 0 {
				continue
			}
			var w witness
			if err := json.Unmarshal(raw, &w); err != nil {
				return err
			}
			if w.K != "ok" {
				continue
			}
			out.Witnesses++
			if msg := ref.agreesWithWitness(w); msg != "" {
				add(o.ID, "witness: "+msg)
			}
		}
		return nil
	}); err != nil {
		lib.Fatal("%v", err)
	}
	b, _ := json.Marshal(out)
	if err := os.WriteFile(reportPath, b, 0o644); err != nil {
		lib.Fatal("%v", err)
	}
}
