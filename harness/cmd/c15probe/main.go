package main

import (
	"fmt"
	"os"

	"github.com/verily-src/fhirpath-go/fhirpath"
	"github.com/verily-src/fhirpath-go/fhirpath/zzverif/lib"
)

func main() {
	patient := lib.LoadModelResource("MR1")
	res := lib.AsResources(patient)
	for _, src := range os.Args[1:] {
		e, err := fhirpath.Compile(src)
		if err != nil {
			fmt.Printf("%q => CERR %v\n", src, err)
			continue
		}
		c, err := e.Evaluate(res)
		if err != nil {
			fmt.Printf("%q => ERR %v\n", src, err)
			continue
		}
		fmt.Printf("%q => ", src)
		for _, x := range c {
			fmt.Printf("%T(%q) ", x, fmt.Sprint(x))
		}
		fmt.Println()
	}
}
