// Command machine evaluates the programs of the whole abstract machine (FPMachine_Sim) with the real
// interpreter.
//
//	machine run cases.ndjson obs.ndjson
//
// The first record of the case file is [id "vars", vars]: the environment collections as abstract items.
// They are rebuilt as System values, handed to every evaluation, and projected back into the "vars"
// observation so that the judge can check that both sides hold the same values.
package main

import (
	"encoding/json"
	"math/big"
	"os"
	"runtime"
	"sort"
	"strings"

	"github.com/verily-src/fhirpath-go/fhirpath"
	"github.com/verily-src/fhirpath-go/fhirpath/evalopts"
	"github.com/verily-src/fhirpath-go/fhirpath/system"
	"github.com/verily-src/fhirpath-go/fhirpath/zzverif/lib"
	"google.golang.org/protobuf/proto"
)

type absItem struct {
	T   string `json:"t"`
	B   bool   `json:"b"`
	I   int64  `json:"i"`
	Cp  []int  `json:"cp"`
	Neg bool   `json:"neg"`
	M   []int  `json:"m"`
	E   int    `json:"e"`
}

func decimalText(it absItem) string {
	coef := new(big.Int)
	base := big.NewInt(10000)
	for j := len(it.M) - 1; j >= 0; j-- {
		coef.Mul(coef, base)
		coef.Add(coef, big.NewInt(int64(it.M[j])))
	}
	digits := coef.String()
	var s string
	if it.E >= 0 {
		s = digits + strings.Repeat("0", it.E) + ".0"
	} else {
		n := -it.E
		if len(digits) <= n {
			digits = strings.Repeat("0", n-len(digits)+1) + digits
		}
		s = digits[:len(digits)-n] + "." + digits[len(digits)-n:]
	}
	if it.Neg {
		s = "-" + s
	}
	return s
}

func valueOf(it absItem) any {
	switch it.T {
	case "b":
		return system.Boolean(it.B)
	case "i":
		return system.Integer(it.I)
	case "s":
		return system.String(lib.FromCodePoints(it.Cp))
	case "d":
		return system.MustParseDecimal(decimalText(it))
	}
	lib.Fatal("unsupported environment item of kind %q", it.T)
	return nil
}

// perturb returns environment collections that differ from the given ones.
func perturb(colls map[string]system.Collection) map[string]system.Collection {
	out := map[string]system.Collection{}
	for n, c := range colls {
		switch {
		case len(c) > 1:
			r := system.Collection{}
			for j := len(c) - 2; j >= 0; j-- {
				r = append(r, c[j])
			}
			out[n] = r
		case len(c) == 1:
			switch v := c[0].(type) {
			case system.Integer:
				// the other side of zero, so that comparisons against small numbers flip; 7 becomes the Decimal 2.5 (a
				// compiled `%seven < 2` then meets another TYPE on its left, not only another value)
				if v == 7 {
					out[n] = system.Collection{system.MustParseDecimal("2.5")}
				} else if v > 0 {
					out[n] = system.Collection{system.Integer(-int32(v)/2 - 1)}
				} else {
					out[n] = system.Collection{system.Integer(-(int32(v) / 2) + 11)}
				}
			case system.String:
				out[n] = system.Collection{system.String(string(v) + "z")}
			case system.Boolean:
				out[n] = system.Collection{!v}
			default:
				out[n] = system.Collection{system.Integer(5)}
			}
		default:
			out[n] = system.Collection{system.Integer(1)}
		}
	}
	return out
}

type rec struct {
	ID     string               `json:"id"`
	Ast    json.RawMessage      `json:"ast"`
	Text   string               `json:"text"`
	Parent string               `json:"parent"`
	Prop   string               `json:"prop"`
	Depth  int                  `json:"depth"`
	Lane   int                  `json:"lane"`
	Vars   map[string][]absItem `json:"vars"`
}

func main() {
	if len(os.Args) != 4 || os.Args[1] != "run" {
		lib.Fatal("usage: machine run cases.ndjson obs.ndjson")
	}
	var cases []rec
	var vars map[string][]absItem
	if err := lib.ReadNDJSON(os.Args[2], func(b []byte) error {
		var g rec
		if err := json.Unmarshal(b, &g); err != nil {
			return err
		}
		if g.ID == "vars" {
			vars = g.Vars
			return nil
		}
		g.Ast = append(json.RawMessage{}, g.Ast...)
		cases = append(cases, g)
		return nil
	}); err != nil {
		lib.Fatal("%v", err)
	}
	if vars == nil {
		lib.Fatal("no vars record in %s", os.Args[2])
	}
	names := make([]string, 0, len(vars))
	for n := range vars {
		names = append(names, n)
	}
	sort.Strings(names)
	build := func() map[string]system.Collection {
		colls := map[string]system.Collection{}
		for _, n := range names {
			c := system.Collection{}
			for _, it := range vars[n] {
				c = append(c, valueOf(it))
			}
			colls[n] = c
		}
		return colls
	}
	// resource numbers as in FPMachine!Forest: MR1, MR4, MR2; the input of every program is {MR1, MR2}
	mr1, mr4, mr2 := lib.LoadModelResource("MR1"), lib.LoadModelResource("MR4"), lib.LoadModelResource("MR2")
	forest, err := lib.NewForest(mr1, mr4, mr2)
	if err != nil {
		lib.Fatal("%v", err)
	}
	w, err := lib.NewWriter(os.Args[3])
	if err != nil {
		lib.Fatal("%v", err)
	}
	// the values both sides hold, as the implementation reads them back
	back := map[string]any{}
	for n, c := range build() {
		out := lib.EvalOutcome(forest, "%"+n, lib.AsResources(mr1, mr2), nil, []fhirpath.EvaluateOption{evalopts.EnvVariable(n, c)})
		back[n] = out
	}
	backB := map[string]any{}
	for n, c := range perturb(build()) {
		backB[n] = lib.EvalOutcome(forest, "%"+n, lib.AsResources(mr4), nil, []fhirpath.EvaluateOption{evalopts.EnvVariable(n, c)})
	}
	if err := w.Write(map[string]any{"id": "vars", "kind": "vars", "vars": back, "varsB": backB}); err != nil {
		lib.Fatal("%v", err)
	}
	lib.ParallelMap(len(cases), runtime.NumCPU(), func(i int) {
		g := cases[i]
		colls := build()
		opts := []fhirpath.EvaluateOption{}
		for _, n := range names {
			opts = append(opts, evalopts.EnvVariable(n, colls[n]))
		}
		// the other inputs of the cross evaluation: the twin patient MR4 alone, and every environment collection changed
		// (reversed, its last item dropped when it has several, a singleton replaced by another value of its type)
		other := perturb(colls)
		opts2 := []fhirpath.EvaluateOption{}
		for _, n := range names {
			opts2 = append(opts2, evalopts.EnvVariable(n, other[n]))
		}
		snap := lib.TakeSnapshot([]proto.Message{mr1, mr4, mr2}, colls)
		out, outB, reeval, cross, kept := lib.EvalCross(forest, g.Text, lib.AsResources(mr1, mr2), func() []fhirpath.EvaluateOption { return opts },
			lib.AsResources(mr4), func() []fhirpath.EvaluateOption { return opts2 })
		mut := snap.Report()
		mut["reeval_differs"] = reeval
		mut["crosseval_differs"] = cross
		mut["kept_result_changed"] = kept
		if err := w.Write(map[string]any{"id": g.ID, "ast": g.Ast, "src": g.Text, "out": out, "outB": outB, "kind": "prog", "mut": mut,
			"parent": g.Parent, "prop": g.Prop, "depth": g.Depth, "lane": g.Lane}); err != nil {
			lib.Fatal("%v", err)
		}
	})
	if err := w.Close(); err != nil {
		lib.Fatal("%v", err)
	}
}
