package main

import (
	"fmt"

	"github.com/verily-src/fhirpath-go/fhirpath"
	"github.com/verily-src/fhirpath-go/fhirpath/zzverif/lib"
	"github.com/verily-src/fhirpath-go/internal/fhir"
)

func main() {
	res := lib.LoadModelResource("MR2").(fhir.Resource)
	for _, p := range []string{"Observation.effective", "Observation.value", "Observation.subject", "Observation.issued"} {
		e, err := fhirpath.Compile(p)
		if err != nil {
			fmt.Println(p, err)
			continue
		}
		c, err := e.Evaluate([]fhir.Resource{res})
		fmt.Printf("%s -> %d items err=%v", p, len(c), err)
		for _, x := range c {
			fmt.Printf(" %T", x)
		}
		fmt.Println()
	}
}
