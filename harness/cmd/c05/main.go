// Command c05 replays the C05 case space (equality and ordering) against the
// real code.
//
//	c05 run cases.ndjson obs.ndjson
package main

import (
	"encoding/json"
	"fmt"
	"os"
	"path/filepath"
	"regexp"
	"runtime"
	"sync"

	"github.com/verily-src/fhirpath-go/fhirpath"
	"github.com/verily-src/fhirpath-go/fhirpath/evalopts"
	"github.com/verily-src/fhirpath-go/fhirpath/system"
	"github.com/verily-src/fhirpath-go/fhirpath/zzverif/lib"
	"google.golang.org/protobuf/proto"
)

type poolEntry struct {
	ID  string      `json:"id"`
	Lit string      `json:"lit"`
	Go  lib.Lexical `json:"go"`
}

type operand struct {
	K int    `json:"k"`
	F string `json:"f"`
}

type caseRec struct {
	Kind string          `json:"kind"`
	Op   string          `json:"op"`
	L    json.RawMessage `json:"l"`
	R    json.RawMessage `json:"r"`
}

type genRec struct {
	ID string          `json:"id"`
	Cs json.RawMessage `json:"cs"`
}

var (
	pool     []poolEntry
	mr1, mr4 proto.Message
	forest   *lib.Forest
)

// elemTypes gives the FHIR element types a pool kind can be carried by; the
// pool index picks one, so that every kind of FHIR primitive occurs.
var elemTypes = map[string][]string{
	"boolean":  {"boolean"},
	"integer":  {"integer", "positiveInt", "unsignedInt"},
	"decimal":  {"decimal"},
	"string":   {"string", "code", "uri", "id", "markdown", "url", "canonical", "oid", "uuid"},
	"date":     {"date"},
	"dateTime": {"dateTime", "instant"},
	"time":     {"time"},
	"quantity": {"quantity"},
}

// operandValue builds the value bound to the environment variable for the
// env and elem forms. ok=false: the form cannot carry this value (skip).
func operandValue(o operand) (any, bool) {
	if o.K == 0 {
		return system.Collection{}, true
	}
	e := pool[o.K-1]
	switch o.F {
	case "env":
		v, err := lib.SystemValue(e.Go)
		if err != nil {
			return nil, false
		}
		return v, true
	case "elem":
		types := elemTypes[e.Go.Kind]
		ty := types[o.K%len(types)]
		if ty == "quantity" {
			ty = "Quantity"
		}
		if e.Go.Kind == "integer" {
			// negative values only fit `integer`; zero does not fit positiveInt
			n := e.Go.Text
			if n[0] == '-' {
				ty = "integer"
			} else if n == "0" && ty == "positiveInt" {
				ty = "unsignedInt"
			}
		}
		l := e.Go
		if m := msFraction.FindStringSubmatchIndex(l.Text); m != nil && e.Go.Kind == "dateTime" && o.K%2 == 0 {
			// digits below the millisecond, which FHIR dateTime/instant elements can carry and a System DateTime cannot:
			// the element stands for the pool value (components down to the millisecond), whatever lies behind them
			l.Text = l.Text[:m[3]] + "456" + l.Text[m[3]:]
			if m[4] >= 0 {
				ty = "instant" // an offset is present: an instant can carry the value too
			}
		}
		m, err := lib.FHIRElement(ty, l)
		if err != nil {
			return nil, false
		}
		return m, true
	}
	return nil, false
}

func operandText(o operand, varName string) string {
	if o.K == 0 {
		if o.F == "lit" {
			return "{}"
		}
		return "%" + varName
	}
	if o.F == "lit" {
		return pool[o.K-1].Lit
	}
	return "%" + varName
}

func tokenItem(tok string) any {
	switch tok {
	case "n1":
		return lib.Child(mr1, "name", 0)
	case "n1c":
		return lib.Child(mr4, "name", 0)
	case "n3":
		return lib.Child(mr1, "name", 2)
	case "n2":
		return lib.Child(mr1, "name", 1)
	case "n2x":
		return lib.Child(mr4, "name", 1)
	case "t2":
		return lib.Child(mr1, "telecom", 1)
	case "t2x":
		return lib.Child(mr4, "telecom", 1)
	case "i1":
		return system.Integer(1)
	case "i2":
		return system.Integer(2)
	case "d1":
		return system.MustParseDecimal("1.0")
	case "s1":
		return system.String("a")
	case "s2":
		return system.String("b")
	case "dp":
		return system.MustParseDate("2020")
	case "dq":
		return system.MustParseDate("2020-03")
	case "dr":
		return system.MustParseDate("2021")
	}
	lib.Fatal("unknown token %q", tok)
	return nil
}

var msFraction = regexp.MustCompile(`T\d\d:\d\d:\d\d(\.\d\d\d)(Z|[+-]\d\d:\d\d)?$`)

type cacheKey struct {
	o operand
}

func main() {
	if len(os.Args) != 4 || os.Args[1] != "run" {
		lib.Fatal("usage: c05 run cases.ndjson obs.ndjson")
	}
	pb, err := os.ReadFile(filepath.Join(lib.SpecDir(), "gen", "C05Pool.json"))
	if err != nil {
		lib.Fatal("%v", err)
	}
	if err := json.Unmarshal(pb, &pool); err != nil {
		lib.Fatal("%v", err)
	}
	mr1, mr4 = lib.LoadModelResource("MR1"), lib.LoadModelResource("MR4")
	forest, err = lib.NewForest(mr1, mr4)
	if err != nil {
		lib.Fatal("%v", err)
	}
	res := lib.AsResources(mr1, mr4)

	var cases []genRec
	if err := lib.ReadNDJSON(os.Args[2], func(b []byte) error {
		var g genRec
		if err := json.Unmarshal(b, &g); err != nil {
			return err
		}
		g.Cs = append(json.RawMessage{}, g.Cs...)
		cases = append(cases, g)
		return nil
	}); err != nil {
		lib.Fatal("%v", err)
	}
	w, err := lib.NewWriter(os.Args[3])
	if err != nil {
		lib.Fatal("%v", err)
	}
	var mu sync.Mutex
	aloneCache := map[operand]lib.Outcome{}
	alone := func(o operand) (lib.Outcome, bool) {
		mu.Lock()
		if out, ok := aloneCache[o]; ok {
			mu.Unlock()
			return out, out != nil
		}
		mu.Unlock()
		var out lib.Outcome
		if o.F == "lit" {
			out = lib.EvalOutcome(forest, operandText(o, "x"), res, nil, nil)
		} else if v, ok := operandValue(o); ok {
			out = lib.EvalOutcome(forest, "%x", res, nil, []fhirpath.EvaluateOption{evalopts.EnvVariable("x", v)})
		}
		mu.Lock()
		aloneCache[o] = out
		mu.Unlock()
		return out, out != nil
	}
	lib.ParallelMap(len(cases), runtime.NumCPU(), func(i int) {
		g := cases[i]
		var c caseRec
		if err := json.Unmarshal(g.Cs, &c); err != nil {
			lib.Fatal("%v", err)
		}
		none := lib.Outcome{"k": "none"}
		rec := map[string]any{"id": g.ID, "cs": g.Cs, "skip": false, "lout": none, "rout": none, "litems": []lib.Item{}, "ritems": []lib.Item{}, "out": none, "src": ""}
		switch c.Kind {
		case "pair":
			var l, r operand
			_ = json.Unmarshal(c.L, &l)
			_ = json.Unmarshal(c.R, &r)
			lo, ok1 := alone(l)
			ro, ok2 := alone(r)
			if !ok1 || !ok2 {
				rec["skip"] = true
				break
			}
			rec["lout"], rec["rout"] = lo, ro
			src := fmt.Sprintf("%s %s %s", operandText(l, "l"), c.Op, operandText(r, "r"))
			var opts []fhirpath.EvaluateOption
			if l.F != "lit" {
				v, _ := operandValue(l)
				opts = append(opts, evalopts.EnvVariable("l", v))
			}
			if r.F != "lit" {
				v, _ := operandValue(r)
				opts = append(opts, evalopts.EnvVariable("r", v))
			}
			rec["src"] = src
			rec["out"] = lib.EvalOutcome(forest, src, res, nil, opts)
		case "coll":
			var lt, rt []string
			_ = json.Unmarshal(c.L, &lt)
			_ = json.Unmarshal(c.R, &rt)
			lc, rc := system.Collection{}, system.Collection{}
			for _, t := range lt {
				lc = append(lc, tokenItem(t))
			}
			for _, t := range rt {
				rc = append(rc, tokenItem(t))
			}
			rec["litems"] = forest.ProjectCollection(lc)
			rec["ritems"] = forest.ProjectCollection(rc)
			src := "%l " + c.Op + " %r"
			rec["src"] = src
			rec["out"] = lib.EvalOutcome(forest, src, res, nil, []fhirpath.EvaluateOption{evalopts.EnvVariable("l", lc), evalopts.EnvVariable("r", rc)})
		default:
			lib.Fatal("unknown case kind %q", c.Kind)
		}
		if err := w.Write(rec); err != nil {
			lib.Fatal("%v", err)
		}
	})
	if err := w.Close(); err != nil {
		lib.Fatal("%v", err)
	}
}
