// Command annotate turns FHIR JSON files into annotated trees (one JSON
// document: {"name": tree, ...}) that the TLA+ specification loads.
//
//	annotate out.json name1=path1.json name2=path2.json ...
package main

import (
	"encoding/json"
	"os"
	"strings"

	"github.com/verily-src/fhirpath-go/fhirpath/zzverif/lib"
)

func main() {
	if len(os.Args) < 3 {
		lib.Fatal("usage: annotate out.json name=path ...")
	}
	out := map[string]any{}
	sch := map[string][]string{}
	for _, a := range os.Args[2:] {
		name, path, ok := strings.Cut(a, "=")
		if !ok {
			lib.Fatal("bad argument %q", a)
		}
		js, err := os.ReadFile(path)
		if err != nil {
			lib.Fatal("%v", err)
		}
		res, err := lib.ParseResource(js)
		if err != nil {
			lib.Fatal("parse %s: %v", path, err)
		}
		res = lib.FixModelResource(name, res)
		an, err := lib.Annotate(res)
		if err != nil {
			lib.Fatal("annotate %s: %v", path, err)
		}
		out[name] = an.Root
		for k, v := range lib.SchemaOfTree(an.Root) {
			sch[k] = v
		}
	}
	sb, err := json.Marshal(sch)
	if err != nil {
		lib.Fatal("%v", err)
	}
	if err := os.WriteFile(strings.TrimSuffix(os.Args[1], ".json")+"Schema.json", sb, 0o644); err != nil {
		lib.Fatal("%v", err)
	}
	b, err := json.Marshal(out)
	if err != nil {
		lib.Fatal("%v", err)
	}
	if err := os.WriteFile(os.Args[1], b, 0o644); err != nil {
		lib.Fatal("%v", err)
	}
}
