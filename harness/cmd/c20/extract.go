package main

import (
	"bytes"
	"encoding/json"
	"fmt"
	"math/rand"
	"os"
	"path/filepath"
	"regexp"
	"sort"
	"strconv"
	"strings"
	"time"

	dtpb "github.com/google/fhir/go/proto/google/fhir/proto/r4/core/datatypes_go_proto"
	"github.com/verily-src/fhirpath-go/fhirpath/zzverif/lib"
	"github.com/verily-src/fhirpath-go/internal/element"
	"github.com/verily-src/fhirpath-go/internal/fhir"
	"google.golang.org/protobuf/proto"
)

type extractCaseRec struct {
	ID   string `json:"id"`
	Res  string `json:"res"`  // model resource name (spec/data/<res>.json)
	Form string `json:"form"` // asis | nocontained | seed:<n>
	T    string `json:"T"`    // FHIR type name of the elements to extract
}

// xnode is the tree as the judge reads it: the annotated FHIR JSON tree
// without values, plus hp = "a proto message of the node's own type exists in
// the resource under test" (false for the synthesised `reference` string of a
// typed reference and for everything inside a contained Any).
type xnode struct {
	N  string   `json:"n"`
	JN string   `json:"jn"`
	Ty string   `json:"ty"`
	K  string   `json:"k"`
	Pn string   `json:"pn"`
	Li bool     `json:"li"`
	Cx bool     `json:"cx"`
	Hp bool     `json:"hp"`
	H  string   `json:"h"`
	V  lib.Item `json:"v"`
	Ch []*xnode `json:"ch"`
}

// valueOnly keeps the abstract value of a primitive comparable by the judge as
// one TLA+ value: strings (code points), booleans and integers as they are,
// every other kind reduced to its tag (they are compared through the content
// hash instead).
func valueOnly(v lib.Item) lib.Item {
	switch v["t"] {
	case "s":
		return lib.Item{"t": "s", "cp": v["cp"]}
	case "b":
		return lib.Item{"t": "b", "b": v["b"]}
	case "i":
		return lib.Item{"t": "i", "i": v["i"]}
	}
	t, _ := v["t"].(string)
	if t == "" {
		t = "none"
	}
	return lib.Item{"t": "other:" + t}
}

func exportTree(n *lib.Node) *xnode {
	x := &xnode{N: n.N, JN: n.JN, Ty: n.Ty, K: n.K, Pn: n.Pn, Li: n.Li, Cx: n.Ch, Hp: n.Ptr != nil, H: n.H, V: valueOnly(n.V), Ch: []*xnode{}}
	for _, c := range n.Kids {
		x.Ch = append(x.Ch, exportTree(c))
	}
	return x
}

type loaded struct {
	key string
	res proto.Message
	an  *lib.Annotated
	fr  *lib.Forest
}

var loadedCache = map[string]*loaded{}

func loadForm(res, form string, trees map[string]any) *loaded {
	key := res + "~" + form
	if l, ok := loadedCache[key]; ok {
		return l
	}
	js, err := os.ReadFile(filepath.Join(lib.SpecDir(), "data", res+".json"))
	if err != nil {
		lib.Fatal("model resource %s: %v", res, err)
	}
	var msg proto.Message
	switch {
	case form == "asis":
		msg, err = lib.ParseResource(js)
		if err != nil {
			lib.Fatal("parse %s: %v", res, err)
		}
	case form == "nocontained":
		msg = parseMutated(js, func(root map[string]any, _ *rand.Rand) { dropContained(root) })
		if msg == nil {
			lib.Fatal("%s without contained resources does not parse", res)
		}
	case strings.HasPrefix(form, "seed:"):
		n, err := strconv.ParseInt(form[5:], 10, 64)
		if err != nil {
			lib.Fatal("bad form %q", form)
		}
		msg = deriveVariant(js, n)
	default:
		lib.Fatal("bad form %q", form)
	}
	an, err := lib.Annotate(msg)
	if err != nil {
		lib.Fatal("annotate %s: %v", key, err)
	}
	// The Reference.reference string of a fragment reference lives in the
	// `fragment` member of the oneof; lib.Annotate maps only `uri`.
	for m, pi := range an.Ptrs {
		ref, ok := m.(*dtpb.Reference)
		if !ok || pi.Wrapped || ref.GetFragment() == nil {
			continue
		}
		for _, c := range pi.Node.Kids {
			if c.JN == "reference" && c.Ptr == nil {
				c.Ptr = ref.GetFragment()
				an.Ptrs[ref.GetFragment()] = lib.PtrInfo{Node: c}
			}
		}
	}
	l := &loaded{key: key, res: msg, an: an, fr: &lib.Forest{Res: []*lib.Annotated{an}}}
	loadedCache[key] = l
	trees[key] = exportTree(an.Root)
	return l
}

type foundEl struct {
	ptr  proto.Message
	path string
}

func runExtract[E proto.Message](r fhir.Resource, withPath bool) ([]foundEl, error) {
	out := []foundEl{}
	if withPath {
		xs, err := element.ExtractAllWithPath[E](r)
		for _, x := range xs {
			out = append(out, foundEl{ptr: x.Element, path: x.FHIRPath})
		}
		return out, err
	}
	xs, err := element.ExtractAll[E](r)
	for _, x := range xs {
		out = append(out, foundEl{ptr: x})
	}
	return out, err
}

func extractByType(T string, r fhir.Resource, withPath bool) ([]foundEl, error) {
	switch T {
	case "Reference":
		return runExtract[*dtpb.Reference](r, withPath)
	case "Identifier":
		return runExtract[*dtpb.Identifier](r, withPath)
	case "Coding":
		return runExtract[*dtpb.Coding](r, withPath)
	case "Extension":
		return runExtract[*dtpb.Extension](r, withPath)
	case "string":
		return runExtract[*dtpb.String](r, withPath)
	case "dateTime":
		return runExtract[*dtpb.DateTime](r, withPath)
	}
	lib.Fatal("no instantiation for element type %q", T)
	return nil, nil
}

type elRef struct {
	K    string `json:"k"` // node | wrapper | unknown
	Addr []int  `json:"addr"`
	Pn   string `json:"pn"`
}

func (l *loaded) refOf(m proto.Message) elRef {
	pn := ""
	if m != nil && m.ProtoReflect().IsValid() {
		pn = lib.ProtoName(m.ProtoReflect().Descriptor())
	}
	pi, ok := l.an.Ptrs[m]
	if !ok {
		// google/fhir's storage marker on a primitive without a value is not a
		// FHIR element and has no node; name it so the judge's signature is specific
		if x, isExt := m.(*dtpb.Extension); isExt && x.GetUrl().GetValue() == "https://g.co/fhir/StructureDefinition/primitiveHasNoValue" {
			pn = "Extension:primitiveHasNoValue"
		}
		return elRef{K: "unknown", Addr: []int{}, Pn: pn}
	}
	k := "node"
	if pi.Wrapped {
		k = "wrapper"
	}
	return elRef{K: k, Addr: append([]int{}, pi.Node.Addr...), Pn: pn}
}

type labelStep struct {
	N string `json:"n"`
	I int    `json:"i"` // 0-based index, -1 = none, -2 = segment not of the form name or name[digits]
}

var segRe = regexp.MustCompile(`^([A-Za-z_][A-Za-z0-9_]*)(?:\[(\d{1,6})\])?$`)

// splitLabel turns "A.b[1].c" into steps. The split is checked by rendering
// the steps back; a label that is not of this shape is handed to the judge as
// unparseable steps (i = -2), never repaired.
func splitLabel(label string) []labelStep {
	steps := []labelStep{}
	for _, seg := range strings.Split(label, ".") {
		m := segRe.FindStringSubmatch(seg)
		if m == nil {
			steps = append(steps, labelStep{N: lib.Ascii(seg), I: -2})
			continue
		}
		st := labelStep{N: m[1], I: -1}
		if m[2] != "" {
			st.I, _ = strconv.Atoi(m[2])
		}
		steps = append(steps, st)
	}
	// self-check
	parts := []string{}
	bad := false
	for _, s := range steps {
		switch {
		case s.I == -2:
			bad = true
		case s.I == -1:
			parts = append(parts, s.N)
		default:
			parts = append(parts, fmt.Sprintf("%s[%d]", s.N, s.I))
		}
	}
	if !bad && strings.Join(parts, ".") != label {
		lib.Fatal("label split self-check failed for %q", label)
	}
	return steps
}

func trimOutcome(o lib.Outcome) map[string]any {
	out := map[string]any{"k": o["k"], "n": 0, "items": []any{}, "msg": ""}
	if m, ok := o["msg"].(string); ok {
		out["msg"] = m
	}
	items, _ := o["items"].([]lib.Item)
	out["n"] = len(items)
	trimmed := []any{}
	for i, it := range items {
		if i >= 3 {
			break
		}
		t := map[string]any{"t": it["t"], "r": 0, "addr": []int{}, "wrapped": false, "h": "", "v": lib.Item{"t": "none"}}
		if it["t"] == "el" {
			t["r"], t["addr"], t["wrapped"], t["h"] = it["r"], it["addr"], it["wrapped"], it["h"]
			if v, ok := it["v"].(lib.Item); ok {
				t["v"] = valueOnly(v)
			}
		}
		trimmed = append(trimmed, t)
	}
	out["items"] = trimmed
	return out
}

func extractCase(cs caseRec, trees map[string]any) []any {
	var xc extractCaseRec
	if err := json.Unmarshal(cs.Raw, &xc); err != nil {
		lib.Fatal("case %s: %v", cs.ID, err)
	}
	l := loadForm(xc.Res, xc.Form, trees)
	r, ok := l.res.(fhir.Resource)
	if !ok {
		lib.Fatal("%T is not a fhir.Resource", l.res)
	}
	recs := []any{}
	var labelled []foundEl
	for _, api := range []string{"path", "all"} {
		var got []foundEl
		var err error
		rep := lib.Safe(10*time.Second, func() { got, err = extractByType(xc.T, r, api == "path") })
		rec := map[string]any{"id": xc.ID + "/" + api, "kind": "xset", "tree": l.key, "T": xc.T, "api": api, "out": "ok", "msg": "", "found": []elRef{}}
		switch {
		case rep.Timeout:
			rec["out"] = "timeout"
		case rep.Panic != "":
			rec["out"], rec["msg"] = "panic", rep.Panic
		case err != nil:
			rec["out"], rec["msg"] = "err", lib.Ascii(err.Error())
		default:
			fs := []elRef{}
			for _, g := range got {
				fs = append(fs, l.refOf(g.ptr))
			}
			rec["found"] = fs
			if api == "path" {
				labelled = got
			}
		}
		recs = append(recs, rec)
	}
	for k, g := range labelled {
		fp := lib.EvalOutcome(l.fr, g.path, []fhir.Resource{r}, nil, nil)
		recs = append(recs, map[string]any{
			"id": fmt.Sprintf("%s/l%03d", xc.ID, k), "kind": "xlabel", "tree": l.key, "T": xc.T,
			"el": l.refOf(g.ptr), "label": lib.Ascii(g.path), "steps": splitLabel(g.path), "fp": trimOutcome(fp),
		})
	}
	return recs
}

// ----------------------------------------------------------------- seeded variants of the model resources

func decodeJSON(js []byte) map[string]any {
	dec := json.NewDecoder(bytes.NewReader(js))
	dec.UseNumber()
	var root map[string]any
	if err := dec.Decode(&root); err != nil {
		lib.Fatal("model JSON: %v", err)
	}
	return root
}

func parseMutated(js []byte, mutate func(root map[string]any, rng *rand.Rand)) proto.Message {
	root := decodeJSON(js)
	mutate(root, nil)
	b, err := json.Marshal(root)
	if err != nil {
		return nil
	}
	msg, err := lib.ParseResource(b)
	if err != nil {
		return nil
	}
	return msg
}

func dropContained(v any) {
	switch x := v.(type) {
	case map[string]any:
		delete(x, "contained")
		for _, c := range x {
			dropContained(c)
		}
	case []any:
		for _, c := range x {
			dropContained(c)
		}
	}
}

type objRef struct {
	obj   map[string]any
	isRes bool // carries resourceType
}

func collectObjects(v any, out *[]objRef) {
	switch x := v.(type) {
	case map[string]any:
		_, isRes := x["resourceType"]
		*out = append(*out, objRef{obj: x, isRes: isRes})
		for _, k := range sortedKeys(x) {
			collectObjects(x[k], out)
		}
	case []any:
		for _, c := range x {
			collectObjects(c, out)
		}
	}
}

func sortedKeys(m map[string]any) []string {
	ks := make([]string, 0, len(m))
	for k := range m {
		ks = append(ks, k)
	}
	sort.Strings(ks)
	return ks
}

func deepCopy(v any) any {
	switch x := v.(type) {
	case map[string]any:
		o := map[string]any{}
		for k, c := range x {
			o[k] = deepCopy(c)
		}
		return o
	case []any:
		o := make([]any, len(x))
		for i, c := range x {
			o[i] = deepCopy(c)
		}
		return o
	}
	return v
}

var refForms = []string{
	"Patient/p%d", "Organization/o%d/_history/2", "http://other.example.org/fhir/Practitioner/pr%d", "#c%d",
	"urn:uuid:0d6f3f0e-3a7c-4b0a-9c54-6f1f2f3a4b%02d", "urn:oid:1.2.3.%d", "Observation/ob%d", "Weird Ref %d",
}

func randomExt(rng *rand.Rand, depth int) map[string]any {
	n := rng.Intn(1000)
	e := map[string]any{"url": fmt.Sprintf("http://example.org/x/%d", rng.Intn(3))}
	switch k := rng.Intn(10); {
	case k == 0:
		e["valueString"] = fmt.Sprintf("xs%d", n)
	case k == 1:
		e["valueDateTime"] = []string{"2020", "2020-05", "2020-05-17", "2020-05-17T10:11:12Z", "2020-05-17T10:11:12.123+02:00"}[rng.Intn(5)]
	case k == 2:
		e["valueReference"] = map[string]any{"reference": fmt.Sprintf(refForms[rng.Intn(len(refForms))], n%90)}
	case k == 3:
		e["valueCoding"] = map[string]any{"system": "http://cs", "code": fmt.Sprintf("c%d", n), "display": "Disp"}
	case k == 4:
		e["valueIdentifier"] = map[string]any{"system": "http://ids", "value": fmt.Sprintf("I-%d", n), "assigner": map[string]any{"display": "Asg"}}
	case k == 5:
		e["valueCodeableConcept"] = map[string]any{"coding": []any{map[string]any{"system": "http://cs", "code": "k1"}, map[string]any{"code": "k2"}}, "text": "cc"}
	case k == 6:
		e["valuePeriod"] = map[string]any{"start": "2019-01-01T00:00:00Z", "end": "2019-12"}
	case k == 7:
		e["valueInteger"] = n
	case k == 8 && depth < 2:
		e["extension"] = []any{randomExt(rng, depth+1), randomExt(rng, depth+1)}
	default:
		e["valueHumanName"] = map[string]any{"family": "Ext", "given": []any{"G1", "G2"}}
	}
	return e
}

// mutateOnce applies one random edit to the JSON document. Edits that make the
// document unparseable are discarded by the caller.
func mutateOnce(root map[string]any, rng *rand.Rand) {
	var objs []objRef
	collectObjects(root, &objs)
	o := objs[rng.Intn(len(objs))]
	keys := sortedKeys(o.obj)
	switch rng.Intn(9) {
	case 0, 1: // extension on an element or resource
		cur, _ := o.obj["extension"].([]any)
		o.obj["extension"] = append(cur, randomExt(rng, 0))
	case 2: // extension on a primitive
		cands := []string{}
		for _, k := range keys {
			if _, ok := o.obj[k].(string); ok && k != "resourceType" && !strings.HasPrefix(k, "_") {
				cands = append(cands, k)
			}
		}
		if len(cands) > 0 {
			k := cands[rng.Intn(len(cands))]
			o.obj["_"+k] = map[string]any{"extension": []any{randomExt(rng, 1)}}
			if rng.Intn(4) == 0 {
				o.obj["_"+k].(map[string]any)["id"] = "pid"
			}
		}
	case 3: // duplicate a list element
		cands := []string{}
		for _, k := range keys {
			if a, ok := o.obj[k].([]any); ok && len(a) > 0 && !strings.HasPrefix(k, "_") && k != "contained" {
				cands = append(cands, k)
			}
		}
		if len(cands) > 0 {
			k := cands[rng.Intn(len(cands))]
			a := o.obj[k].([]any)
			o.obj[k] = append(a, deepCopy(a[rng.Intn(len(a))]))
		}
	case 4: // delete a member
		cands := []string{}
		for _, k := range keys {
			if k != "resourceType" && !(o.isRes && k == "id") {
				cands = append(cands, k)
			}
		}
		if len(cands) > 0 {
			k := cands[rng.Intn(len(cands))]
			delete(o.obj, k)
			delete(o.obj, "_"+strings.TrimPrefix(k, "_"))
		}
	case 5: // another form of reference
		refs := []map[string]any{}
		for _, x := range objs {
			if _, ok := x.obj["reference"].(string); ok {
				refs = append(refs, x.obj)
			}
		}
		if len(refs) > 0 {
			r := refs[rng.Intn(len(refs))]
			r["reference"] = fmt.Sprintf(refForms[rng.Intn(len(refForms))], rng.Intn(90))
			if rng.Intn(3) == 0 {
				r["identifier"] = map[string]any{"system": "http://ids", "value": "R-1"}
			}
		}
	case 6: // a primitive with extensions but no value
		cands := []string{}
		for _, k := range keys {
			if strings.HasPrefix(k, "_") {
				if _, ok := o.obj[k].(map[string]any); ok {
					cands = append(cands, k)
				}
			}
		}
		if len(cands) > 0 {
			delete(o.obj, strings.TrimPrefix(cands[rng.Intn(len(cands))], "_"))
		}
	case 7: // id on an element
		if !o.isRes {
			o.obj["id"] = fmt.Sprintf("e%d", rng.Intn(100))
		}
	case 8: // extra identifier / coding next to an existing one
		for _, k := range []string{"identifier", "coding", "tag"} {
			if a, ok := o.obj[k].([]any); ok && len(a) > 0 {
				c := deepCopy(a[0]).(map[string]any)
				c["extension"] = []any{randomExt(rng, 1)}
				o.obj[k] = append(a, c)
			}
		}
	}
}

// representable reports whether a parsed resource is a fixed point of its FHIR JSON rendering. jsonformat accepts
// {"_reference": {"id": "pid", "extension": [...]}} in a way that leaves an extension on the `id` String of the primitive:
// a proto state that FHIR JSON cannot spell (an id is a bare string), so the JSON tree - the property's "every element of a
// type in the resource's FHIR JSON tree" - does not contain it while a walk of the protos does. Such a document is outside
// the domain; it was met at seed 2 of the thorough tier (MR4~seed:203072) and reported as found-element-that-is-not-in-the-tree.
func representable(msg proto.Message) bool {
	out, err := lib.MarshalResource(msg)
	if err != nil {
		return false
	}
	again, err := lib.ParseResource(out)
	return err == nil && proto.Equal(msg, again)
}

// deriveVariant derives a populated resource from a model resource document by
// 1..8 random edits (seeded). Every intermediate document must parse with
// jsonformat; an edit that breaks parsing is undone.
func deriveVariant(js []byte, seed int64) proto.Message {
	rng := rand.New(rand.NewSource(seed))
	cur := decodeJSON(js)
	if rng.Intn(2) == 0 {
		dropContained(cur)
	}
	edits := 1 + rng.Intn(8)
	for i, tries := 0, 0; i < edits && tries < 60; tries++ {
		next := deepCopy(cur).(map[string]any)
		mutateOnce(next, rng)
		b, err := json.Marshal(next)
		if err != nil {
			continue
		}
		msg, err := lib.ParseResource(b)
		if err != nil {
			continue
		}
		if _, err := lib.Annotate(msg); err != nil {
			continue // the projection cannot describe this document: not a usable input
		}
		if !representable(msg) {
			continue // the parsed protos hold something their own FHIR JSON rendering does not (see representable)
		}
		cur = next
		i++
	}
	b, _ := json.Marshal(cur)
	msg, err := lib.ParseResource(b)
	if err != nil {
		lib.Fatal("variant %d: %v", seed, err)
	}
	return msg
}
