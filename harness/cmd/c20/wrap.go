package main

import (
	"encoding/json"
	"time"

	dtpb "github.com/google/fhir/go/proto/google/fhir/proto/r4/core/datatypes_go_proto"
	bcrpb "github.com/google/fhir/go/proto/google/fhir/proto/r4/core/resources/bundle_and_contained_resource_go_proto"
	"github.com/verily-src/fhirpath-go/fhirpath/zzverif/lib"
	"github.com/verily-src/fhirpath-go/internal/bundle"
	"github.com/verily-src/fhirpath-go/internal/containedresource"
	"github.com/verily-src/fhirpath-go/internal/element/extension"
	"github.com/verily-src/fhirpath-go/internal/fhir"
	"github.com/verily-src/fhirpath-go/internal/resource"
	"google.golang.org/protobuf/proto"
	"google.golang.org/protobuf/reflect/protoreflect"
	"google.golang.org/protobuf/reflect/protoregistry"
)

// call is the description of one guarded call. Every field is always present
// (TLC cannot read an absent record field).
type call struct {
	K     string `json:"k"`     // ok | err | panic | timeout | nil (returned nil)
	Ty    string `json:"ty"`    // descriptor name / type name reported
	Slot  string `json:"slot"`  // populated oneof member (read by reflection)
	NSlot int    `json:"nslot"` // number of populated members of the wrapper message
	Same  bool   `json:"same"`  // pointer identity with the subject of the case
	Fresh bool   `json:"fresh"` // two calls returned two distinct, empty instances
	Msg   string `json:"msg"`
}

func guarded(fn func(c *call)) call {
	c := call{K: "ok"}
	rep := lib.Safe(5*time.Second, func() { fn(&c) })
	if rep.Timeout {
		return call{K: "timeout"}
	}
	if rep.Panic != "" {
		return call{K: "panic", Msg: rep.Panic}
	}
	return c
}

// instance creates a message of a google.fhir.r4.core type through the proto
// registry (never through fhirpath-go) and gives it an id so it is not empty.
func instance(name string) proto.Message {
	mt, err := protoregistry.GlobalTypes.FindMessageByName(protoreflect.FullName("google.fhir.r4.core." + name))
	if err != nil {
		lib.Fatal("no message type %s in the registry: %v", name, err)
	}
	m := mt.New()
	if fd := m.Descriptor().Fields().ByName("id"); fd != nil && fd.Message() != nil {
		id := m.Mutable(fd).Message()
		if vf := id.Descriptor().Fields().ByName("value"); vf != nil && vf.Kind() == protoreflect.StringKind {
			id.Set(vf, protoreflect.ValueOfString("x1"))
		}
	}
	return m.Interface()
}

// populated reports which member of a oneof-carrying message is set.
func populated(m proto.Message, oneof string) (slot string, n int, inner proto.Message) {
	if m == nil || !m.ProtoReflect().IsValid() {
		return "", 0, nil
	}
	r := m.ProtoReflect()
	r.Range(func(fd protoreflect.FieldDescriptor, v protoreflect.Value) bool {
		n++
		return true
	})
	od := r.Descriptor().Oneofs().ByName(protoreflect.Name(oneof))
	if od == nil {
		return "", n, nil
	}
	fd := r.WhichOneof(od)
	if fd == nil {
		return "", n, nil
	}
	return string(fd.Name()), n, r.Get(fd).Message().Interface()
}

func descName(m proto.Message) string {
	if m == nil {
		return ""
	}
	return string(m.ProtoReflect().Descriptor().Name())
}

func asResource(m proto.Message) fhir.Resource {
	r, ok := m.(fhir.Resource)
	if !ok {
		lib.Fatal("%T is not a fhir.Resource", m)
	}
	return r
}

// schemaSlotField finds the oneof member whose type is the message's type,
// from the descriptor (used to build wrappers without the code under test).
func schemaSlotField(wrapper protoreflect.Message, oneof string, inner proto.Message) protoreflect.FieldDescriptor {
	od := wrapper.Descriptor().Oneofs().ByName(protoreflect.Name(oneof))
	for i := 0; i < od.Fields().Len(); i++ {
		f := od.Fields().Get(i)
		if f.Message() != nil && f.Message().FullName() == inner.ProtoReflect().Descriptor().FullName() {
			return f
		}
	}
	return nil
}

type resCase struct {
	ID string `json:"id"`
	T  string `json:"t"`
}

func describeNew(get func() (fhir.Resource, error)) call {
	return guarded(func(c *call) {
		a, err := get()
		if err != nil {
			c.K, c.Msg = "err", lib.Ascii(err.Error())
			return
		}
		if a == nil || !a.ProtoReflect().IsValid() {
			c.K = "nil"
			return
		}
		b, err := get()
		if err != nil || b == nil {
			c.K = "err"
			return
		}
		c.Ty = descName(a)
		c.Fresh = proto.Message(a) != proto.Message(b) && proto.Size(a) == 0 && proto.Size(b) == 0
	})
}

func describeWrapper(cr *bcrpb.ContainedResource, subject proto.Message, c *call) {
	if cr == nil {
		c.K = "nil"
		return
	}
	slot, n, inner := populated(cr, "oneof_resource")
	c.Slot, c.NSlot = slot, n
	c.Same = inner != nil && inner == subject
	c.Ty = descName(inner)
}

func resourceCase(cs caseRec) any {
	var rc resCase
	if err := json.Unmarshal(cs.Raw, &rc); err != nil {
		lib.Fatal("case %s: %v", cs.ID, err)
	}
	inst := instance(rc.T)
	res := asResource(inst)
	rec := map[string]any{"id": rc.ID, "kind": "res", "t": rc.T}
	// creation by name
	rec["newFromString"] = describeNew(func() (fhir.Resource, error) { return resource.NewFromString(rc.T) })
	rec["newType"] = guarded(func(c *call) {
		t, err := resource.NewType(rc.T)
		if err != nil {
			c.K, c.Msg = "err", lib.Ascii(err.Error())
			return
		}
		c.Ty = string(t)
		c.Same = resource.IsType(rc.T)
	})
	rec["new"] = describeNew(func() (fhir.Resource, error) { return resource.New(resource.Type(rc.T)), nil })
	rec["typeNew"] = describeNew(func() (fhir.Resource, error) { return resource.Type(rc.T).New(), nil })
	// the type an instance reports
	rec["typeOf"] = guarded(func(c *call) { c.Ty = string(resource.TypeOf(res)) })
	rec["typeOfNew"] = guarded(func(c *call) {
		a, err := resource.NewFromString(rc.T)
		if err != nil {
			c.K = "err"
			return
		}
		c.Ty = string(resource.TypeOf(a))
	})
	// contained resource
	var cr *bcrpb.ContainedResource
	rec["wrap"] = guarded(func(c *call) {
		cr = containedresource.Wrap(res)
		describeWrapper(cr, inst, c)
	})
	rec["unwrap"] = guarded(func(c *call) {
		got := containedresource.Unwrap(cr)
		if got == nil {
			c.K = "nil"
			return
		}
		c.Ty = descName(got)
		c.Same = proto.Message(got) == inst
	})
	rec["crTypeOf"] = guarded(func(c *call) { c.Ty = string(containedresource.TypeOf(cr)) })
	// a wrapper built from the descriptor alone, unwrapped by the code under test
	rec["unwrapIndep"] = guarded(func(c *call) {
		w := &bcrpb.ContainedResource{}
		fd := schemaSlotField(w.ProtoReflect(), "oneof_resource", inst)
		if fd == nil {
			lib.Fatal("no ContainedResource slot for %s in the descriptor", rc.T)
		}
		w.ProtoReflect().Set(fd, protoreflect.ValueOfMessage(inst.ProtoReflect()))
		got := containedresource.Unwrap(w)
		if got == nil {
			c.K = "nil"
			return
		}
		c.Ty = descName(got)
		c.Slot = string(fd.Name())
		c.Same = proto.Message(got) == inst
	})
	// bundle entries
	entry := func(mk func() *bcrpb.Bundle_Entry) call {
		return guarded(func(c *call) {
			e := mk()
			if e == nil {
				c.K = "nil"
				return
			}
			describeWrapper(e.GetResource(), inst, c)
			got := bundle.UnwrapEntry(e)
			c.Same = c.Same && got != nil && proto.Message(got) == inst
		})
	}
	rec["collectionEntry"] = entry(func() *bcrpb.Bundle_Entry { return bundle.NewCollectionEntry(res) })
	rec["postEntry"] = entry(func() *bcrpb.Bundle_Entry { return bundle.NewPostEntry(res) })
	rec["putEntry"] = entry(func() *bcrpb.Bundle_Entry { return bundle.NewPutEntry(res) })
	rec["unwrapEntryIndep"] = guarded(func(c *call) {
		w := &bcrpb.ContainedResource{}
		fd := schemaSlotField(w.ProtoReflect(), "oneof_resource", inst)
		w.ProtoReflect().Set(fd, protoreflect.ValueOfMessage(inst.ProtoReflect()))
		got := bundle.UnwrapEntry(&bcrpb.Bundle_Entry{Resource: w})
		if got == nil {
			c.K = "nil"
			return
		}
		c.Ty = descName(got)
		c.Same = proto.Message(got) == inst
	})
	return rec
}

type bundleCaseRec struct {
	ID string   `json:"id"`
	Ts []string `json:"ts"`
}

// bundleCase builds bundles of the given resource types (through the
// repository's constructors and, separately, by hand) and reports, for each
// resource bundle.Unwrap returned, the position of that very pointer among the
// inputs (0 = not one of the inputs).
func bundleCase(cs caseRec) any {
	var bc bundleCaseRec
	if err := json.Unmarshal(cs.Raw, &bc); err != nil {
		lib.Fatal("case %s: %v", cs.ID, err)
	}
	insts := []proto.Message{}
	for _, t := range bc.Ts {
		insts = append(insts, instance(t))
	}
	index := func(got []fhir.Resource) []int {
		out := []int{}
		for _, g := range got {
			pos := 0
			for i, in := range insts {
				if g != nil && proto.Message(g) == in {
					pos = i + 1
				}
			}
			out = append(out, pos)
		}
		return out
	}
	type unw struct {
		K   string `json:"k"`
		Got []int  `json:"got"`
		Msg string `json:"msg"`
	}
	do := func(mk func() *bcrpb.Bundle) unw {
		u := unw{K: "ok", Got: []int{}}
		rep := lib.Safe(5*time.Second, func() { u.Got = index(bundle.Unwrap(mk())) })
		if rep.Timeout {
			return unw{K: "timeout", Got: []int{}}
		}
		if rep.Panic != "" {
			return unw{K: "panic", Got: []int{}, Msg: rep.Panic}
		}
		return u
	}
	rec := map[string]any{"id": bc.ID, "kind": "bundle", "ts": bc.Ts}
	rec["viaConstructors"] = do(func() *bcrpb.Bundle {
		es := []*bcrpb.Bundle_Entry{}
		for _, in := range insts {
			es = append(es, bundle.NewCollectionEntry(asResource(in)))
		}
		return bundle.NewCollection(bundle.WithEntries(es...))
	})
	rec["viaTransaction"] = do(func() *bcrpb.Bundle {
		es := []*bcrpb.Bundle_Entry{}
		for _, in := range insts {
			es = append(es, bundle.NewPostEntry(asResource(in)))
		}
		return bundle.NewTransaction(bundle.WithEntries(es...))
	})
	rec["byHand"] = do(func() *bcrpb.Bundle {
		b := &bcrpb.Bundle{}
		for _, in := range insts {
			w := &bcrpb.ContainedResource{}
			fd := schemaSlotField(w.ProtoReflect(), "oneof_resource", in)
			w.ProtoReflect().Set(fd, protoreflect.ValueOfMessage(in.ProtoReflect()))
			b.Entry = append(b.Entry, &bcrpb.Bundle_Entry{Resource: w})
		}
		return b
	})
	return rec
}

// newByType instantiates the generic extension.New for each of the datatypes
// its type constraint lists.
var newByType = map[string]func(url string, m proto.Message) *dtpb.Extension{
	"Base64Binary":        func(u string, m proto.Message) *dtpb.Extension { return extension.New(u, m.(*dtpb.Base64Binary)) },
	"Boolean":             func(u string, m proto.Message) *dtpb.Extension { return extension.New(u, m.(*dtpb.Boolean)) },
	"Canonical":           func(u string, m proto.Message) *dtpb.Extension { return extension.New(u, m.(*dtpb.Canonical)) },
	"Code":                func(u string, m proto.Message) *dtpb.Extension { return extension.New(u, m.(*dtpb.Code)) },
	"Date":                func(u string, m proto.Message) *dtpb.Extension { return extension.New(u, m.(*dtpb.Date)) },
	"DateTime":            func(u string, m proto.Message) *dtpb.Extension { return extension.New(u, m.(*dtpb.DateTime)) },
	"Decimal":             func(u string, m proto.Message) *dtpb.Extension { return extension.New(u, m.(*dtpb.Decimal)) },
	"Id":                  func(u string, m proto.Message) *dtpb.Extension { return extension.New(u, m.(*dtpb.Id)) },
	"Instant":             func(u string, m proto.Message) *dtpb.Extension { return extension.New(u, m.(*dtpb.Instant)) },
	"Integer":             func(u string, m proto.Message) *dtpb.Extension { return extension.New(u, m.(*dtpb.Integer)) },
	"Markdown":            func(u string, m proto.Message) *dtpb.Extension { return extension.New(u, m.(*dtpb.Markdown)) },
	"Oid":                 func(u string, m proto.Message) *dtpb.Extension { return extension.New(u, m.(*dtpb.Oid)) },
	"PositiveInt":         func(u string, m proto.Message) *dtpb.Extension { return extension.New(u, m.(*dtpb.PositiveInt)) },
	"String":              func(u string, m proto.Message) *dtpb.Extension { return extension.New(u, m.(*dtpb.String)) },
	"Time":                func(u string, m proto.Message) *dtpb.Extension { return extension.New(u, m.(*dtpb.Time)) },
	"UnsignedInt":         func(u string, m proto.Message) *dtpb.Extension { return extension.New(u, m.(*dtpb.UnsignedInt)) },
	"Uri":                 func(u string, m proto.Message) *dtpb.Extension { return extension.New(u, m.(*dtpb.Uri)) },
	"Url":                 func(u string, m proto.Message) *dtpb.Extension { return extension.New(u, m.(*dtpb.Url)) },
	"Uuid":                func(u string, m proto.Message) *dtpb.Extension { return extension.New(u, m.(*dtpb.Uuid)) },
	"Address":             func(u string, m proto.Message) *dtpb.Extension { return extension.New(u, m.(*dtpb.Address)) },
	"Age":                 func(u string, m proto.Message) *dtpb.Extension { return extension.New(u, m.(*dtpb.Age)) },
	"Annotation":          func(u string, m proto.Message) *dtpb.Extension { return extension.New(u, m.(*dtpb.Annotation)) },
	"Attachment":          func(u string, m proto.Message) *dtpb.Extension { return extension.New(u, m.(*dtpb.Attachment)) },
	"CodeableConcept":     func(u string, m proto.Message) *dtpb.Extension { return extension.New(u, m.(*dtpb.CodeableConcept)) },
	"Coding":              func(u string, m proto.Message) *dtpb.Extension { return extension.New(u, m.(*dtpb.Coding)) },
	"ContactPoint":        func(u string, m proto.Message) *dtpb.Extension { return extension.New(u, m.(*dtpb.ContactPoint)) },
	"Count":               func(u string, m proto.Message) *dtpb.Extension { return extension.New(u, m.(*dtpb.Count)) },
	"Distance":            func(u string, m proto.Message) *dtpb.Extension { return extension.New(u, m.(*dtpb.Distance)) },
	"Duration":            func(u string, m proto.Message) *dtpb.Extension { return extension.New(u, m.(*dtpb.Duration)) },
	"HumanName":           func(u string, m proto.Message) *dtpb.Extension { return extension.New(u, m.(*dtpb.HumanName)) },
	"Identifier":          func(u string, m proto.Message) *dtpb.Extension { return extension.New(u, m.(*dtpb.Identifier)) },
	"Money":               func(u string, m proto.Message) *dtpb.Extension { return extension.New(u, m.(*dtpb.Money)) },
	"Period":              func(u string, m proto.Message) *dtpb.Extension { return extension.New(u, m.(*dtpb.Period)) },
	"Quantity":            func(u string, m proto.Message) *dtpb.Extension { return extension.New(u, m.(*dtpb.Quantity)) },
	"Range":               func(u string, m proto.Message) *dtpb.Extension { return extension.New(u, m.(*dtpb.Range)) },
	"Ratio":               func(u string, m proto.Message) *dtpb.Extension { return extension.New(u, m.(*dtpb.Ratio)) },
	"Reference":           func(u string, m proto.Message) *dtpb.Extension { return extension.New(u, m.(*dtpb.Reference)) },
	"SampledData":         func(u string, m proto.Message) *dtpb.Extension { return extension.New(u, m.(*dtpb.SampledData)) },
	"Signature":           func(u string, m proto.Message) *dtpb.Extension { return extension.New(u, m.(*dtpb.Signature)) },
	"Timing":              func(u string, m proto.Message) *dtpb.Extension { return extension.New(u, m.(*dtpb.Timing)) },
	"ContactDetail":       func(u string, m proto.Message) *dtpb.Extension { return extension.New(u, m.(*dtpb.ContactDetail)) },
	"Contributor":         func(u string, m proto.Message) *dtpb.Extension { return extension.New(u, m.(*dtpb.Contributor)) },
	"DataRequirement":     func(u string, m proto.Message) *dtpb.Extension { return extension.New(u, m.(*dtpb.DataRequirement)) },
	"Expression":          func(u string, m proto.Message) *dtpb.Extension { return extension.New(u, m.(*dtpb.Expression)) },
	"ParameterDefinition": func(u string, m proto.Message) *dtpb.Extension { return extension.New(u, m.(*dtpb.ParameterDefinition)) },
	"RelatedArtifact":     func(u string, m proto.Message) *dtpb.Extension { return extension.New(u, m.(*dtpb.RelatedArtifact)) },
	"TriggerDefinition":   func(u string, m proto.Message) *dtpb.Extension { return extension.New(u, m.(*dtpb.TriggerDefinition)) },
	"UsageContext":        func(u string, m proto.Message) *dtpb.Extension { return extension.New(u, m.(*dtpb.UsageContext)) },
	"Dosage":              func(u string, m proto.Message) *dtpb.Extension { return extension.New(u, m.(*dtpb.Dosage)) },
}

func describeExt(x *dtpb.Extension, url string, subject proto.Message, c *call) {
	if x == nil {
		c.K = "nil"
		return
	}
	slot, n, inner := populated(x.GetValue(), "choice")
	c.Slot, c.NSlot = slot, n
	c.Ty = descName(inner)
	c.Same = inner != nil && inner == subject && x.GetUrl().GetValue() == url
}

func extValueCase(cs caseRec) any {
	var rc resCase
	if err := json.Unmarshal(cs.Raw, &rc); err != nil {
		lib.Fatal("case %s: %v", cs.ID, err)
	}
	inst := instance(rc.T)
	el, ok := inst.(fhir.Element)
	if !ok {
		lib.Fatal("%T is not a fhir.Element", inst)
	}
	const url = "http://example.org/ext/c20"
	rec := map[string]any{"id": rc.ID, "kind": "extval", "t": rc.T}
	var built *dtpb.Extension
	rec["fromElement"] = guarded(func(c *call) {
		x, err := extension.FromElement(url, el)
		if err != nil {
			c.K, c.Msg = "err", lib.Ascii(err.Error())
			return
		}
		built = x
		describeExt(x, url, inst, c)
	})
	rec["unwrap"] = guarded(func(c *call) {
		got := extension.Unwrap(built)
		if got == nil {
			c.K = "nil"
			return
		}
		c.Ty = descName(got)
		c.Same = proto.Message(got) == inst
	})
	var builtNew *dtpb.Extension
	rec["new"] = guarded(func(c *call) {
		f, ok := newByType[rc.T]
		if !ok {
			c.K, c.Msg = "err", "type is not in the ValueX constraint (no instantiation of extension.New compiles)"
			return
		}
		builtNew = f(url, inst)
		describeExt(builtNew, url, inst, c)
	})
	rec["unwrapNew"] = guarded(func(c *call) {
		got := extension.Unwrap(builtNew)
		if got == nil {
			c.K = "nil"
			return
		}
		c.Ty = descName(got)
		c.Same = proto.Message(got) == inst
	})
	rec["unwrapIndep"] = guarded(func(c *call) {
		vx := &dtpb.Extension_ValueX{}
		fd := schemaSlotField(vx.ProtoReflect(), "choice", inst)
		if fd == nil {
			lib.Fatal("no Extension.ValueX slot for %s in the descriptor", rc.T)
		}
		vx.ProtoReflect().Set(fd, protoreflect.ValueOfMessage(inst.ProtoReflect()))
		got := extension.Unwrap(&dtpb.Extension{Url: &dtpb.Uri{Value: url}, Value: vx})
		if got == nil {
			c.K = "nil"
			return
		}
		c.Ty = descName(got)
		c.Slot = string(fd.Name())
		c.Same = proto.Message(got) == inst
	})
	return rec
}
