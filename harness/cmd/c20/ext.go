package main

import (
	"encoding/json"
	"strconv"
	"strings"
	"time"

	dtpb "github.com/google/fhir/go/proto/google/fhir/proto/r4/core/datatypes_go_proto"
	mkpb "github.com/google/fhir/go/proto/google/fhir/proto/r4/core/resources/medication_knowledge_go_proto"
	opb "github.com/google/fhir/go/proto/google/fhir/proto/r4/core/resources/organization_go_proto"
	ppb "github.com/google/fhir/go/proto/google/fhir/proto/r4/core/resources/patient_go_proto"
	"github.com/verily-src/fhirpath-go/fhirpath/zzverif/lib"
	"github.com/verily-src/fhirpath-go/internal/element/extension"
	"github.com/verily-src/fhirpath-go/internal/fhir"
	"google.golang.org/protobuf/proto"
	"google.golang.org/protobuf/reflect/protoreflect"
)

// Abstract extension entry: URL token and value token ("s1" = String "s1",
// "i3" = Integer 3).
type ent struct {
	URL string `json:"url"`
	Val string `json:"val"`
}

type extStep struct {
	Op    string `json:"op"`
	URL   string `json:"url"`
	Items []ent  `json:"items"`
	I     int    `json:"i"`
}

type heldRec struct {
	K   string `json:"k"` // none | ext
	URL string `json:"url"`
	Val string `json:"val"`
}

type retRec struct {
	K    string `json:"k"` // none | ext | val | nil | err | panic
	URL  string `json:"url"`
	Val  string `json:"val"`
	Same bool   `json:"same"`
}

type behStep struct {
	Step    extStep `json:"step"`
	Pre     []ent   `json:"pre"`
	PreHeld heldRec `json:"preheld"`
}

type behCase struct {
	ID     string    `json:"id"`
	Steps  []behStep `json:"steps"`
	Owners []string  `json:"owners"` // owner kinds to replay on (default: all)
	// LastOnly: report only the last step. Used for the behaviours TLC emits:
	// every prefix of such a behaviour is itself an emitted behaviour (the edge
	// that discovered the intermediate state), so its steps are judged there.
	LastOnly bool `json:"last_only"`
}

type obsStep struct {
	Step     extStep `json:"step"`
	Pre      []ent   `json:"pre"`
	PreHeld  heldRec `json:"preheld"`
	Post     []ent   `json:"post"`
	PostHeld heldRec `json:"postheld"`
	Ret      retRec  `json:"ret"`
	Out      string  `json:"out"` // ok | panic | timeout
	Msg      string  `json:"msg,omitempty"` // never read by the judge
	Frozen   bool    `json:"frozen"`        // everything of the owner other than its extension list is unchanged
}

// OrgContact and KnowledgeDosage share their short message names with Contact (Patient.Contact) and with the datatype Dosage:
// message types of one short name are operated on in one process
var owners = []string{"Patient", "HumanName", "String", "Contact", "OrgContact", "Dosage", "KnowledgeDosage"}

func newOwner(kind string) fhir.Extendable {
	mod := []*dtpb.Extension{{Url: &dtpb.Uri{Value: "http://example.org/modifier"}, Value: &dtpb.Extension_ValueX{Choice: &dtpb.Extension_ValueX_Boolean{Boolean: &dtpb.Boolean{Value: true}}}}}
	switch kind {
	case "Patient":
		return &ppb.Patient{Id: &dtpb.Id{Value: "p"}, ModifierExtension: mod, Active: &dtpb.Boolean{Value: true}}
	case "HumanName":
		return &dtpb.HumanName{Id: &dtpb.String{Value: "n"}, Family: &dtpb.String{Value: "Fam"}}
	case "String":
		return &dtpb.String{Id: &dtpb.String{Value: "s"}, Value: "text"}
	case "Contact":
		return &ppb.Patient_Contact{Id: &dtpb.String{Value: "c"}, ModifierExtension: mod}
	case "OrgContact":
		return &opb.Organization_Contact{Id: &dtpb.String{Value: "oc"}, ModifierExtension: mod}
	case "Dosage":
		return &dtpb.Dosage{Id: &dtpb.String{Value: "d"}, ModifierExtension: mod, Text: &dtpb.String{Value: "daily"}}
	case "KnowledgeDosage":
		return &mkpb.MedicationKnowledge_AdministrationGuidelines_Dosage{Id: &dtpb.String{Value: "kd"}, ModifierExtension: mod}
	}
	lib.Fatal("unknown owner kind %q", kind)
	return nil
}

// makeElement builds the element a value token stands for.
func makeElement(tok string) fhir.Element {
	switch {
	case strings.HasPrefix(tok, "s"):
		return &dtpb.String{Value: tok}
	case strings.HasPrefix(tok, "i"):
		n, err := strconv.Atoi(tok[1:])
		if err != nil {
			lib.Fatal("bad value token %q", tok)
		}
		return &dtpb.Integer{Value: int32(n)}
	}
	lib.Fatal("bad value token %q", tok)
	return nil
}

// makeExt builds an extension without using the code under test.
func makeExt(e ent) (*dtpb.Extension, fhir.Element) {
	el := makeElement(e.Val)
	vx := &dtpb.Extension_ValueX{}
	switch v := el.(type) {
	case *dtpb.String:
		vx.Choice = &dtpb.Extension_ValueX_StringValue{StringValue: v}
	case *dtpb.Integer:
		vx.Choice = &dtpb.Extension_ValueX_Integer{Integer: v}
	}
	return &dtpb.Extension{Url: &dtpb.Uri{Value: e.URL}, Value: vx}, el
}

// valueToken renders the value of an extension by content, reading the oneof
// through protoreflect (not through extension.Unwrap).
func elementToken(m proto.Message) string {
	switch v := m.(type) {
	case nil:
		return "nil"
	case *dtpb.String:
		if v == nil {
			return "nil"
		}
		return v.GetValue()
	case *dtpb.Integer:
		if v == nil {
			return "nil"
		}
		return "i" + strconv.Itoa(int(v.GetValue()))
	}
	return "?" + string(m.ProtoReflect().Descriptor().Name())
}

func valueToken(e *dtpb.Extension) string {
	if e == nil {
		return "nilext"
	}
	if e.Value == nil {
		return "novalue"
	}
	r := e.Value.ProtoReflect()
	fd := r.WhichOneof(r.Descriptor().Oneofs().ByName("choice"))
	if fd == nil {
		return "novalue"
	}
	return elementToken(r.Get(fd).Message().Interface())
}

func projectList(owner fhir.Extendable) []ent {
	out := []ent{}
	for _, e := range owner.GetExtension() {
		out = append(out, ent{URL: lib.Ascii(e.GetUrl().GetValue()), Val: lib.Ascii(valueToken(e))})
	}
	return out
}

func setExtList(owner proto.Message, exts []*dtpb.Extension) {
	m := owner.ProtoReflect()
	fd := m.Descriptor().Fields().ByName("extension")
	if fd == nil {
		lib.Fatal("%T has no extension field", owner)
	}
	l := m.NewField(fd).List()
	for _, e := range exts {
		l.Append(protoreflect.ValueOfMessage(e.ProtoReflect()))
	}
	m.Set(fd, protoreflect.ValueOfList(l))
}

// restHash is the content hash of the owner without its extension list.
func restHash(owner proto.Message) string {
	c := proto.Clone(owner)
	m := c.ProtoReflect()
	m.Clear(m.Descriptor().Fields().ByName("extension"))
	return lib.HashMsg(c)
}

func sameKind(items []ent) (string, bool) {
	if len(items) == 0 {
		return "s", true
	}
	k := items[0].Val[:1]
	for _, it := range items {
		if it.Val[:1] != k {
			return "", false
		}
	}
	return k, true
}

func replayBehaviour(c caseRec) []any {
	var bc behCase
	if err := json.Unmarshal(c.Raw, &bc); err != nil {
		lib.Fatal("case %s: %v", c.ID, err)
	}
	if len(bc.Steps) == 0 {
		lib.Fatal("case %s: empty behaviour", c.ID)
	}
	out := []any{}
	on := bc.Owners
	if len(on) == 0 {
		on = owners
	}
	for _, ok := range on {
		out = append(out, replayOn(bc, ok))
	}
	return out
}

func replayOn(bc behCase, ownerKind string) any {
	owner := newOwner(ownerKind)
	// initial list, built without the code under test
	var init []*dtpb.Extension
	known := map[proto.Message]string{} // every element the harness created -> its token
	for _, e := range bc.Steps[0].Pre {
		x, el := makeExt(e)
		known[el] = e.Val
		init = append(init, x)
	}
	setExtList(owner, init)
	var heldExt *dtpb.Extension
	var heldEl fhir.Element
	if h := bc.Steps[0].PreHeld; h.K == "ext" {
		// a behaviour that starts with an extension already held (single-step replays)
		heldExt, heldEl = makeExt(ent{URL: h.URL, Val: h.Val})
		known[heldEl] = h.Val
	}
	heldOf := func() heldRec {
		if heldExt == nil {
			return heldRec{K: "none"}
		}
		return heldRec{K: "ext", URL: lib.Ascii(heldExt.GetUrl().GetValue()), Val: lib.Ascii(valueToken(heldExt))}
	}
	steps := []obsStep{}
	for _, bs := range bc.Steps {
		st := bs.Step
		o := obsStep{Step: st, Pre: projectList(owner), PreHeld: heldOf(), Ret: retRec{K: "none"}, Out: "ok"}
		before := restHash(owner)
		rep := lib.Safe(5*time.Second, func() {
			switch st.Op {
			case "Upsert":
				x, el := makeExt(st.Items[0])
				known[el] = st.Items[0].Val
				extension.Upsert(owner, x)
			case "SetByURL":
				k, ok := sameKind(st.Items)
				if !ok {
					lib.Fatal("SetByURL with mixed value kinds: %+v", st)
				}
				if k == "s" {
					vals := []*dtpb.String{}
					for _, it := range st.Items {
						el := makeElement(it.Val).(*dtpb.String)
						known[el] = it.Val
						vals = append(vals, el)
					}
					extension.SetByURL(owner, st.URL, vals...)
				} else {
					vals := []*dtpb.Integer{}
					for _, it := range st.Items {
						el := makeElement(it.Val).(*dtpb.Integer)
						known[el] = it.Val
						vals = append(vals, el)
					}
					extension.SetByURL(owner, st.URL, vals...)
				}
			case "Overwrite", "AppendInto":
				xs := []*dtpb.Extension{}
				for _, it := range st.Items {
					x, el := makeExt(it)
					known[el] = it.Val
					xs = append(xs, x)
				}
				if st.Op == "Overwrite" {
					extension.Overwrite(owner, xs...)
				} else {
					extension.AppendInto(owner, xs...)
				}
			case "Clear":
				extension.Clear(owner)
			case "New", "FromElement":
				it := st.Items[0]
				el := makeElement(it.Val)
				known[el] = it.Val
				var x *dtpb.Extension
				if st.Op == "New" {
					switch v := el.(type) {
					case *dtpb.String:
						x = extension.New(it.URL, v)
					case *dtpb.Integer:
						x = extension.New(it.URL, v)
					}
				} else {
					var err error
					x, err = extension.FromElement(it.URL, el)
					if err != nil {
						o.Ret = retRec{K: "err"}
						o.Msg = lib.Ascii(err.Error())
						return
					}
				}
				if x == nil {
					o.Ret = retRec{K: "nil"}
					return
				}
				// what was built, read without the code under test
				same := false
				if x.Value != nil {
					r := x.Value.ProtoReflect()
					if fd := r.WhichOneof(r.Descriptor().Oneofs().ByName("choice")); fd != nil {
						same = r.Get(fd).Message().Interface() == proto.Message(el)
					}
				}
				o.Ret = retRec{K: "ext", URL: lib.Ascii(x.GetUrl().GetValue()), Val: lib.Ascii(valueToken(x)), Same: same}
				heldExt, heldEl = x, el
			case "Unwrap":
				got := extension.Unwrap(heldExt)
				o.Ret = unwrapRet(got, known, heldEl, heldExt != nil)
			case "UnwrapAt":
				l := owner.GetExtension()
				if st.I < 1 || st.I > len(l) {
					// the specification only emits indexes inside its own list; when the real
					// list is shorter the step has no subject
					o.Ret = retRec{K: "none"}
					return
				}
				x := l[st.I-1]
				var want proto.Message
				if x.Value != nil {
					r := x.Value.ProtoReflect()
					if fd := r.WhichOneof(r.Descriptor().Oneofs().ByName("choice")); fd != nil {
						want = r.Get(fd).Message().Interface()
					}
				}
				got := extension.Unwrap(x)
				o.Ret = unwrapRet(got, known, want, want != nil)
			default:
				lib.Fatal("unknown operation %q", st.Op)
			}
		})
		if rep.Timeout {
			o.Out = "timeout"
		} else if rep.Panic != "" {
			o.Out = "panic"
			o.Msg = rep.Panic
			o.Ret = retRec{K: "panic"}
		}
		o.Post = projectList(owner)
		o.PostHeld = heldOf()
		o.Frozen = restHash(owner) == before
		steps = append(steps, o)
	}
	ops := []string{}
	for _, st := range steps {
		ops = append(ops, st.Step.Op)
	}
	if bc.LastOnly {
		steps = steps[len(steps)-1:]
	}
	return map[string]any{"id": bc.ID + "/" + ownerKind, "kind": "beh", "owner": ownerKind, "ops": ops, "steps": steps}
}

// unwrapRet describes what Unwrap returned: the token of the element by
// pointer identity (only elements the harness created have one) and whether it
// is the very element expected.
func unwrapRet(got fhir.Element, known map[proto.Message]string, want proto.Message, hasSubject bool) retRec {
	if got == nil || !got.ProtoReflect().IsValid() {
		return retRec{K: "nil"}
	}
	tok, ok := known[proto.Message(got)]
	if !ok {
		tok = "?copy:" + elementToken(got)
	}
	return retRec{K: "val", Val: lib.Ascii(tok), Same: hasSubject && want != nil && proto.Message(got) == want}
}
