package main

import (
	"encoding/json"
	"runtime"
	"sort"
	"sync"

	"github.com/verily-src/fhirpath-go/fhirpath"
	"github.com/verily-src/fhirpath-go/fhirpath/internal/funcs"
	"github.com/verily-src/fhirpath-go/fhirpath/internal/opts"
	"github.com/verily-src/fhirpath-go/fhirpath/patch"
	"github.com/verily-src/fhirpath-go/fhirpath/zzverif/lib"
)

// Part (i): replay of Compile-call histories.
//
// For every call of a history the real Compile (fhirpath.Compile or
// patch.Compile) is run with the model's options; a probe option placed after
// every option records the configuration at that point (table keys relative
// to the built-in table, Permissive, Transform). After every call the
// visibility of every name is probed by compiling `name()` in a fresh Compile
// with no options, and funcs.Clone() is compared with the table of the
// process start.

type histCase struct {
	ID    string          `json:"id"`
	Kind  string          `json:"kind"`
	Calls []ccall         `json:"calls"`
	Raw   json.RawMessage `json:"-"`
}

var probeNames = []string{"exists", "join", "now", "vfA", "vfB"}

const permProbe = "Patient.name.count().foo"

type stepDump struct {
	Extra   []string `json:"extra"`
	Missing []string `json:"missing"`
	Altered []string `json:"altered"`
	Perm    bool     `json:"perm"`
	Xform   bool     `json:"xform"`
}

func runHist(casesPath, obsPath string) {
	cases := readCases[histCase](casesPath)
	base0 := snapTable(funcs.Clone())
	exper0 := keysOf(snapTable(funcs.AddExperimentalFuncs(funcs.FunctionTable{})))
	p1 := patient(1)
	forest, err := lib.NewForest(p1)
	if err != nil {
		lib.Fatal("%v", err)
	}
	res := lib.AsResources(p1)
	w := newLineWriter(obsPath)
	// the first record describes the process: the built-in and experimental tables at start
	w.Write(map[string]any{"id": "h:base", "kind": "base", "base0": keysOf(base0), "exper0": exper0})
	lib.ParallelMap(len(cases), runtime.NumCPU(), func(i int) {
		hc := cases[i]
		rec := map[string]any{"id": hc.ID, "kind": "hist", "calls": hc.Calls}
		obs := []map[string]any{}
		kept := []*fhirpath.Expression{}
		for _, call := range hc.Calls {
			o, fe := replayCall(call, base0, forest, res)
			obs = append(obs, o)
			kept = append(kept, fe)
		}
		// every expression of the history evaluated once more after the last call:
		// what an expression is bound to never changes
		for j, fe := range kept {
			if fe != nil {
				out, _, _ := evalOutcome(forest, fe, res, nil, lib.DefaultDeadline)
				obs[j]["late"] = out
			} else {
				obs[j]["late"] = lib.Outcome{"k": "none"}
			}
		}
		rec["obs"] = obs
		w.Write(rec)
	})
	w.Close()
}

func replayCall(call ccall, base0 tableSnap, forest *lib.Forest, res []lib.Resource) (map[string]any, *fhirpath.Expression) {
	o := map[string]any{}
	var mu sync.Mutex
	dumps := []stepDump{}
	options := []fhirpath.CompileOption{}
	for k, mo := range call.Opts {
		options = append(options, realCompileOpt(mo, call.Eid, k+1))
		options = append(options, opts.Transform(func(cfg *opts.CompileConfig) error {
			ex, mi, al := diffTable(snapTable(cfg.Table), base0)
			mu.Lock()
			dumps = append(dumps, stepDump{ex, mi, al, cfg.Permissive, cfg.Transform != nil})
			mu.Unlock()
			return nil
		}))
	}
	var fe *fhirpath.Expression
	rep := lib.SafeRetry(func() {
		mu.Lock()
		dumps = dumps[:0]
		mu.Unlock()
		var err error
		if call.API == "patch" {
			_, err = patch.Compile(call.Text, options...)
		} else {
			fe, err = fhirpath.Compile(call.Text, options...)
		}
		if err != nil {
			o["out"] = "cerr"
			o["msg"] = lib.Ascii(err.Error())
		} else {
			o["out"] = "ok"
			o["msg"] = ""
		}
	})
	if rep.Timeout {
		o["out"], o["msg"] = "timeout", ""
	} else if rep.Panic != "" {
		o["out"], o["msg"] = "panic", rep.Panic+" @ "+rep.Stack
	}
	mu.Lock()
	o["steps"] = append([]stepDump{}, dumps...)
	mu.Unlock()
	// the compiled expression evaluated on Patient p1 (fhirpath.Compile only)
	if fe != nil && o["out"] == "ok" {
		out, _, _ := evalOutcome(forest, fe, res, nil, lib.DefaultDeadline)
		o["eval"] = out
	} else {
		fe = nil
		o["eval"] = lib.Outcome{"k": "none"}
	}
	// after the call: what a fresh Compile with no options sees
	vis := []string{}
	rep = lib.SafeRetry(func() {
		vis = vis[:0]
		for _, n := range probeNames {
			if _, err := fhirpath.Compile(n + "()"); err == nil {
				vis = append(vis, n)
			}
		}
	})
	after := map[string]any{"vis": vis, "probe": "ok"}
	if rep.Timeout || rep.Panic != "" {
		after["probe"] = "failed"
	}
	ex, mi, al := diffTable(snapTable(funcs.Clone()), base0)
	after["extra"], after["missing"], after["altered"] = ex, mi, al
	after["perm"] = lib.EvalOutcome(forest, permProbe, res, nil, nil)["k"]
	o["after"] = after
	return o, fe
}

// dumpFuncs writes the implementation's function tables (name, arities,
// experimental flag), sorted by name: the stress menu covers every one of them.
func dumpFuncs(path string) {
	type fn struct {
		Name string `json:"name"`
		Min  int    `json:"min"`
		Max  int    `json:"max"`
		Exp  bool   `json:"exp"`
	}
	base := funcs.Clone()
	all := funcs.AddExperimentalFuncs(funcs.Clone())
	names := []string{}
	for k := range all {
		names = append(names, k)
	}
	sort.Strings(names)
	w := newLineWriter(path)
	for _, n := range names {
		_, inBase := base[n]
		w.Write(fn{n, all[n].MinArity, all[n].MaxArity, !inBase})
	}
	w.Close()
}
