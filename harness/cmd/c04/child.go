package main

import (
	"bytes"
	"encoding/json"
	"os"
	"os/exec"
	"strings"
	"sync"

	"github.com/verily-src/fhirpath-go/fhirpath/zzverif/lib"
)

// A replay part runs in a child process, so that a fatal error of the Go
// runtime inside the library ("concurrent map writes", which no recover can
// stop) ends the child, not the harness. The parent then adds a record of kind
// "crash" to the observations; the judge has no outcome that permits it.

// lineWriter writes one JSON record per line, unbuffered, so that everything
// written before a crash survives.
type lineWriter struct {
	mu sync.Mutex
	f  *os.File
}

func newLineWriter(path string) *lineWriter {
	f, err := os.Create(path)
	if err != nil {
		lib.Fatal("%v", err)
	}
	return &lineWriter{f: f}
}

func (w *lineWriter) Write(rec any) {
	b, err := json.Marshal(rec)
	if err != nil {
		lib.Fatal("%v", err)
	}
	w.mu.Lock()
	defer w.mu.Unlock()
	if _, err := w.f.Write(append(b, '\n')); err != nil {
		lib.Fatal("%v", err)
	}
}

func (w *lineWriter) Close() { w.f.Close() }

// runChild re-executes this binary with the given subcommand. It returns
// nil when the child succeeded, otherwise a crash description (or exits with
// a machinery failure when the child's death is not a Go runtime fatal error
// inside the library).
type crash struct {
	Fatal string `json:"fatal"`
	Site  string `json:"site"`
}

func runChild(env []string, args ...string) *crash {
	self, err := os.Executable()
	if err != nil {
		lib.Fatal("%v", err)
	}
	cmd := exec.Command(self, args...)
	cmd.Env = append(os.Environ(), env...)
	var stderr bytes.Buffer
	cmd.Stderr = &stderr
	cmd.Stdout = os.Stdout
	if err := cmd.Run(); err == nil {
		return nil
	}
	txt := stderr.String()
	c := fatalSite(txt)
	if c == nil {
		lib.Fatal("child %v failed:\n%s", args, tail(txt, 3000))
	}
	return c
}

func tail(s string, n int) string {
	if len(s) > n {
		return s[len(s)-n:]
	}
	return s
}

// fatalSite recognises a fatal error of the Go runtime and names the innermost
// non-runtime frame of the goroutine that died. Only a frame inside the
// library makes it an observation about the library.
func fatalSite(stderr string) *crash {
	i := strings.Index(stderr, "fatal error: ")
	if i < 0 {
		return nil
	}
	rest := stderr[i:]
	line := rest
	if j := strings.Index(line, "\n"); j >= 0 {
		line = line[:j]
	}
	msg := strings.TrimPrefix(line, "fatal error: ")
	g := strings.Index(rest, "goroutine ")
	if g < 0 {
		return nil
	}
	block := rest[g:]
	if j := strings.Index(block, "\n\n"); j >= 0 {
		block = block[:j]
	}
	for _, l := range strings.Split(block, "\n")[1:] {
		if strings.HasPrefix(l, "\t") || strings.HasPrefix(l, " ") {
			continue
		}
		if strings.HasPrefix(l, "runtime.") || strings.HasPrefix(l, "internal/") || strings.HasPrefix(l, "sync.") {
			continue
		}
		if strings.HasPrefix(l, "github.com/verily-src/fhirpath-go/") && !strings.Contains(l, "/zzverif/") {
			fn := strings.TrimPrefix(l, "github.com/verily-src/fhirpath-go/")
			if j := strings.LastIndex(fn, "("); j > 0 {
				fn = fn[:j]
			}
			return &crash{Fatal: lib.Ascii(strings.ReplaceAll(msg, " ", "-")), Site: lib.Ascii(fn)}
		}
		return nil // the innermost frame is not the library's
	}
	return nil
}

// withChild runs `sub in out` in a child and, when the child died of a runtime
// fatal error inside the library, appends a crash record to out.
func withChild(sub, in, out string) {
	c := runChild(nil, sub, in, out)
	if c == nil {
		return
	}
	f, err := os.OpenFile(out, os.O_APPEND|os.O_WRONLY|os.O_CREATE, 0o644)
	if err != nil {
		lib.Fatal("%v", err)
	}
	b, _ := json.Marshal(map[string]any{"id": "crash:" + sub, "kind": "crash", "part": sub, "fatal": c.Fatal, "site": c.Site})
	f.Write(append(b, '\n'))
	f.Close()
}
