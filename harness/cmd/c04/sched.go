package main

import (
	"runtime"
	"sync"
	"time"

	"github.com/verily-src/fhirpath-go/fhirpath"
	"github.com/verily-src/fhirpath-go/fhirpath/internal/opts"
	"github.com/verily-src/fhirpath-go/fhirpath/system"
	"github.com/verily-src/fhirpath-go/fhirpath/zzverif/lib"
)

// Part (ii): deterministic replay of TLC's interleavings.
//
// The evaluations of one schedule share ONE compiled expression and ONE
// resource. Every critical section of the model ends at a point where the
// library calls user code: an evaluate option (a gate option is placed before
// and after every real option) or the custom function gate(%id, k) embedded in
// the program text. A model step of evaluation v is replayed as "let v go,
// wait until v is parked at its next gate (or has returned)", so exactly the
// interleaving TLC chose is executed.

type schedStep struct {
	V   int    `json:"v"`
	Act string `json:"act"`
	K   int    `json:"k"`
}

type schedCase struct {
	ID      string      `json:"id"`
	Kind    string      `json:"kind"`
	Compile ccall       `json:"compile"`
	Evals   []ecall     `json:"evals"`
	Steps   []schedStep `json:"steps"`
}

type arrival struct {
	Kind string `json:"kind"` // opt | gate | done | stuck | foreign
	K    int    `json:"k"`
	V    int    `json:"v"` // the evaluation that announced itself (its %id, or the goroutine's own id for opt/done)
}

type controller struct {
	mu     sync.Mutex
	free   bool
	freeCh chan struct{}
	arr    chan arrival
	rel    map[int]chan struct{}
}

func newController(vs []int, free bool) *controller {
	c := &controller{free: free, freeCh: make(chan struct{}), arr: make(chan arrival, 1024), rel: map[int]chan struct{}{}}
	for _, v := range vs {
		c.rel[v] = make(chan struct{}, 256)
	}
	if free {
		close(c.freeCh)
	}
	return c
}

func (c *controller) setFree() {
	c.mu.Lock()
	if !c.free {
		c.free = true
		close(c.freeCh)
	}
	c.mu.Unlock()
}

// block parks the calling evaluation v at gate (kind, k) until released.
func (c *controller) block(v int, kind string, k int) {
	c.mu.Lock()
	free := c.free
	c.mu.Unlock()
	if free {
		return
	}
	c.arr <- arrival{kind, k, v}
	rel, ok := c.rel[v]
	if !ok {
		// an evaluation announced an id no evaluation of this schedule has
		<-c.freeCh
		return
	}
	select {
	case <-rel:
	case <-c.freeCh:
	}
}

func (c *controller) gateFn() any {
	return func(in system.Collection, id system.Integer, k system.Integer) (system.Collection, error) {
		c.block(int(id), "gate", int(k))
		return system.Collection{k}, nil
	}
}

func (c *controller) gatedEvalOpts(v int, os []eopt) []fhirpath.EvaluateOption {
	out := []fhirpath.EvaluateOption{}
	gate := func(k int) fhirpath.EvaluateOption {
		return opts.Transform(func(cfg *opts.EvaluateConfig) error {
			c.block(v, "opt", k)
			return nil
		})
	}
	out = append(out, gate(0))
	for k, o := range os {
		out = append(out, realEvalOpt(o), gate(k+1))
	}
	return out
}

const stepWait = 10 * time.Second

type evalObs struct {
	Out lib.Outcome `json:"out"`
	T0  inst        `json:"t0"`
	T1  inst        `json:"t1"`
	Iso lib.Outcome `json:"iso"`
	I0  inst        `json:"i0"`
	I1  inst        `json:"i1"`
}

func runSched(casesPath, obsPath string) {
	cases := readCases[schedCase](casesPath)
	w := newLineWriter(obsPath)
	workers := runtime.NumCPU() / 2
	if workers < 2 {
		workers = 2
	}
	lib.ParallelMap(len(cases), workers, func(i int) {
		w.Write(replaySchedule(cases[i]))
	})
	w.Close()
}

func replaySchedule(sc schedCase) map[string]any {
	vs := []int{}
	calls := map[int]ecall{}
	for _, e := range sc.Evals {
		vs = append(vs, e.V)
		calls[e.V] = e
	}
	// one resource, shared by every evaluation
	pat := patient(sc.Evals[0].R)
	forest, err := lib.NewForest(pat)
	if err != nil {
		lib.Fatal("%v", err)
	}
	res := lib.AsResources(pat)

	ctrl := newController(vs, false)
	copts := append(scaffold(ctrl.gateFn(), time.Millisecond), modelCompileOpts(sc.Compile.Opts, sc.Compile.Eid)...)
	rec := map[string]any{"id": sc.ID, "kind": "sched", "compile": sc.Compile, "evals": sc.Evals, "steps": sc.Steps}
	e, cerr := fhirpath.Compile(sc.Compile.Text, copts...)
	if cerr != nil {
		rec["cerr"] = lib.Ascii(cerr.Error())
		rec["arr"] = []arrival{}
		rec["obs"] = []evalObs{}
		rec["degraded"] = false
		return rec
	}
	rec["cerr"] = ""

	results := map[int]*evalObs{}
	var rmu sync.Mutex
	started := map[int]bool{}
	finished := map[int]bool{}
	arrs := []arrival{}
	degraded := false
	var wg sync.WaitGroup
	for _, st := range sc.Steps {
		v := st.V
		if finished[v] {
			arrs = append(arrs, arrival{"stuck", -1, v})
			continue
		}
		if !started[v] {
			started[v] = true
			wg.Add(1)
			go func(v int) {
				defer wg.Done()
				out, t0, t1 := evalOutcome(forest, e, res, ctrl.gatedEvalOpts(v, calls[v].Opts), 3*stepWait)
				rmu.Lock()
				results[v] = &evalObs{Out: out, T0: t0, T1: t1}
				rmu.Unlock()
				ctrl.arr <- arrival{"done", 0, v}
			}(v)
		} else {
			ctrl.rel[v] <- struct{}{}
		}
		select {
		case a := <-ctrl.arr:
			if a.V != v {
				// another evaluation moved, or v announced itself under a foreign id: the
				// schedule cannot be imposed; let everything run
				a.Kind = "foreign"
				degraded = true
				ctrl.setFree()
			}
			arrs = append(arrs, a)
			if a.Kind == "done" {
				finished[v] = true
			}
		case <-time.After(stepWait):
			// v did not reach its next gate: the schedule cannot be imposed; let everything run
			arrs = append(arrs, arrival{"stuck", 0, v})
			degraded = true
			ctrl.setFree()
		}
		if degraded {
			break
		}
		time.Sleep(2 * time.Millisecond) // Tick: the clock advances between any two steps
	}
	// whatever is still parked (a schedule the implementation did not follow) is let go
	ctrl.setFree()
	for _, v := range vs {
		if !started[v] {
			started[v] = true
			wg.Add(1)
			go func(v int) {
				defer wg.Done()
				out, t0, t1 := evalOutcome(forest, e, res, ctrl.gatedEvalOpts(v, calls[v].Opts), 3*stepWait)
				rmu.Lock()
				results[v] = &evalObs{Out: out, T0: t0, T1: t1}
				rmu.Unlock()
			}(v)
		}
	}
	wg.Wait()

	// the isolated sequential reference: a fresh Compile of the same text and options, one evaluation at a time
	isoCtrl := newController(vs, true)
	isoOpts := append(scaffold(isoCtrl.gateFn(), time.Millisecond), modelCompileOpts(sc.Compile.Opts, sc.Compile.Eid)...)
	ie, ierr := fhirpath.Compile(sc.Compile.Text, isoOpts...)
	obs := []evalObs{}
	for _, v := range vs {
		o := results[v]
		if o == nil {
			o = &evalObs{Out: lib.TimeoutOutcome()}
		}
		if ierr != nil {
			o.Iso = lib.ErrOutcome("cerr", ierr)
		} else {
			o.Iso, o.I0, o.I1 = evalOutcome(forest, ie, res, realEvalOpts(calls[v].Opts), stepWait)
		}
		obs = append(obs, *o)
	}
	rec["arr"] = arrs
	rec["obs"] = obs
	rec["degraded"] = degraded
	return rec
}
