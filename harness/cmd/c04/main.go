// Command c04 replays the C04 cases (Compile-call histories, gated schedules,
// time programs) against the real code and runs the free-running stress test.
//
//	c04 hist  cases.ndjson obs.ndjson
//	c04 sched cases.ndjson obs.ndjson
//	c04 time  cases.ndjson obs.ndjson
//	c04 stress <config.json> trace.ndjson        (binary built with -race)
//	c04 funcs - funcs.ndjson                     (the implementation's function tables)
package main

import (
	"os"

	"github.com/verily-src/fhirpath-go/fhirpath/zzverif/lib"
)

func main() {
	if len(os.Args) != 4 {
		lib.Fatal("usage: c04 hist|sched|time|stress <in> <out>")
	}
	switch os.Args[1] {
	case "hist":
		withChild("histchild", os.Args[2], os.Args[3])
	case "sched":
		withChild("schedchild", os.Args[2], os.Args[3])
	case "histchild":
		runHist(os.Args[2], os.Args[3])
	case "schedchild":
		runSched(os.Args[2], os.Args[3])
	case "time":
		runTime(os.Args[2], os.Args[3])
	case "timechild":
		runTimeChild(os.Args[2], os.Args[3])
	case "rebind":
		cmdRebind(os.Args[3:])
	case "funcs":
		dumpFuncs(os.Args[3])
	case "stress":
		runStress(os.Args[2], os.Args[3])
	case "stresschild":
		runStressChild(os.Args[2], os.Args[3])
	default:
		lib.Fatal("unknown subcommand %q", os.Args[1])
	}
}
