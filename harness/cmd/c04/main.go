package main

import (
	"fmt"
	"time"

	"github.com/verily-src/fhirpath-go/fhirpath"
	"github.com/verily-src/fhirpath-go/fhirpath/compopts"
	"github.com/verily-src/fhirpath-go/fhirpath/evalopts"
	"github.com/verily-src/fhirpath-go/fhirpath/internal/expr"
	"github.com/verily-src/fhirpath-go/fhirpath/internal/funcs"
	"github.com/verily-src/fhirpath-go/fhirpath/patch"
	"github.com/verily-src/fhirpath-go/fhirpath/system"
	"github.com/verily-src/fhirpath-go/fhirpath/zzverif/lib"
)

func main() {
	p := lib.LoadModelResource("MR1")
	res := lib.AsResources(p)
	forest, _ := lib.NewForest(p)
	vf := func(in system.Collection) (system.Collection, error) { return system.Collection{system.Integer(7)}, nil }
	emit := func(in system.Collection, a, b, c any) (system.Collection, error) { return system.Collection{a, b, c}, nil }
	gate := func(in system.Collection, id system.Integer, k system.Integer) (system.Collection, error) {
		fmt.Println("gate", id, k, len(in))
		return system.Collection{k}, nil
	}
	try := func(src string, co []fhirpath.CompileOption, eo ...fhirpath.EvaluateOption) {
		fmt.Printf("%-60s %v\n", src, lib.EvalOutcome(forest, src, res, co, eo))
	}
	try("exists()", nil)
	try("join()", nil)
	try("join()", []fhirpath.CompileOption{compopts.WithExperimentalFuncs()})
	try("vfA()", nil)
	try("vfA()", []fhirpath.CompileOption{compopts.AddFunction("vfA", vf)})
	try("join()", []fhirpath.CompileOption{compopts.AddFunction("join", vf), compopts.WithExperimentalFuncs()})
	try("join()", []fhirpath.CompileOption{compopts.WithExperimentalFuncs(), compopts.AddFunction("join", vf)})
	try("exists()", []fhirpath.CompileOption{compopts.AddFunction("exists", vf)})
	try("Patient.bogus", nil)
	try("Patient.bogus", []fhirpath.CompileOption{compopts.Permissive()})
	try("1", []fhirpath.CompileOption{compopts.Transform(func(e expr.Expression) expr.Expression { return e }), compopts.Transform(func(e expr.Expression) expr.Expression { return e })})
	_, err := patch.Compile("Patient.name", compopts.Transform(func(e expr.Expression) expr.Expression { return e }))
	fmt.Println("patch+transform:", err)
	_, err = patch.Compile("Patient.vfA()", compopts.AddFunction("vfA", vf))
	fmt.Println("patch+add:", err)
	t0 := time.Date(2024, 2, 29, 23, 59, 58, 123000000, time.FixedZone("x", 19800))
	co := []fhirpath.CompileOption{compopts.AddFunction("emit", emit), compopts.AddFunction("gate", gate)}
	try("emit(gate(%id, 1), now(), %x)", co, evalopts.EnvVariable("id", system.Integer(2)), evalopts.EnvVariable("x", system.Integer(5)), evalopts.OverrideTime(t0))
	try("emit(today(), timeOfDay(), %context.name.given.count())", co, evalopts.OverrideTime(t0))
	try("emit(today(), timeOfDay(), now())", co)
	try("Patient.name.where(gate(%id,1) = 1 and given.count() = %x).family & '/' & gate(%id,2).toString() & %x.toString()", co, evalopts.EnvVariable("id", system.Integer(2)), evalopts.EnvVariable("x", system.Integer(1)))
	try("Patient.id", co)
	try("%context.id", co)
	try("now().toString()", co, evalopts.OverrideTime(t0))
	try("now() = now()", co)
	try("today().toString() & timeOfDay().toString()", co, evalopts.OverrideTime(t0))
	ks := 0
	for range funcs.Clone() {
		ks++
	}
	fmt.Println("clone keys", ks)
}
