package main

import (
	"fmt"
	"runtime"
	"sync"

	"github.com/verily-src/fhirpath-go/fhirpath"
	"github.com/verily-src/fhirpath-go/fhirpath/evalopts"
	"github.com/verily-src/fhirpath-go/fhirpath/system"
	"github.com/verily-src/fhirpath-go/fhirpath/zzverif/lib"
	"github.com/verily-src/fhirpath-go/internal/fhir"
)

// rebind: one compiled expression, evaluated with a variable bound to a value of one KIND, then to a value of another kind
// (another unit, a number where a Quantity was, another precision, another type), then to the first again; a fresh
// compilation is evaluated on the second binding for reference (lib.EvalCross). Only the flags are recorded - whether the
// outcome depended on what was evaluated before is judged by spec/C04_RepeatJudge.tla; what the outcome should BE is not
// this stage's business (a number against a Quantity, say, is left open by C05).
//
//	c04 rebind out.ndjson
func cmdRebind(args []string) {
	if len(args) != 1 {
		lib.Fatal("usage: c04 rebind out.ndjson")
	}
	mr1 := lib.LoadModelResource("MR1")
	forest, err := lib.NewForest(mr1)
	if err != nil {
		lib.Fatal("%v", err)
	}
	res := []fhir.Resource{mr1.(fhir.Resource)}
	q := func(v, u string) system.Any {
		x, err := system.ParseQuantity(v, u)
		if err != nil {
			lib.Fatal("%v", err)
		}
		return x
	}
	type pair struct {
		name string
		a, b system.Any
	}
	pairs := []pair{
		{"mg-kg", q("9", "mg"), q("7", "kg")},
		{"kg-int", q("7", "kg"), system.Integer(3)},
		{"int-mg", system.Integer(9), q("7", "mg")},
		{"int-dec", system.Integer(3), system.MustParseDecimal("2.5")},
		{"dec-mg", system.MustParseDecimal("2.5"), q("9", "mg")},
		{"str-str", system.String("a"), system.String("b")},
		{"str-int", system.String("5"), system.Integer(5)},
		{"year-month", system.MustParseDate("2020"), system.MustParseDate("2020-03")},
		{"date-datetime", system.MustParseDate("2020-03-01"), system.MustParseDateTime("2021-01-01T10:00:00Z")},
		{"bool-int", system.Boolean(true), system.Integer(1)},
		{"year-years", q("1", "year"), q("1", "month")},
	}
	ops := []string{"=", "!=", "<", "<=", ">", ">=", "+", "-", "*", "/", "&", "and"}
	lits := []string{"5", "5.5", "5 'mg'", "5 'kg'", "'a'", "@2020", "@2020-03-01", "true", "1 year"}
	type job struct {
		id, src string
		p       pair
	}
	var jobs []job
	for _, p := range pairs {
		for _, op := range ops {
			for _, l := range lits {
				for k, src := range []string{
					fmt.Sprintf("%%v %s %s", op, l),
					fmt.Sprintf("%s %s %%v", l, op),
					fmt.Sprintf("%%v.where($this %s %s).exists()", op, l),
					fmt.Sprintf("Patient.name.select(%%v %s %s)", op, l),
				} {
					jobs = append(jobs, job{fmt.Sprintf("rebind/%s/%s/%s/%d", p.name, op, l, k), src, p})
				}
			}
		}
	}
	w, err := lib.NewWriter(args[0])
	if err != nil {
		lib.Fatal("%v", err)
	}
	var mu sync.Mutex
	lib.ParallelMap(len(jobs), runtime.NumCPU(), func(i int) {
		j := jobs[i]
		opt := func(v system.Any) func() []fhirpath.EvaluateOption {
			return func() []fhirpath.EvaluateOption {
				return []fhirpath.EvaluateOption{evalopts.EnvVariable("v", system.Collection{v})}
			}
		}
		out, _, reeval, cross, kept := lib.EvalCross(forest, j.src, res, opt(j.p.a), res, opt(j.p.b))
		mu.Lock()
		defer mu.Unlock()
		if err := w.Write(map[string]any{"id": j.id, "src": j.src, "out": map[string]any{"k": out["k"]},
			"mut": map[string]any{"reeval_differs": reeval, "crosseval_differs": cross, "kept_result_changed": kept}}); err != nil {
			lib.Fatal("%v", err)
		}
	})
	if err := w.Close(); err != nil {
		lib.Fatal("%v", err)
	}
}
