package main

import (
	"bufio"
	"crypto/sha1"
	"encoding/hex"
	"encoding/json"
	"fmt"
	"math/rand"
	"os"
	"path/filepath"
	"sort"
	"strings"
	"sync"
	"time"

	dtpb "github.com/google/fhir/go/proto/google/fhir/proto/r4/core/datatypes_go_proto"
	"github.com/verily-src/fhirpath-go/fhirpath"
	"github.com/verily-src/fhirpath-go/fhirpath/patch"
	"github.com/verily-src/fhirpath-go/fhirpath/zzverif/lib"
	"google.golang.org/protobuf/proto"
)

// Part (iii): free-running stress under the race detector.
//
//	c04 stress cfg.json trace.ndjson       parent: runs itself as a child with GORACE/GOMAXPROCS, appends race reports
//	c04 stresschild cfg.json trace.ndjson  child: G goroutines x E shared expressions x R shared resources
//
// Every goroutine logs CallBegin/CallEnd events of its own calls with its own
// sequence number in a log of its own (no shared counter, no cross-goroutine
// clock): the logs are merged afterwards in the canonical order (phase, n, g).
// Goroutine 0 is the sequential set-up phase: it compiles the shared
// expressions and evaluates every uninterpreted program once per (resource,
// %x) in isolation, before any other goroutine exists.

type stressCfg struct {
	ID    string `json:"id"`
	G     int    `json:"g"`
	E     int    `json:"e"`
	R     int    `json:"r"`
	Procs int    `json:"procs"`
	Seed  int64  `json:"seed"`
	Calls int    `json:"calls"`
	Menu  string `json:"menu"`
	// Cover: how many passes every goroutine makes over the function-coverage programs (one program per
	// function of the implementation's tables, arguments fresh per evaluation), before its other calls.
	Cover int `json:"cover"`
	// Post: at most this many of the concurrent coverage evaluations are repeated sequentially afterwards.
	Post int `json:"post"`
}

type coverProg struct {
	Name string `json:"name"`
	Pid  int    `json:"pid"`
	Call ccall  `json:"call"`
}

type stressMenu struct {
	Shared []ccall  `json:"shared"`
	Eopts  [][]eopt `json:"eopts"`
	Ccalls []ccall  `json:"ccalls"`
	Cover  []coverProg `json:"cover"`
}

// The pool of programs the specification does not interpret (NOpaque(k) is
// program k, 1-based). They use every kind of expression node the library has;
// none of them mentions the time functions. Their value is judged only for
// being a function of (program, resource, %x).
var opaquePool = []string{
	"Patient.name.given",
	"Patient.name.where(family = 'F2').given.first()",
	"Patient.name.given.count() + %x",
	"Patient.name.select(given.first() & ' ' & family)",
	"Patient.active and Patient.name.exists()",
	"Patient.name.given.where($this.startsWith('G')).count() * %x",
	"(Patient.name.given.count() * 2).toString() & '/' & %x.toString()",
	"iif(Patient.active, Patient.name.family, Patient.id)",
	"Patient.name.given[%x - 1]",
	"Patient.name.given.skip(1).first().length() > %x",
	"-(Patient.name.given.count()) < %x",
	"Patient.name.first() is HumanName",
	"(Patient.name.first() as HumanName).family",
	"Patient.birthDate + 1 year",
	"Patient.name.given.distinct().count() = %x",
	"Patient.name.all(family.exists()) or Patient.active.not()",
	"Patient.name.given.first().substring(0, %x)",
	"Patient.bogusField",
	"Patient.name.given.tail().take(%x)",
	"Patient.name.family.single().upper().indexOf('F')",
	"%context.name.given.last() != Patient.name.given.first()",
	"Patient.birthDate.toString().toDate() = Patient.birthDate",
	"Patient.name.given.count().toDecimal() / %x",
	"Patient.id.length() implies Patient.active",
}

// patchPool: FHIRPatch operations run through ONE shared compiled
// patch.Expression, each on the calling goroutine's private clone of the
// resource. Program number 200+j; judged like the uninterpreted programs (the
// patched resource is a function of (program, resource)).
type patchProg struct {
	op   string
	path string
}

var patchPool = []patchProg{
	{"replace", "Patient.active"},
	{"delete", "Patient.name.given[0]"},
	{"replace", "Patient.name[0].family"},
	{"add", "Patient.name[0]"},
	{"insert", "Patient.name[0].given"},
	{"delete", "Patient.name.where(family = 'F2').given.first()"},
}

func runPatch(pe *patch.Expression, pp patchProg, res proto.Message, eo []fhirpath.EvaluateOption) lib.Outcome {
	var out lib.Outcome
	rep := lib.Safe(lib.DefaultDeadline, func() {
		r := res.(lib.Resource)
		var err error
		switch pp.op {
		case "replace":
			if strings.HasSuffix(pp.path, "active") {
				err = pe.Replace(r, &dtpb.Boolean{Value: false}, eo...)
			} else {
				err = pe.Replace(r, &dtpb.String{Value: "Zed"}, eo...)
			}
		case "delete":
			err = pe.Delete(r, eo...)
		case "add":
			err = pe.Add(r, "given", &dtpb.String{Value: "Added"}, eo...)
		case "insert":
			err = pe.Insert(r, &dtpb.String{Value: "Ins"}, 0, eo...)
		}
		js, merr := lib.MarshalResource(res)
		if merr != nil {
			js = []byte("unmarshalable: " + merr.Error())
		}
		k := "ok"
		if err != nil {
			k = "err"
		}
		out = lib.Outcome{"k": k, "items": string(js)}
	})
	if rep.Timeout {
		return lib.TimeoutOutcome()
	}
	if rep.Panic != "" {
		return lib.PanicOutcome(rep)
	}
	return out
}

type event struct {
	K    string      `json:"k"`
	G    int         `json:"g"`
	N    int         `json:"n"`
	Call any         `json:"call,omitempty"`
	Out  any         `json:"out,omitempty"`
	T0   *inst       `json:"t0,omitempty"`
	T1   *inst       `json:"t1,omitempty"`
	Site string      `json:"site,omitempty"`
	X    interface{} `json:"-"`
}

type plannedCall struct {
	kind  string // eval | compile
	eid   int
	r     int
	eopts []eopt
	cc    ccall
}

type sharedExpr struct {
	call   ccall
	expr   *fhirpath.Expression
	opaque bool
	broken bool              // Compile failed (never on a tree where the property holds)
	pexpr  *patch.Expression // a shared FHIRPatch expression (then expr is nil)
	pprog  patchProg
}

func hashOutcome(out lib.Outcome) string {
	b, _ := json.Marshal(map[string]any{"k": out["k"], "items": out["items"]})
	h := sha1.Sum(b)
	return hex.EncodeToString(h[:8])
}

type glog struct {
	g      int
	n      int
	events []event
}

func (l *glog) add(e event) {
	l.n++
	e.G, e.N = l.g, l.n
	l.events = append(l.events, e)
}

func runStressChild(cfgPath, outPath string) {
	var cfg stressCfg
	b, err := os.ReadFile(cfgPath)
	if err != nil {
		lib.Fatal("%v", err)
	}
	if err := json.Unmarshal(b, &cfg); err != nil {
		lib.Fatal("%v", err)
	}
	var menu stressMenu
	b, err = os.ReadFile(cfg.Menu)
	if err != nil {
		lib.Fatal("%v", err)
	}
	if err := json.Unmarshal(b, &menu); err != nil {
		lib.Fatal("menu: %v", err)
	}
	// R shared resources
	pats := []proto.Message{}
	for r := 1; r <= cfg.R; r++ {
		pats = append(pats, patient(r))
	}
	forest, err := lib.NewForest(pats...)
	if err != nil {
		lib.Fatal("%v", err)
	}
	resOf := func(r int) []lib.Resource { return lib.AsResources(pats[r-1]) }

	// ---- set-up phase (goroutine 0)
	setup := &glog{g: 0}
	shared := []*sharedExpr{}
	mi, oi, pi := 0, 0, 0
	for len(shared) < cfg.E && (mi < len(menu.Shared) || oi < len(opaquePool)) {
		if len(shared)%2 == 0 && mi < len(menu.Shared) || oi >= len(opaquePool) {
			shared = append(shared, &sharedExpr{call: menu.Shared[mi]})
			mi++
		} else if len(shared)%4 == 3 && pi < len(patchPool) {
			pi++
			pp := patchPool[pi-1]
			shared = append(shared, &sharedExpr{opaque: true, pprog: pp, call: ccall{API: "patch", Opts: []copt{}, Prog: []node{{N: "opaque", K: 200 + pi}}, Eid: 300 + pi, Text: pp.path}})
		} else {
			oi++
			shared = append(shared, &sharedExpr{opaque: true, call: ccall{API: "fhirpath", Opts: []copt{}, Prog: []node{{N: "opaque", K: oi}}, Eid: 100 + oi, Text: opaquePool[oi-1]}})
		}
	}
	for _, s := range shared {
		setup.add(event{K: "cb", Call: s.call})
		var cerr error
		if s.call.API == "patch" {
			s.pexpr, cerr = patch.Compile(s.call.Text)
		} else {
			s.expr, cerr = fhirpath.Compile(s.call.Text, append(scaffold(nil, 0), modelCompileOpts(s.call.Opts, s.call.Eid)...)...)
		}
		if cerr != nil {
			// the specification expects every shared expression to compile: the trace says what happened
			s.broken = true
			setup.add(event{K: "ce", Out: "cerr"})
			continue
		}
		setup.add(event{K: "ce", Out: "ok"})
	}
	// the function-coverage programs: compiled now, evaluated for the first time by the goroutines
	cover := []*sharedExpr{}
	skipped := []string{}
	if cfg.Cover > 0 {
		for _, cp := range menu.Cover {
			opts := append(scaffold(nil, 0), modelCompileOpts(cp.Call.Opts, cp.Call.Eid)...)
			e, err := fhirpath.Compile(cp.Call.Text, opts...)
			if err != nil {
				// the specification cannot know whether a generic form compiles; such a program is left out
				skipped = append(skipped, cp.Name)
				continue
			}
			setup.add(event{K: "cb", Call: cp.Call})
			setup.add(event{K: "ce", Out: "ok"})
			cover = append(cover, &sharedExpr{call: cp.Call, expr: e, opaque: true})
		}
		// the operator / navigation programs of opaquePool as well, as separate expressions (program 600+j)
		// that are first evaluated concurrently and with fresh %x
		for j, text := range opaquePool {
			call := ccall{API: "fhirpath", Opts: []copt{}, Prog: []node{{N: "opaque", K: 600 + j + 1}}, Eid: 1600 + j + 1, Text: text, Style: "emit"}
			e, err := fhirpath.Compile(text, scaffold(nil, 0)...)
			if err != nil {
				skipped = append(skipped, text)
				continue
			}
			setup.add(event{K: "cb", Call: call})
			setup.add(event{K: "ce", Out: "ok"})
			cover = append(cover, &sharedExpr{call: call, expr: e, opaque: true})
		}
	}
	doEval := func(l *glog, s *sharedExpr, e *fhirpath.Expression, eid, r int, eo []eopt) {
		call := map[string]any{"eid": eid, "r": r, "opts": eo}
		begin := event{K: "eb", Call: call}
		l.add(begin)
		var out lib.Outcome
		var t0, t1 inst
		if s != nil && s.pexpr != nil {
			t0 = bracketStart(time.Now())
			out = runPatch(s.pexpr, s.pprog, proto.Clone(pats[r-1]), realEvalOpts(eo))
			t1 = bracketEnd(time.Now())
		} else {
			out, t0, t1 = evalOutcome(forest, e, resOf(r), realEvalOpts(eo), lib.DefaultDeadline)
		}
		l.events[len(l.events)-1].T0 = &t0
		var o any
		if s != nil && s.opaque {
			o = map[string]any{"k": out["k"], "h": hashOutcome(out)}
		} else {
			out["h"] = ""
			o = out
		}
		l.add(event{K: "ee", Out: o, T1: &t1})
	}
	envOnly := func(x int) []eopt { return []eopt{{O: "env", Name: "x", Val: x}} }
	usable := []*sharedExpr{}
	for _, s := range shared {
		if !s.broken {
			usable = append(usable, s)
		}
	}
	if len(usable) == 0 {
		usable = nil
	}
	for _, s := range usable {
		for r := 1; r <= cfg.R; r++ {
			if s.opaque {
				for x := 1; x <= 3; x++ {
					doEval(setup, s, s.expr, s.call.Eid, r, envOnly(x))
				}
			} else {
				doEval(setup, s, s.expr, s.call.Eid, r, envOnly(1))
			}
		}
	}

	// ---- plans (drawn before the goroutines start; no shared generator)
	rng := rand.New(rand.NewSource(cfg.Seed*7919 + int64(cfg.G)*131 + int64(cfg.Procs)))
	plans := make([][]plannedCall, cfg.G+1)
	for g := 1; g <= cfg.G; g++ {
		for i := 0; i < cfg.Calls; i++ {
			if rng.Intn(8) == 0 || len(usable) == 0 {
				cc := menu.Ccalls[rng.Intn(len(menu.Ccalls))]
				cc.Eid = 1000*g + i + 1
				plans[g] = append(plans[g], plannedCall{kind: "compile", cc: cc, r: 1 + rng.Intn(cfg.R)})
			} else {
				s := usable[rng.Intn(len(usable))]
				plans[g] = append(plans[g], plannedCall{kind: "eval", eid: s.call.Eid, r: 1 + rng.Intn(cfg.R), eopts: menu.Eopts[rng.Intn(len(menu.Eopts))]})
			}
		}
	}
	byEid := map[int]*sharedExpr{}
	for _, s := range shared {
		byEid[s.call.Eid] = s
	}
	order := rng.Perm(cfg.G)

	// ---- concurrent phase
	logs := make([]*glog, cfg.G+1)
	start := make(chan struct{})
	var wg sync.WaitGroup
	for _, idx := range order {
		g := idx + 1
		logs[g] = &glog{g: g}
		wg.Add(1)
		go func(g int) {
			defer wg.Done()
			l := logs[g]
			<-start
			fresh := 0
			for pass := 0; pass < cfg.Cover; pass++ {
				for j := range cover {
					// pass 0: every goroutine takes the functions in the same order (all of them inside the
					// same function at about the same time); later passes are rotated by goroutine
					s := cover[(j+pass*g*7)%len(cover)]
					fresh++
					doEval(l, s, s.expr, s.call.Eid, 1+(g+j)%cfg.R, envOnly(g*1000+fresh))
				}
			}
			for _, pc := range plans[g] {
				if pc.kind == "eval" {
					s := byEid[pc.eid]
					doEval(l, s, s.expr, pc.eid, pc.r, pc.eopts)
					continue
				}
				l.add(event{K: "cb", Call: pc.cc})
				var fe *fhirpath.Expression
				out := "ok"
				rep := lib.Safe(lib.DefaultDeadline, func() {
					var err error
					if pc.cc.API == "patch" {
						_, err = patch.Compile(pc.cc.Text, modelCompileOpts(pc.cc.Opts, pc.cc.Eid)...)
					} else {
						fe, err = fhirpath.Compile(pc.cc.Text, modelCompileOpts(pc.cc.Opts, pc.cc.Eid)...)
					}
					if err != nil {
						out = "cerr"
					}
				})
				if rep.Timeout {
					out = "timeout"
				} else if rep.Panic != "" {
					out = "panic"
				}
				l.add(event{K: "ce", Out: out})
				if out == "ok" && fe != nil {
					// the goroutine evaluates the expression it has just compiled
					doEval(l, nil, fe, pc.cc.Eid, pc.r, envOnly(2))
				}
			}
		}(g)
	}
	close(start)
	wg.Wait()

	// ---- afterwards, sequentially: a sample of the coverage evaluations once more (same program, resource, %x)
	nsetup := len(setup.events)
	if len(cover) > 0 {
		type key struct{ eid, r, x int }
		seen := []key{}
		for g := 1; g <= cfg.G; g++ {
			for _, ev := range logs[g].events {
				if ev.K != "eb" {
					continue
				}
				c := ev.Call.(map[string]any)
				eid := c["eid"].(int)
				if eid < 1500 || eid >= 2000 {
					continue
				}
				seen = append(seen, key{eid, c["r"].(int), c["opts"].([]eopt)[0].Val})
			}
		}
		step := 1
		if cfg.Post > 0 && len(seen) > cfg.Post {
			step = (len(seen) + cfg.Post - 1) / cfg.Post
		}
		coverBy := map[int]*sharedExpr{}
		for _, s := range cover {
			coverBy[s.call.Eid] = s
		}
		for i := 0; i < len(seen); i += step {
			k := seen[i]
			s := coverBy[k.eid]
			doEval(setup, s, s.expr, k.eid, k.r, envOnly(k.x))
		}
	}
	post := setup.events[nsetup:]

	// ---- merge: set-up first, then (n, g), then the sequential repetition
	events := append([]event{}, setup.events[:nsetup]...)
	rest := []event{}
	for g := 1; g <= cfg.G; g++ {
		rest = append(rest, logs[g].events...)
	}
	sort.SliceStable(rest, func(i, j int) bool {
		if rest[i].N != rest[j].N {
			return rest[i].N < rest[j].N
		}
		return rest[i].G < rest[j].G
	})
	events = append(events, rest...)
	events = append(events, post...)
	writeTrace(outPath, cfg, events, skipped)
}

func writeTrace(path string, cfg stressCfg, events []event, skipped []string) {
	f, err := os.Create(path)
	if err != nil {
		lib.Fatal("%v", err)
	}
	w := bufio.NewWriter(f)
	if skipped == nil {
		skipped = []string{}
	}
	b, err := json.Marshal(map[string]any{"id": cfg.ID, "cfg": cfg, "events": events, "skipped": skipped})
	if err != nil {
		lib.Fatal("%v", err)
	}
	w.Write(b)
	w.WriteByte('\n')
	if err := w.Flush(); err != nil {
		lib.Fatal("%v", err)
	}
	f.Close()
}

func runStress(cfgPath, outPath string) {
	var cfg stressCfg
	b, err := os.ReadFile(cfgPath)
	if err != nil {
		lib.Fatal("%v", err)
	}
	if err := json.Unmarshal(b, &cfg); err != nil {
		lib.Fatal("%v", err)
	}
	dir, err := os.MkdirTemp(filepath.Dir(outPath), "race-")
	if err != nil {
		lib.Fatal("%v", err)
	}
	defer os.RemoveAll(dir)
	childOut := filepath.Join(dir, "trace.json")
	if c := runChild([]string{
		"GORACE=halt_on_error=0 exitcode=0 log_path=" + filepath.Join(dir, "race"),
		fmt.Sprintf("GOMAXPROCS=%d", cfg.Procs)}, "stresschild", cfgPath, childOut); c != nil {
		// the run died of a runtime fatal error inside the library: the trace is that one event
		eb, _ := json.Marshal(event{K: "race", Site: "runtime-fatal:" + c.Fatal + "|" + c.Site})
		ob, _ := json.Marshal(map[string]any{"id": cfg.ID, "cfg": cfg, "events": []json.RawMessage{eb}, "races": 1, "skipped": []string{}})
		os.WriteFile(outPath, append(ob, '\n'), 0o644)
		return
	}
	var tr struct {
		ID      string            `json:"id"`
		Cfg     stressCfg         `json:"cfg"`
		Events  []json.RawMessage `json:"events"`
		Skipped []string          `json:"skipped"`
	}
	b, err = os.ReadFile(childOut)
	if err != nil {
		lib.Fatal("%v", err)
	}
	if err := json.Unmarshal(b, &tr); err != nil {
		lib.Fatal("%v", err)
	}
	// every report of the race detector becomes an event of the trace
	logsFound, _ := filepath.Glob(filepath.Join(dir, "race.*"))
	sites := map[string]bool{}
	for _, lf := range logsFound {
		txt, err := os.ReadFile(lf)
		if err != nil {
			lib.Fatal("%v", err)
		}
		for _, s := range raceSites(string(txt)) {
			sites[s] = true
		}
	}
	keys := []string{}
	for s := range sites {
		keys = append(keys, s)
	}
	sort.Strings(keys)
	for _, s := range keys {
		eb, _ := json.Marshal(event{K: "race", Site: s})
		tr.Events = append(tr.Events, eb)
	}
	f, err := os.Create(outPath)
	if err != nil {
		lib.Fatal("%v", err)
	}
	if tr.Skipped == nil {
		tr.Skipped = []string{}
	}
	ob, _ := json.Marshal(map[string]any{"id": tr.ID, "cfg": tr.Cfg, "events": tr.Events, "races": len(keys), "skipped": tr.Skipped})
	f.Write(ob)
	f.Write([]byte("\n"))
	f.Close()
}

// raceSites turns the race detector's log into one site per report: the
// innermost frames inside the library of the two conflicting accesses.
func raceSites(log string) []string {
	out := []string{}
	for _, block := range strings.Split(log, "WARNING: DATA RACE")[1:] {
		if i := strings.Index(block, "=================="); i >= 0 {
			block = block[:i]
		}
		frames := []string{}
		// an access section starts with a line that does not begin with a space and ends at an empty line
		for _, sec := range strings.Split(block, "\n\n") {
			lines := strings.Split(strings.TrimLeft(sec, "\n"), "\n")
			if len(lines) == 0 {
				continue
			}
			head := lines[0]
			if !(strings.Contains(head, " at 0x") || strings.Contains(head, "by goroutine") || strings.Contains(head, "by main")) || strings.HasPrefix(head, "Goroutine") {
				continue
			}
			site := "outside-library"
			for _, l := range lines[1:] {
				l = strings.TrimSpace(l)
				if strings.HasPrefix(l, "github.com/verily-src/fhirpath-go/") && !strings.Contains(l, "/zzverif/") {
					fn := strings.TrimPrefix(l, "github.com/verily-src/fhirpath-go/")
					if j := strings.LastIndex(fn, "("); j > 0 {
						fn = fn[:j]
					}
					site = lib.Ascii(fn)
					break
				}
			}
			frames = append(frames, site)
			if len(frames) == 2 {
				break
			}
		}
		sort.Strings(frames)
		out = append(out, strings.Join(frames, "<>"))
	}
	return out
}
