package main

import (
	"encoding/json"
	"fmt"
	"reflect"
	"sort"
	"time"

	"github.com/verily-src/fhirpath-go/fhirpath"
	"github.com/verily-src/fhirpath-go/fhirpath/compopts"
	"github.com/verily-src/fhirpath-go/fhirpath/evalopts"
	"github.com/verily-src/fhirpath-go/fhirpath/internal/expr"
	"github.com/verily-src/fhirpath-go/fhirpath/internal/funcs"
	"github.com/verily-src/fhirpath-go/fhirpath/system"
	"github.com/verily-src/fhirpath-go/fhirpath/zzverif/lib"
	"google.golang.org/protobuf/proto"
)

// ---------------------------------------------------------------- case records (emitted by TLC)

type node struct {
	N    string `json:"n"`
	K    int    `json:"k"`
	Name string `json:"name"`
}

type copt struct {
	O    string `json:"o"`
	Name string `json:"name"`
}

type ccall struct {
	API  string `json:"api"`
	Opts []copt `json:"opts"`
	Prog []node `json:"prog"`
	Eid  int    `json:"eid"`
	Text string `json:"text"`
	// Style says how the specification rendered the program (emit | concat | bare); echoed to the judge.
	Style string `json:"style"`
}

type cal struct {
	Y, Mo, D, H, Mi, Sec, Ms int
}

func (c *cal) UnmarshalJSON(b []byte) error {
	var m map[string]int
	if err := json.Unmarshal(b, &m); err != nil {
		return err
	}
	*c = cal{m["y"], m["mo"], m["d"], m["h"], m["mi"], m["sec"], m["ms"]}
	return nil
}

type eopt struct {
	O    string `json:"o"`
	Name string `json:"name"`
	Val  int    `json:"val"`
	Inst int    `json:"inst"`
	Off  int    `json:"off"`
	Cal  cal    `json:"cal"`
}

type ecall struct {
	V    int    `json:"v"`
	Eid  int    `json:"eid"`
	R    int    `json:"r"`
	Opts []eopt `json:"opts"`
}

// ---------------------------------------------------------------- custom functions

// markerFn is the function registered by option k of Compile call c (the
// specification's Marker(c, k)).
func markerFn(c, k int) any {
	v := system.Integer(int32(c*100 + k))
	return func(in system.Collection) (system.Collection, error) {
		return system.Collection{v}, nil
	}
}

var (
	collType = reflect.TypeOf(system.Collection{})
	anyType  = reflect.TypeOf((*any)(nil)).Elem()
	errType  = reflect.TypeOf((*error)(nil)).Elem()
)

// emitFn builds emitN: a function of N singleton arguments (of any type) that
// returns them as one collection. The arguments are evaluated by the library
// left to right before the function is called.
func emitFn(n int) any {
	in := []reflect.Type{collType}
	for i := 0; i < n; i++ {
		in = append(in, anyType)
	}
	ft := reflect.FuncOf(in, []reflect.Type{collType, errType}, false)
	return reflect.MakeFunc(ft, func(args []reflect.Value) []reflect.Value {
		out := make(system.Collection, 0, n)
		for _, a := range args[1:] {
			out = append(out, a.Interface())
		}
		return []reflect.Value{reflect.ValueOf(out), reflect.Zero(errType)}
	}).Interface()
}

func pauseFn(d time.Duration) any {
	return func(in system.Collection) (system.Collection, error) {
		time.Sleep(d)
		return system.Collection{system.Integer(0)}, nil
	}
}

const maxEmit = 12

// scaffold returns the compile options every schedule/time/stress program
// gets: emit1..emitN, pause and (when g is not nil) gate.
func scaffold(g any, pause time.Duration) []fhirpath.CompileOption {
	out := []fhirpath.CompileOption{}
	for n := 1; n <= maxEmit; n++ {
		out = append(out, compopts.AddFunction(fmt.Sprintf("emit%d", n), emitFn(n)))
	}
	out = append(out, compopts.AddFunction("pause", pauseFn(pause)))
	if g != nil {
		out = append(out, compopts.AddFunction("gate", g))
	}
	return out
}

// modelCompileOpts turns the model's option list into real options; eid is the
// Compile call's id (markers depend on it).
func modelCompileOpts(os []copt, eid int) []fhirpath.CompileOption {
	out := []fhirpath.CompileOption{}
	for k, o := range os {
		out = append(out, realCompileOpt(o, eid, k+1))
	}
	return out
}

func realCompileOpt(o copt, eid, k int) fhirpath.CompileOption {
	switch o.O {
	case "add":
		return compopts.AddFunction(o.Name, markerFn(eid, k))
	case "exp":
		return compopts.WithExperimentalFuncs()
	case "perm":
		return compopts.Permissive()
	case "xform":
		return compopts.Transform(func(e expr.Expression) expr.Expression { return e })
	}
	lib.Fatal("unknown compile option %q", o.O)
	return nil
}

func realEvalOpt(o eopt) fhirpath.EvaluateOption {
	switch o.O {
	case "env":
		return evalopts.EnvVariable(o.Name, system.Integer(int32(o.Val)))
	case "time":
		c := o.Cal
		return evalopts.OverrideTime(time.Date(c.Y, time.Month(c.Mo), c.D, c.H, c.Mi, c.Sec, c.Ms*1000000, time.FixedZone("", o.Off*60)))
	}
	lib.Fatal("unknown evaluate option %q", o.O)
	return nil
}

func realEvalOpts(os []eopt) []fhirpath.EvaluateOption {
	out := []fhirpath.EvaluateOption{}
	for _, o := range os {
		out = append(out, realEvalOpt(o))
	}
	return out
}

// ---------------------------------------------------------------- resources

// patient builds model Patient r: id "p<r>", r given names.
func patient(r int) proto.Message {
	given := ""
	for i := 0; i < r; i++ {
		if i > 0 {
			given += ","
		}
		given += fmt.Sprintf("%q", fmt.Sprintf("G%d_%d", r, i))
	}
	js := fmt.Sprintf(`{"resourceType":"Patient","id":"p%d","active":%v,"name":[{"family":"F%d","given":[%s]}],"birthDate":"19%02d-03-0%d"}`,
		r, r%2 == 1, r, given, 70+r, r)
	m, err := lib.ParseResource([]byte(js))
	if err != nil {
		lib.Fatal("patient %d: %v", r, err)
	}
	return m
}

// ---------------------------------------------------------------- instants

type inst struct {
	Eday int64 `json:"eday"`
	Ems  int64 `json:"ems"`
}

func instOfMillis(ms int64) inst {
	const day = 86400000
	d := ms / day
	r := ms % day
	if r < 0 {
		r += day
		d--
	}
	return inst{d, r}
}

// bracketStart / bracketEnd: the call's own clock readings, widened to whole
// milliseconds (now() is truncated to milliseconds).
func bracketStart(t time.Time) inst { return instOfMillis(t.UnixMilli()) }
func bracketEnd(t time.Time) inst   { return instOfMillis(t.UnixMilli() + 1) }

// annotateInstants adds eday/ems to every dateTime item of an outcome: the
// instant the item's own fields denote (computed with the standard library,
// independently of fhirpath-go).
func annotateInstants(out lib.Outcome) {
	items, ok := out["items"].([]lib.Item)
	if !ok {
		return
	}
	for _, it := range items {
		if it["t"] != "dt" {
			continue
		}
		geti := func(k string) int {
			switch v := it[k].(type) {
			case int:
				return v
			case int64:
				return int(v)
			case float64:
				return int(v)
			}
			return 0
		}
		t := time.Date(geti("y"), time.Month(max(geti("mo"), 1)), max(geti("d"), 1), geti("h"), geti("mi"), geti("sec"), geti("ms")*1000000, time.UTC)
		ms := t.UnixMilli() - int64(geti("off"))*60000
		i := instOfMillis(ms)
		it["eday"], it["ems"] = i.Eday, i.Ems
	}
}

// ---------------------------------------------------------------- evaluation

// evalOutcome evaluates a compiled expression under recover and a deadline.
func evalOutcome(f *lib.Forest, e *fhirpath.Expression, res []lib.Resource, eo []fhirpath.EvaluateOption, deadline time.Duration) (lib.Outcome, inst, inst) {
	var out lib.Outcome
	var t0, t1 time.Time
	rep := lib.Safe(deadline, func() {
		t0 = time.Now()
		c, err := e.Evaluate(res, eo...)
		t1 = time.Now()
		if err != nil {
			out = lib.ErrOutcome("err", err)
			return
		}
		out = lib.OkOutcome(f.ProjectCollection(c))
	})
	if rep.Timeout {
		return lib.TimeoutOutcome(), bracketStart(time.Now()), bracketEnd(time.Now())
	}
	if rep.Panic != "" {
		return lib.PanicOutcome(rep), bracketStart(time.Now()), bracketEnd(time.Now())
	}
	annotateInstants(out)
	return out, bracketStart(t0), bracketEnd(t1)
}

// ---------------------------------------------------------------- function-table snapshots

type fnSig struct {
	ptr      uintptr
	min, max int
	isType   bool
}

type tableSnap map[string]fnSig

func snapTable(t funcs.FunctionTable) tableSnap {
	out := tableSnap{}
	for k, f := range t {
		out[k] = fnSig{reflect.ValueOf(f.Func).Pointer(), f.MinArity, f.MaxArity, f.IsTypeFunction}
	}
	return out
}

// diffTable describes t relative to the snapshot base0: names only in t, names
// only in base0, names whose entry differs (function pointer or arities).
func diffTable(t, base0 tableSnap) (extra, missing, altered []string) {
	extra, missing, altered = []string{}, []string{}, []string{}
	for k, s := range t {
		b, ok := base0[k]
		if !ok {
			extra = append(extra, k)
		} else if b != s {
			altered = append(altered, k)
		}
	}
	for k := range base0 {
		if _, ok := t[k]; !ok {
			missing = append(missing, k)
		}
	}
	sort.Strings(extra)
	sort.Strings(missing)
	sort.Strings(altered)
	return
}

func keysOf(t tableSnap) []string {
	out := []string{}
	for k := range t {
		out = append(out, k)
	}
	sort.Strings(out)
	return out
}

func readCases[T any](path string) []T {
	var out []T
	if err := lib.ReadNDJSON(path, func(b []byte) error {
		var c T
		if err := json.Unmarshal(b, &c); err != nil {
			return err
		}
		out = append(out, c)
		return nil
	}); err != nil {
		lib.Fatal("%v", err)
	}
	return out
}
