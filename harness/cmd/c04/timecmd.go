package main

import (
	"encoding/json"
	"os"
	"time"
	_ "time/tzdata"

	"github.com/verily-src/fhirpath-go/fhirpath"
	"github.com/verily-src/fhirpath-go/fhirpath/zzverif/lib"
)

// Part (iv): time programs, re-executed under four process time zones.
//
//	c04 time cases.ndjson obs.ndjson        parent: runs itself once per TZ and merges
//	c04 timechild cases.ndjson out.ndjson   child: evaluates every case under the TZ it was started with

type timeCase struct {
	ID      string `json:"id"`
	Kind    string `json:"kind"`
	Compile ccall  `json:"compile"`
	Eval    ecall  `json:"eval"`
}

var timeZones = []string{"UTC", "Asia/Kolkata", "America/St_Johns", "Pacific/Chatham"}

type tzObs struct {
	TZ    string      `json:"tz"`
	Local int         `json:"local"` // the child's local UTC offset in minutes when it ran (evidence that TZ took effect)
	Out   lib.Outcome `json:"out"`
	T0    inst        `json:"t0"`
	T1    inst        `json:"t1"`
}

func runTimeChild(casesPath, outPath string) {
	cases := readCases[timeCase](casesPath)
	w, err := lib.NewWriter(outPath)
	if err != nil {
		lib.Fatal("%v", err)
	}
	_, off := time.Now().Zone()
	for _, tc := range cases {
		pat := patient(tc.Eval.R)
		forest, err := lib.NewForest(pat)
		if err != nil {
			lib.Fatal("%v", err)
		}
		res := lib.AsResources(pat)
		o := tzObs{TZ: os.Getenv("TZ"), Local: off / 60}
		copts := append(scaffold(nil, 30*time.Millisecond), modelCompileOpts(tc.Compile.Opts, tc.Compile.Eid)...)
		e, cerr := fhirpath.Compile(tc.Compile.Text, copts...)
		if cerr != nil {
			o.Out = lib.ErrOutcome("cerr", cerr)
		} else {
			o.Out, o.T0, o.T1 = evalOutcome(forest, e, res, realEvalOpts(tc.Eval.Opts), lib.DefaultDeadline)
		}
		if err := w.Write(map[string]any{"id": tc.ID, "obs": o}); err != nil {
			lib.Fatal("%v", err)
		}
	}
	if err := w.Close(); err != nil {
		lib.Fatal("%v", err)
	}
}

func runTime(casesPath, obsPath string) {
	cases := readCases[timeCase](casesPath)
	per := map[string][]tzObs{}
	type result struct {
		tz    string
		path  string
		crash *crash
	}
	ch := make(chan result, len(timeZones))
	for i, tz := range timeZones {
		go func(i int, tz string) {
			out := obsPath + ".tz" + string(rune('0'+i))
			c := runChild([]string{"TZ=" + tz}, "timechild", casesPath, out)
			ch <- result{tz, out, c}
		}(i, tz)
	}
	results := map[string]result{}
	var crashed *crash
	for range timeZones {
		r := <-ch
		if r.crash != nil {
			crashed = r.crash
		}
		results[r.tz] = r
	}
	if crashed != nil {
		w := newLineWriter(obsPath)
		w.Write(map[string]any{"id": "crash:timechild", "kind": "crash", "part": "timechild", "fatal": crashed.Fatal, "site": crashed.Site})
		w.Close()
		return
	}
	for _, tz := range timeZones {
		r := results[tz]
		if err := lib.ReadNDJSON(r.path, func(b []byte) error {
			var rec struct {
				ID  string `json:"id"`
				Obs tzObs  `json:"obs"`
			}
			if err := json.Unmarshal(b, &rec); err != nil {
				return err
			}
			per[rec.ID] = append(per[rec.ID], rec.Obs)
			return nil
		}); err != nil {
			lib.Fatal("%v", err)
		}
		os.Remove(r.path)
	}
	w, err := lib.NewWriter(obsPath)
	if err != nil {
		lib.Fatal("%v", err)
	}
	for _, tc := range cases {
		if len(per[tc.ID]) != len(timeZones) {
			lib.Fatal("time case %s: %d of %d time zones reported", tc.ID, len(per[tc.ID]), len(timeZones))
		}
		if err := w.Write(map[string]any{"id": tc.ID, "kind": "time", "compile": tc.Compile, "eval": tc.Eval, "tzs": per[tc.ID]}); err != nil {
			lib.Fatal("%v", err)
		}
	}
	if err := w.Close(); err != nil {
		lib.Fatal("%v", err)
	}
}
