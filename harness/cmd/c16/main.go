// Command c16 replays the C16 case space (function name x argument count x
// configuration) against the real code.
//
//	c16 run cases.ndjson obs.ndjson ORDER
//
// ORDER is a process history such as DED: an epoch of all default-configuration
// cases, then all WithExperimentalFuncs cases, then the default ones again, all
// in this one process, so that what Compile accepts and what funcs.Clone()
// returns can be compared before and after compilations under the other
// configuration. Every record carries its epoch, the configurations compiled in
// earlier epochs (hist) and the table entry as read at process start (tbl0).
//
// For every case and epoch it records
//
//	accept  the implementation's table entry for the name, read through
//	        funcs.Clone / funcs.AddExperimentalFuncs, and what Compile said
//	        about the default call
//	eval    the outcome of evaluating the default call (when it compiled)
//	probe   the outcome of each probe text of the case
//
// Names that occur only in the implementation's tables get cases made here
// (origin "impl": `%ints.name(1, ...)`), judged by the same TLA+ judge.
// Nothing here decides what is right.
package main

import (
	"encoding/json"
	"fmt"
	"os"
	"reflect"
	"runtime"
	"sort"
	"strings"
	"time"

	"github.com/verily-src/fhirpath-go/fhirpath"
	"github.com/verily-src/fhirpath-go/fhirpath/compopts"
	"github.com/verily-src/fhirpath-go/fhirpath/evalopts"
	"github.com/verily-src/fhirpath-go/fhirpath/internal/compile"
	"github.com/verily-src/fhirpath-go/fhirpath/internal/expr"
	"github.com/verily-src/fhirpath-go/fhirpath/internal/funcs"
	"github.com/verily-src/fhirpath-go/fhirpath/internal/funcs/impl"
	"github.com/verily-src/fhirpath-go/fhirpath/system"
	"github.com/verily-src/fhirpath-go/fhirpath/zzverif/lib"
)

type caseRec struct {
	ID     string   `json:"id"`
	Name   string   `json:"name"`
	Count  int      `json:"count"`
	Cfg    string   `json:"cfg"`
	Origin string   `json:"origin"`
	Text   string   `json:"text"`
	Probes []string `json:"probes"`
}

type tblEntry struct {
	Present bool   `json:"present"`
	Min     int    `json:"min"`
	Max     int    `json:"max"`
	Sym     string `json:"sym"`
}

func symbol(f funcs.FHIRPathFunc) string {
	if f == nil {
		return "nil"
	}
	n := runtime.FuncForPC(reflect.ValueOf(f).Pointer()).Name()
	if i := strings.LastIndex(n, "/"); i >= 0 {
		n = n[i+1:]
	}
	return lib.Ascii(n)
}

// CustomName is the function the configuration "custom" registers
// (WithExperimentalFuncs followed by AddFunction): zzCustom(x) = (x, count of
// its input), as stated in spec/FPFunctions.tla.
const CustomName = "zzCustom"

func customFn(in system.Collection, x any) (system.Collection, error) {
	return system.Collection{x, system.Integer(len(in))}, nil
}

// tableFor reads the implementation's table for a configuration through
// funcs.Clone / funcs.AddExperimentalFuncs (and funcs.ToFunction for the custom
// entry). It always returns a private copy and never writes into a map the
// implementation handed out.
func tableFor(cfg string) funcs.FunctionTable {
	// the table Compile itself resolves names in for this configuration: compile.PopulateConfig folds the very
	// options the configuration passes to Compile (no reconstruction from the tables' internals)
	var options []fhirpath.CompileOption
	if cfg == "experimental" || cfg == "custom" {
		options = append(options, compopts.WithExperimentalFuncs())
	}
	if cfg == "custom" {
		options = append(options, compopts.AddFunction(CustomName, customFn))
	}
	config, err := compile.PopulateConfig(options...)
	if err != nil {
		lib.Fatal("configuration %s: %v", cfg, err)
	}
	t := make(funcs.FunctionTable, len(config.Table))
	for k, v := range config.Table {
		t[k] = v
	}
	return t
}

func entry(t funcs.FunctionTable, name string) tblEntry {
	f, ok := t[name]
	if !ok {
		return tblEntry{Sym: "none"}
	}
	return tblEntry{Present: true, Min: f.MinArity, Max: f.MaxArity, Sym: symbol(f.Func)}
}

func copts(cfg string) []fhirpath.CompileOption {
	switch cfg {
	case "experimental":
		return []fhirpath.CompileOption{compopts.WithExperimentalFuncs()}
	case "custom":
		return []fhirpath.CompileOption{compopts.WithExperimentalFuncs(), compopts.AddFunction(CustomName, customFn)}
	}
	return nil
}

var fixedNow = time.Date(2021, 2, 3, 4, 5, 6, 789000000, time.UTC)

func eopts() []fhirpath.EvaluateOption {
	type C = system.Collection
	return []fhirpath.EvaluateOption{
		evalopts.OverrideTime(fixedNow),
		evalopts.EnvVariable("ints", C{system.Integer(1), system.Integer(2), system.Integer(2), system.Integer(3)}),
		evalopts.EnvVariable("two", C{system.Integer(2)}),
		evalopts.EnvVariable("strs", C{system.String("a"), system.String("b")}),
		evalopts.EnvVariable("tt", C{system.Boolean(true), system.Boolean(true)}),
		evalopts.EnvVariable("tf", C{system.Boolean(true), system.Boolean(false)}),
		evalopts.EnvVariable("ff", C{system.Boolean(false), system.Boolean(false)}),
	}
}

// nested puts a call into argument position.
func nested(src string) string { return "iif(true, " + src + ")" }

// compileOnly reports what Compile says about src.
func compileOnly(src, cfg string) (lib.Outcome, *fhirpath.Expression) {
	var out lib.Outcome
	var ex *fhirpath.Expression
	rep := lib.SafeRetry(func() {
		out, ex = nil, nil
		e, err := fhirpath.Compile(src, copts(cfg)...)
		if err != nil {
			out = lib.ErrOutcome("cerr", err)
			return
		}
		if e == nil {
			out = lib.Outcome{"k": "cerr", "cls": []string{"NilExpression"}, "msg": "Compile returned nil, nil"}
			return
		}
		ex = e
		out = lib.Outcome{"k": "ok", "items": []lib.Item{}}
	})
	if rep.Timeout {
		return lib.TimeoutOutcome(), nil
	}
	if rep.Panic != "" {
		return lib.PanicOutcome(rep), nil
	}
	return out, ex
}

// dedupe removes repeated error classes (the shared library registers some
// sentinels itself; this command registers the ones its judge reads).
func dedupe(out lib.Outcome) lib.Outcome {
	cls, ok := out["cls"].([]string)
	if !ok {
		return out
	}
	seen := map[string]bool{}
	uniq := []string{}
	for _, c := range cls {
		if !seen[c] {
			seen[c] = true
			uniq = append(uniq, c)
		}
	}
	out["cls"] = uniq
	return out
}

func main() {
	if len(os.Args) != 5 || os.Args[1] != "run" {
		lib.Fatal("usage: c16 run cases.ndjson obs.ndjson ORDER   (ORDER over D, E, e.g. DED)")
	}
	lib.RegisterSentinels(
		lib.ErrSentinel{Err: impl.ErrWrongArity, Class: "WrongArity"},
		lib.ErrSentinel{Err: impl.ErrInvalidReturnType, Class: "InvalidReturnType"},
		lib.ErrSentinel{Err: fhirpath.ErrInvalidField, Class: "InvalidField"},
		lib.ErrSentinel{Err: expr.ErrConstantNotFound, Class: "ConstantNotFound"},
	)
	var cases []caseRec
	specNames := map[string]bool{}
	if err := lib.ReadNDJSON(os.Args[2], func(b []byte) error {
		var c caseRec
		if err := json.Unmarshal(b, &c); err != nil {
			return err
		}
		if c.Probes == nil {
			c.Probes = []string{}
		}
		cases = append(cases, c)
		specNames[c.Name] = true
		return nil
	}); err != nil {
		lib.Fatal("%v", err)
	}
	// the implementation's tables as read at process start, before any Compile
	cfgOf := map[byte]string{'D': "default", 'E': "experimental", 'X': "custom"}
	allCfgs := []string{"default", "experimental", "custom"}
	order := os.Args[4]
	table0 := map[string]funcs.FunctionTable{}
	for _, cfg := range allCfgs {
		table0[cfg] = tableFor(cfg)
	}
	// names that only the implementation's tables know
	implOnly := map[string]bool{}
	for _, cfg := range allCfgs {
		for n := range table0[cfg] {
			if !specNames[n] {
				implOnly[n] = true
			}
		}
	}
	var extra []string
	for n := range implOnly {
		extra = append(extra, n)
	}
	sort.Strings(extra)
	for _, n := range extra {
		for _, cfg := range allCfgs {
			for c := 0; c <= 4; c++ {
				args := make([]string, c)
				for i := range args {
					args[i] = "1"
				}
				cases = append(cases, caseRec{
					ID: fmt.Sprintf("%s/c%d/%s", lib.Ascii(n), c, cfg), Name: lib.Ascii(n), Count: c, Cfg: cfg, Origin: "impl",
					Text: "%ints." + n + "(" + strings.Join(args, ", ") + ")", Probes: []string{},
				})
			}
		}
	}
	m1 := lib.LoadModelResource("MR1")
	forest, err := lib.NewForest(m1)
	if err != nil {
		lib.Fatal("%v", err)
	}
	res := lib.AsResources(m1)
	w, err := lib.NewWriter(os.Args[3])
	if err != nil {
		lib.Fatal("%v", err)
	}
	hist := []string{}
	for ep := 0; ep < len(order); ep++ {
		cfg, ok := cfgOf[order[ep]]
		if !ok {
			lib.Fatal("bad order %q", order)
		}
		var todo []caseRec
		for _, c := range cases {
			if c.Cfg == cfg {
				todo = append(todo, c)
			}
		}
		// one sequential compilation under the epoch's configuration first, so that whatever a
		// Compile does to process-wide state has happened before the parallel part starts
		compileOnly("true", cfg)
		epoch, earlier := ep+1, append([]string{}, hist...)
		// an ACCEPTED call of every name under this configuration: the case's own call is also compiled BEHIND it in one
		// expression (a second call of a name must be checked like the first)
		okCall := map[string]string{}
		for _, c := range todo {
			if _, have := okCall[c.Name]; !have {
				if out, _ := compileOnly(c.Text, c.Cfg); out["k"] == "ok" {
					okCall[c.Name] = c.Text
				}
			}
		}
		lib.ParallelMap(len(todo), runtime.NumCPU(), func(i int) {
			c := todo[i]
			tbl := entry(tableFor(c.Cfg), c.Name)
			tbl0 := entry(table0[c.Cfg], c.Name)
			comp, _ := compileOnly(c.Text, c.Cfg)
			write := func(kind string, j int, out lib.Outcome) {
				id := fmt.Sprintf("%s%d:%s#%s", order, epoch, c.ID, kind)
				if kind == "probe" {
					id = fmt.Sprintf("%s%d:%s#p%d", order, epoch, c.ID, j)
				}
				src := c.Text
				if kind == "probe" {
					src = c.Probes[j-1]
				}
				pos := "plain"
				if kind == "nested" {
					kind, pos = "accept", "nested"
					src = nested(c.Text)
				}
				if kind == "second" {
					kind, pos = "accept", "nested"
					src = "iif(true, " + okCall[c.Name] + ", " + c.Text + ")"
				}
				if err := w.Write(map[string]any{"id": id, "kind": kind, "pos": pos, "j": j, "cs": c, "proc": order, "epoch": epoch, "hist": earlier,
					"tbl": tbl, "tbl0": tbl0, "comp": dedupe(comp), "out": dedupe(out), "src": src}); err != nil {
					lib.Fatal("%v", err)
				}
			}
			write("accept", 0, comp)
			// the same call in argument position of another call must be accepted or rejected alike
			ncomp, _ := compileOnly(nested(c.Text), c.Cfg)
			write("nested", 0, ncomp)
			if first, have := okCall[c.Name]; have {
				scomp, _ := compileOnly("iif(true, "+first+", "+c.Text+")", c.Cfg)
				write("second", 0, scomp)
			}
			if comp["k"] == "ok" {
				write("eval", 0, lib.EvalOutcome(forest, c.Text, res, copts(c.Cfg), eopts()))
			}
			for j, p := range c.Probes {
				write("probe", j+1, lib.EvalOutcome(forest, p, res, copts(c.Cfg), eopts()))
			}
		})
		hist = append(hist, cfg)
	}
	if err := w.Close(); err != nil {
		lib.Fatal("%v", err)
	}
}
