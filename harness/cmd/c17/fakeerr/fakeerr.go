// Package fakeerr holds one fixture of check C17: a function whose second
// result is NOT the built-in error interface but a struct type that merely is
// called "error". Its signature is a bad signature for a custom FHIRPath
// function ("wrong results" kind, variant outFakeErr).
package fakeerr

import "github.com/verily-src/fhirpath-go/fhirpath/system"

type error struct{ Note string }

// Fn has the signature func(system.Collection) (system.Collection, fakeerr.error).
func Fn(in system.Collection) (system.Collection, error) {
	return in, error{Note: "not an error value"}
}
