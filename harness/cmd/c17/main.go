// Command c17 replays the C17 case space (option lists x programs) against
// the real code.
//
//	c17 run cases.ndjson obs.ndjson
//
// A case names its compile options by fixture id (fx) and its evaluate options
// by shape id; this command owns one Go function per fixture id and one Go
// value per shape id (what they are is stated in spec/C17.tla: FxSig,
// ShapeValOf). Every custom function is an instrumented mock: it records the
// input collection and the arguments it was called with and returns what the
// case configured (ret). Nothing here decides what is right.
package main

import (
	"encoding/json"
	"errors"
	"os"
	"runtime"
	"strings"
	"sync"

	dtpb "github.com/google/fhir/go/proto/google/fhir/proto/r4/core/datatypes_go_proto"
	ppb "github.com/google/fhir/go/proto/google/fhir/proto/r4/core/resources/patient_go_proto"
	"github.com/verily-src/fhirpath-go/fhirpath"
	"github.com/verily-src/fhirpath-go/fhirpath/compopts"
	"github.com/verily-src/fhirpath-go/fhirpath/evalopts"
	"github.com/verily-src/fhirpath-go/fhirpath/internal/expr"
	"github.com/verily-src/fhirpath-go/fhirpath/internal/funcs/impl"
	"github.com/verily-src/fhirpath-go/fhirpath/system"
	"github.com/verily-src/fhirpath-go/fhirpath/zzverif/cmd/c17/fakeerr"
	"github.com/verily-src/fhirpath-go/fhirpath/zzverif/lib"
)

type optC struct {
	Name string `json:"name"`
	Fx   string `json:"fx"`
}
type optE struct {
	Name  string `json:"name"`
	Shape string `json:"shape"`
}
type caseRec struct {
	ID    string `json:"id"`
	Copts []optC `json:"copts"`
	Eopts []optE `json:"eopts"`
	Ret   string `json:"ret"`
	Text  string `json:"text"`
}

// ErrCustom is what a mock returns in the "err"/"both" modes.
var ErrCustom = errors.New("c17 custom function failure")

// recorder collects the invocations of the mocks of one case.
type recorder struct {
	mu     sync.Mutex
	calls  []map[string]any
	ret    string
	forest *lib.Forest
}

func (r *recorder) call(fn string, in system.Collection, args ...any) (system.Collection, error) {
	r.mu.Lock()
	r.calls = append(r.calls, map[string]any{
		"fn":    fn,
		"input": r.forest.ProjectCollection(in),
		"args":  r.forest.ProjectCollection(system.Collection(args)),
	})
	r.mu.Unlock()
	switch r.ret {
	case "items":
		return system.Collection{system.String("ret"), system.Integer(42)}, nil
	case "echo":
		return in, nil
	case "first", "last":
		if len(args) == 0 {
			return system.Collection{system.Integer(len(in))}, nil
		}
		if r.ret == "first" {
			return system.Collection{args[0]}, nil
		}
		return system.Collection{args[len(args)-1]}, nil
	case "empty":
		return system.Collection{}, nil
	case "err":
		return nil, ErrCustom
	case "both":
		return system.Collection{system.Integer(1)}, ErrCustom
	}
	lib.Fatal("unknown ret mode %q", r.ret)
	return nil, nil
}

type ptrErr struct{ msg string }

func (e *ptrErr) Error() string { return e.msg }

type wideErr interface {
	error
	Code() int
}

// fixture returns the Go value handed to compopts.AddFunction for fixture fx.
func fixture(fx, name string, r *recorder) any {
	type C = system.Collection
	switch fx {
	case "well1":
		return func(in C, a any) (C, error) { return r.call(name, in, a) }
	case "well2":
		return func(in C, a any, b any) (C, error) { return r.call(name, in, a, b) }
	case "zero":
		return func(in C) (C, error) { return r.call(name, in) }
	case "typedSI":
		return func(in C, s system.String, n system.Integer) (C, error) { return r.call(name, in, s, n) }
	case "typedH":
		return func(in C, h *dtpb.HumanName) (C, error) { return r.call(name, in, h) }
	case "var1":
		return func(in C, rest ...any) (C, error) { return r.call(name, in, rest...) }
	case "var2":
		return func(in C, s system.String, rest ...system.Integer) (C, error) {
			args := []any{s}
			for _, x := range rest {
				args = append(args, x)
			}
			return r.call(name, in, args...)
		}
	case "inInt":
		return func(x int) (C, error) { return r.call(name, nil, x) }
	case "inNone":
		return func() (C, error) { return r.call(name, nil) }
	case "inSlice":
		return func(in []any) (C, error) { return r.call(name, in) }
	case "notFunc":
		return 42
	case "nilFn":
		return nil
	case "outOne":
		return func(in C) C { c, _ := r.call(name, in); return c }
	case "outStr":
		return func(in C) (C, string) { c, _ := r.call(name, in); return c, "" }
	case "outSlice":
		return func(in C) ([]any, error) { return r.call(name, in) }
	case "outThree":
		return func(in C) (C, error, int) { c, e := r.call(name, in); return c, e, 0 }
	case "outFakeErr":
		return fakeerr.Fn
	case "outErrPtr": // a concrete type that implements error is not the error interface: a nil *ptrErr would come out non-nil
		return func(in C) (C, *ptrErr) { c, _ := r.call(name, in); return c, nil }
	case "outErrWide": // nor is a wider interface that embeds it
		return func(in C) (C, wideErr) { c, _ := r.call(name, in); return c, nil }
	}
	lib.Fatal("unknown fixture %q", fx)
	return nil
}

type unsupported struct{ X int }

// shape returns the Go value handed to evalopts.EnvVariable for a shape id.
func shape(id string, mr1, mr4 *ppb.Patient) any {
	type C = system.Collection
	switch id {
	case "int":
		return system.Integer(7)
	case "str":
		return system.String("ab")
	case "bool":
		return system.Boolean(true)
	case "strs":
		return C{system.String("a"), system.Integer(1), system.String("a")}
	case "empty":
		return C{}
	case "one":
		return C{system.Integer(9)}
	case "elem":
		return mr1.Name[0]
	case "detached":
		return mr4
	case "mixed":
		return C{mr1.Name[1], system.Integer(3), mr1.Name[0].Family}
	case "badTop":
		return 5
	case "nilTop":
		return nil
	case "tnilTop":
		return (*ppb.Patient)(nil)
	}
	// generated shapes "bad-<path>" / "nil-<path>" / "tnil-<path>": the offending leaf First, in
	// the Middle or Last among two valid siblings at every nesting level
	// (outermost level first), see spec/C17.tla Build.
	if i := strings.IndexByte(id, '-'); i > 0 && (id[:i] == "bad" || id[:i] == "nil" || id[:i] == "tnil") {
		path := id[i+1:]
		var v any
		if id[:i] == "tnil" {
			// a typed nil pointer of an element / resource type
			if len(path)%2 == 1 {
				v = (*dtpb.String)(nil)
			} else {
				v = (*ppb.Patient)(nil)
			}
		}
		if id[:i] == "bad" {
			if len(path)%2 == 1 {
				v = 5
			} else {
				v = unsupported{1}
			}
		}
		for i := len(path) - 1; i >= 0; i-- {
			g1, g2 := any(system.Integer(1)), any(system.String("g"))
			switch path[i] {
			case 'F':
				v = C{v, g1, g2}
			case 'M':
				v = C{g1, v, g2}
			case 'L':
				v = C{g1, g2, v}
			default:
				lib.Fatal("bad shape path %q", id)
			}
		}
		return v
	}
	lib.Fatal("unknown shape %q", id)
	return nil
}

// dedupe removes repeated error classes (the shared library registers some
// sentinels itself; this command registers the ones its judge reads).
func dedupe(out lib.Outcome) lib.Outcome {
	cls, ok := out["cls"].([]string)
	if !ok {
		return out
	}
	seen := map[string]bool{}
	uniq := []string{}
	for _, c := range cls {
		if !seen[c] {
			seen[c] = true
			uniq = append(uniq, c)
		}
	}
	out["cls"] = uniq
	return out
}

func main() {
	if len(os.Args) != 4 || os.Args[1] != "run" {
		lib.Fatal("usage: c17 run cases.ndjson obs.ndjson")
	}
	lib.RegisterSentinels(
		lib.ErrSentinel{Err: fhirpath.ErrExistingConstant, Class: "ExistingConstant"},
		lib.ErrSentinel{Err: fhirpath.ErrUnsupportedType, Class: "UnsupportedType"},
		lib.ErrSentinel{Err: fhirpath.ErrInvalidField, Class: "InvalidField"},
		lib.ErrSentinel{Err: expr.ErrConstantNotFound, Class: "ConstantNotFound"},
		lib.ErrSentinel{Err: impl.ErrWrongArity, Class: "WrongArity"},
		lib.ErrSentinel{Err: impl.ErrInvalidReturnType, Class: "InvalidReturnType"},
		lib.ErrSentinel{Err: ErrCustom, Class: "Custom"},
	)
	type rawCase struct {
		c   caseRec
		raw json.RawMessage
	}
	var cases []rawCase
	if err := lib.ReadNDJSON(os.Args[2], func(b []byte) error {
		var c caseRec
		if err := json.Unmarshal(b, &c); err != nil {
			return err
		}
		cases = append(cases, rawCase{c, append(json.RawMessage(nil), b...)})
		return nil
	}); err != nil {
		lib.Fatal("%v", err)
	}
	m1 := lib.LoadModelResource("MR1")
	m2 := lib.LoadModelResource("MR2")
	m4 := lib.LoadModelResource("MR4")
	mr1, ok1 := m1.(*ppb.Patient)
	mr4, ok4 := m4.(*ppb.Patient)
	if !ok1 || !ok4 {
		lib.Fatal("MR1/MR4 are not Patients")
	}
	forest, err := lib.NewForest(m1, m2)
	if err != nil {
		lib.Fatal("%v", err)
	}
	res := lib.AsResources(m1, m2)
	w, err := lib.NewWriter(os.Args[3])
	if err != nil {
		lib.Fatal("%v", err)
	}
	lib.ParallelMap(len(cases), runtime.NumCPU(), func(i int) {
		c := cases[i].c
		rec := &recorder{ret: c.Ret, forest: forest}
		build := func() ([]fhirpath.CompileOption, []fhirpath.EvaluateOption) {
			var co []fhirpath.CompileOption
			for _, o := range c.Copts {
				co = append(co, compopts.AddFunction(o.Name, fixture(o.Fx, o.Name, rec)))
			}
			var eo []fhirpath.EvaluateOption
			for _, o := range c.Eopts {
				eo = append(eo, evalopts.EnvVariable(o.Name, shape(o.Shape, mr1, mr4)))
			}
			return co, eo
		}
		var out lib.Outcome
		rep := lib.SafeRetry(func() {
			// a retried call starts from a clean recorder
			rec.mu.Lock()
			rec.calls = nil
			rec.mu.Unlock()
			out = nil
			co, eo := build()
			e, err := fhirpath.Compile(c.Text, co...)
			if err != nil {
				out = lib.ErrOutcome("cerr", err)
				return
			}
			if e == nil {
				out = lib.Outcome{"k": "cerr", "cls": []string{"NilExpression"}, "msg": "Compile returned nil, nil"}
				return
			}
			got, err := e.Evaluate(res, eo...)
			if err != nil {
				out = lib.ErrOutcome("err", err)
				return
			}
			out = lib.OkOutcome(forest.ProjectCollection(got))
		})
		if rep.Timeout {
			out = lib.TimeoutOutcome()
		} else if rep.Panic != "" {
			out = lib.PanicOutcome(rep)
		}
		rec.mu.Lock()
		calls := rec.calls
		if calls == nil {
			calls = []map[string]any{}
		}
		rec.mu.Unlock()
		if err := w.Write(map[string]any{"id": c.ID, "cs": cases[i].raw, "src": c.Text, "out": dedupe(out), "calls": calls}); err != nil {
			lib.Fatal("%v", err)
		}
	})
	if err := w.Close(); err != nil {
		lib.Fatal("%v", err)
	}
}
