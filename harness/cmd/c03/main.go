// Command c03 replays the FPSlices behaviours (property C03): a caller-owned
// collection with spare capacity, whose spare cells hold sentinels, is handed
// to the evaluator as %e and a pipeline of steps is applied to it.
//
//	c03 run cases.ndjson obs.ndjson
package main

import (
	"encoding/json"
	"os"
	"runtime"

	"github.com/verily-src/fhirpath-go/fhirpath"
	"github.com/verily-src/fhirpath-go/fhirpath/evalopts"
	"github.com/verily-src/fhirpath-go/fhirpath/system"
	"github.com/verily-src/fhirpath-go/fhirpath/zzverif/lib"
	"google.golang.org/protobuf/proto"
)

type caseRec struct {
	ID    string `json:"id"`
	Kind  string `json:"kind"`
	Len   int    `json:"len"`
	Spare int    `json:"spare"`
	Text  string `json:"text"`
}

func main() {
	if len(os.Args) != 4 || os.Args[1] != "run" {
		lib.Fatal("usage: c03 run cases.ndjson obs.ndjson")
	}
	var cases []caseRec
	if err := lib.ReadNDJSON(os.Args[2], func(b []byte) error {
		var c caseRec
		if err := json.Unmarshal(b, &c); err != nil {
			return err
		}
		cases = append(cases, c)
		return nil
	}); err != nil {
		lib.Fatal("%v", err)
	}
	w, err := lib.NewWriter(os.Args[3])
	if err != nil {
		lib.Fatal("%v", err)
	}
	flavours := []string{"str", "node"}
	lib.ParallelMap(len(cases)*len(flavours), runtime.NumCPU(), func(i int) {
		c := cases[i/len(flavours)]
		fl := flavours[i%len(flavours)]
		// a private copy of the resource per case: its nodes may be aliased by %e
		mr1 := lib.LoadModelResource("MR1")
		forest, err := lib.NewForest(mr1)
		if err != nil {
			lib.Fatal("%v", err)
		}
		backing := make([]any, c.Len+c.Spare)
		for j := range backing {
			switch {
			case j >= c.Len:
				backing[j] = system.String("SENTINEL")
			case fl == "str":
				backing[j] = system.String([]string{"a", "b"}[j%2])
			default:
				// FHIR string elements of the resource itself: Patient.name[0].given[j]
				backing[j] = lib.Child(lib.Child(mr1, "name", 0), "given", j%2)
			}
		}
		e := system.Collection(backing[:c.Len:len(backing)])
		colls := map[string]system.Collection{"e": e}
		snap := lib.TakeSnapshot([]proto.Message{mr1}, colls)
		out := lib.EvalOutcome(forest, c.Text, lib.AsResources(mr1), nil, []fhirpath.EvaluateOption{evalopts.EnvVariable("e", e),
			evalopts.EnvVariable("two", system.Collection{system.Integer(1), system.Integer(2)})})
		rec := map[string]any{"id": c.ID + "/" + fl, "kind": "slice", "src": c.Text, "out": out, "mut": snap.Report(),
			"cs": map[string]any{"len": c.Len, "spare": c.Spare, "flavour": fl}}
		if err := w.Write(rec); err != nil {
			lib.Fatal("%v", err)
		}
	})
	if err := w.Close(); err != nil {
		lib.Fatal("%v", err)
	}
}
