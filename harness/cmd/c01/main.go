// Command c01 runs the boundary alphabet of property C01 (totality) against
// the real API: every call must return a value or an error.
//
//	c01 run cases.ndjson obs.ndjson
package main

import (
	"encoding/json"
	bcrpb "github.com/google/fhir/go/proto/google/fhir/proto/r4/core/resources/bundle_and_contained_resource_go_proto"
	opb "github.com/google/fhir/go/proto/google/fhir/proto/r4/core/resources/observation_go_proto"
	ppb "github.com/google/fhir/go/proto/google/fhir/proto/r4/core/resources/patient_go_proto"
	"google.golang.org/protobuf/types/known/anypb"
	"math/rand"
	"os"
	"runtime"
	"strings"
	"time"

	dtpb "github.com/google/fhir/go/proto/google/fhir/proto/r4/core/datatypes_go_proto"
	"github.com/verily-src/fhirpath-go/fhirpath"
	"github.com/verily-src/fhirpath-go/fhirpath/compopts"
	"github.com/verily-src/fhirpath-go/fhirpath/evalopts"
	"github.com/verily-src/fhirpath-go/fhirpath/patch"
	"github.com/verily-src/fhirpath-go/fhirpath/system"
	"github.com/verily-src/fhirpath-go/fhirpath/zzverif/lib"
	"github.com/verily-src/fhirpath-go/internal/containedresource"
	"github.com/verily-src/fhirpath-go/internal/fhir"
	"google.golang.org/protobuf/proto"
)

type caseRec struct {
	ID     string `json:"id"`
	Kind   string `json:"kind"`
	Exp    bool   `json:"exp"`
	Text   string `json:"text"`
	Op     string `json:"op"`
	Value  string `json:"value"`
	Res    string `json:"res"`
	Index  int    `json:"index"`
	Index2 int    `json:"index2"`
	Name   string `json:"name"`
}

func what(id string) string {
	p := strings.Split(id, "/")
	if len(p) >= 2 {
		return lib.Ascii(p[0] + "/" + p[1])
	}
	return lib.Ascii(id)
}

func guarded(fn func() lib.Outcome) lib.Outcome {
	var out lib.Outcome
	rep := lib.SafeRetry(func() { out = fn() })
	if rep.Timeout {
		return lib.TimeoutOutcome()
	}
	if rep.Panic != "" {
		return lib.PanicOutcome(rep)
	}
	return out
}

func patchValue(kind string) fhir.Base {
	switch kind {
	case "HumanName":
		return &dtpb.HumanName{Family: &dtpb.String{Value: "New"}}
	case "String":
		return &dtpb.String{Value: "new"}
	case "Boolean":
		return &dtpb.Boolean{Value: true}
	case "Patient":
		return lib.LoadModelResource("MR4").(fhir.Base)
	case "Code":
		return &dtpb.Code{Value: "usual"}
	case "Integer":
		return &dtpb.Integer{Value: -3}
	case "PositiveInt":
		return &dtpb.PositiveInt{Value: 7}
	case "Reference":
		return &dtpb.Reference{Reference: &dtpb.Reference_Uri{Uri: &dtpb.String{Value: "Practitioner/x"}}}
	case "Extension":
		return &dtpb.Extension{Url: &dtpb.Uri{Value: "http://example.org/ext/n"}}
	case "Date":
		return &dtpb.Date{ValueUs: 1577836800000000, Timezone: "UTC", Precision: dtpb.Date_DAY}
	case "DateTime":
		return &dtpb.DateTime{ValueUs: 1577836800000000, Timezone: "+02:00", Precision: dtpb.DateTime_SECOND}
	}
	return nil
}

// inputForm builds the resource collection a C01 "evalopt" case names.
func inputForm(name string, mr1 proto.Message) []fhir.Resource {
	one := mr1.(fhir.Resource)
	switch name {
	case "one":
		return []fhir.Resource{one}
	case "none":
		return []fhir.Resource{}
	case "nilslice":
		return nil
	case "two":
		return []fhir.Resource{one, lib.LoadModelResource("MR2").(fhir.Resource)}
	case "same-twice":
		return []fhir.Resource{one, one}
	case "nil-element":
		return []fhir.Resource{nil}
	case "typed-nil-element":
		var p *ppb.Patient
		return []fhir.Resource{p}
	case "nil-then-one":
		return []fhir.Resource{nil, one}
	case "bundle":
		return []fhir.Resource{lib.LoadModelResource("MR3").(fhir.Resource)}
	case "bundle-empty-entries":
		return []fhir.Resource{&bcrpb.Bundle{Entry: []*bcrpb.Bundle_Entry{{Resource: &bcrpb.ContainedResource{}}, {}, nil,
			{Resource: &bcrpb.ContainedResource{OneofResource: &bcrpb.ContainedResource_Patient{}}}}}}
	case "observation-odd-quantities":
		q := func(v string) *opb.Observation_Component {
			return &opb.Observation_Component{Value: &opb.Observation_Component_ValueX{Choice: &opb.Observation_Component_ValueX_Quantity{
				Quantity: &dtpb.Quantity{Value: &dtpb.Decimal{Value: v}, Code: &dtpb.Code{Value: "mg"}, Unit: &dtpb.String{Value: "mg"}}}}}
		}
		sq := func(v string) *dtpb.SimpleQuantity {
			return &dtpb.SimpleQuantity{Value: &dtpb.Decimal{Value: v}, Code: &dtpb.Code{Value: "mg"}}
		}
		return []fhir.Resource{&opb.Observation{
			Value:          &opb.Observation_ValueX{Choice: &opb.Observation_ValueX_Quantity{Quantity: &dtpb.Quantity{Unit: &dtpb.String{Value: "mg"}}}},
			Component:      []*opb.Observation_Component{q("1e-999999999"), q("1E+999999999"), q("5"), q("-2.5e-2147483647")},
			ReferenceRange: []*opb.Observation_ReferenceRange{{Low: sq("1e-999999999"), High: sq("9e999999999")}},
		}}
	case "mr5-entries", "mr5-entries-reversed":
		// a Patient and an Organization in ONE collection: backbone elements of one short message name (Patient.Contact,
		// Organization.Contact) meet in one field node of one compiled expression
		var rs []fhir.Resource
		for _, e := range lib.LoadModelResource("MR5").(*bcrpb.Bundle).GetEntry() {
			if r := containedresource.Unwrap(e.GetResource()); r != nil {
				rs = append(rs, r)
			}
		}
		if name == "mr5-entries-reversed" {
			for i, j := 0, len(rs)-1; i < j; i, j = i+1, j-1 {
				rs[i], rs[j] = rs[j], rs[i]
			}
		}
		return rs
	case "bundle-mr5":
		return []fhir.Resource{lib.LoadModelResource("MR5").(fhir.Resource)}
	case "patient-empty-contained":
		return []fhir.Resource{&ppb.Patient{Contained: []*anypb.Any{{}, nil, {TypeUrl: "type.googleapis.com/google.fhir.r4.core.ContainedResource"}},
			Name: []*dtpb.HumanName{nil, {}}}}
	}
	lib.Fatal("unknown input form %q", name)
	return nil
}

// optionSet builds the evaluate options a C01 "evalopt" case names.
func optionSet(name string, mr1 proto.Message) []fhirpath.EvaluateOption {
	x := evalopts.EnvVariable("x", system.Collection{system.Integer(1)})
	switch name {
	case "none":
		return []fhirpath.EvaluateOption{x}
	case "time-year-10000":
		return []fhirpath.EvaluateOption{x, evalopts.OverrideTime(time.Date(10000, 1, 1, 0, 0, 0, 0, time.UTC))}
	case "time-year-0":
		return []fhirpath.EvaluateOption{x, evalopts.OverrideTime(time.Date(0, 1, 1, 0, 0, 0, 0, time.UTC))}
	case "time-year-minus-1":
		return []fhirpath.EvaluateOption{x, evalopts.OverrideTime(time.Date(-1, 6, 15, 12, 0, 0, 0, time.UTC))}
	case "time-9999-end":
		return []fhirpath.EvaluateOption{x, evalopts.OverrideTime(time.Date(9999, 12, 31, 23, 59, 59, 999999999, time.UTC))}
	case "time-zone+14":
		return []fhirpath.EvaluateOption{x, evalopts.OverrideTime(time.Date(2020, 2, 29, 23, 59, 59, 0, time.FixedZone("", 14*3600)))}
	case "time-zone-seconds":
		return []fhirpath.EvaluateOption{x, evalopts.OverrideTime(time.Date(1890, 1, 1, 0, 0, 0, 0, time.FixedZone("LMT", 53*60+28)))}
	case "time-zero-value":
		return []fhirpath.EvaluateOption{x, evalopts.OverrideTime(time.Time{})}
	case "var-nil-collection":
		return []fhirpath.EvaluateOption{evalopts.EnvVariable("x", system.Collection(nil))}
	case "var-empty-name":
		return []fhirpath.EvaluateOption{x, evalopts.EnvVariable("", system.Integer(1))}
	case "var-twice":
		return []fhirpath.EvaluateOption{x, x}
	case "var-nil-value":
		return []fhirpath.EvaluateOption{evalopts.EnvVariable("x", nil)}
	case "var-typed-nil-element":
		var s *dtpb.String
		return []fhirpath.EvaluateOption{evalopts.EnvVariable("x", s)}
	case "var-nested-collection":
		return []fhirpath.EvaluateOption{evalopts.EnvVariable("x", system.Collection{system.Collection{system.Integer(1)}, nil, mr1})}
	}
	lib.Fatal("unknown option set %q", name)
	return nil
}

func main() {
	if len(os.Args) != 4 || os.Args[1] != "run" {
		lib.Fatal("usage: c01 run cases.ndjson obs.ndjson")
	}
	var cases []caseRec
	if err := lib.ReadNDJSON(os.Args[2], func(b []byte) error {
		var c caseRec
		if err := json.Unmarshal(b, &c); err != nil {
			return err
		}
		cases = append(cases, c)
		return nil
	}); err != nil {
		lib.Fatal("%v", err)
	}
	mr1 := lib.LoadModelResource("MR1")
	forest, err := lib.NewForest(mr1)
	if err != nil {
		lib.Fatal("%v", err)
	}
	env := func() []fhirpath.EvaluateOption {
		return []fhirpath.EvaluateOption{
			evalopts.EnvVariable("nonascii", system.String("héllo€\U0001F600é")),
			evalopts.EnvVariable("euro", system.String("€")),
			evalopts.EnvVariable("multi", system.Collection{system.Integer(1), system.Integer(2)}),
			evalopts.EnvVariable("cx", lib.Child(mr1, "name", 0)),
			evalopts.EnvVariable("node", mr1),
			evalopts.EnvVariable("v", system.Integer(1)),
		}
	}
	// resources of every type for the generic programs (schema-driven; quick: a rotating subset)
	var generic []proto.Message
	types := lib.ResourceTypes()
	rng := rand.New(rand.NewSource(lib.Seed()))
	if os.Getenv("VERIF_TIER") != "thorough" {
		perm := rng.Perm(len(types))
		sub := []string{}
		for _, i := range perm[:24] {
			sub = append(sub, types[i])
		}
		types = sub
	}
	for n, t := range types {
		res, js, err := lib.PopulatedResource(t, lib.PopOptions{Inst: int(lib.Seed()) + n, Contained: true})
		if err != nil {
			lib.Fatal("generator: %v\n%.300s", err, js)
		}
		generic = append(generic, res)
	}
	w, err := lib.NewWriter(os.Args[3])
	if err != nil {
		lib.Fatal("%v", err)
	}
	write := func(id, kind, src string, out lib.Outcome) {
		// totality only looks at the outcome kind: drop bulky item lists
		if out["k"] == "panic" && out["site"] == "unstable" {
			// the call returned every time; that repeated evaluations disagree is the business of C04 and of the value properties
			out = lib.Outcome{"k": "ok"}
		}
		slim := lib.Outcome{"k": out["k"]}
		if out["k"] == "panic" {
			slim["site"], slim["msg"] = out["site"], out["msg"]
		} else {
			slim["site"] = ""
		}
		if items, ok := out["items"].([]lib.Item); ok {
			slim["n"] = len(items)
		}
		if err := w.Write(map[string]any{"id": id, "kind": kind, "src": lib.Ascii(src), "out": slim, "what": what(id)}); err != nil {
			lib.Fatal("%v", err)
		}
	}
	lib.ParallelMap(len(cases), runtime.NumCPU(), func(i int) {
		c := cases[i]
		var copts []fhirpath.CompileOption
		if c.Exp {
			copts = append(copts, compopts.WithExperimentalFuncs())
		}
		switch c.Kind {
		case "eval":
			// twice, each time freshly compiled: state kept from the first call (a cached failure, say) must not crash the second
			out := lib.EvalOutcome(forest, c.Text, lib.AsResources(mr1), copts, env())
			if out2 := lib.EvalOutcome(forest, c.Text, lib.AsResources(mr1), copts, env()); out2["k"] == "panic" || out2["k"] == "timeout" {
				out = out2
			}
			write(c.ID, c.Kind, c.Text, out)
		case "evalopt":
			write(c.ID, c.Kind, c.Res+" | "+c.Name+" | "+c.Text, guarded(func() lib.Outcome {
				e, err := fhirpath.Compile(c.Text)
				if err != nil {
					return lib.ErrOutcome("cerr", err)
				}
				if _, err := e.Evaluate(inputForm(c.Res, mr1), optionSet(c.Name, mr1)...); err != nil {
					return lib.ErrOutcome("err", err)
				}
				if _, err := e.EvaluateAsString(inputForm(c.Res, mr1), optionSet(c.Name, mr1)...); err != nil {
					return lib.ErrOutcome("err", err)
				}
				return lib.OkOutcome(nil)
			}))
		case "compile":
			write(c.ID, c.Kind, c.Text, guarded(func() lib.Outcome {
				e, err := fhirpath.Compile(c.Text)
				if err != nil {
					return lib.ErrOutcome("cerr", err)
				}
				// whatever compiles must also evaluate without crashing, and report its source
				_ = e.String()
				if _, err := e.Evaluate(lib.AsResources(mr1), env()...); err != nil {
					return lib.ErrOutcome("err", err)
				}
				return lib.OkOutcome(nil)
			}))
		case "asbool", "asstring", "asint":
			write(c.ID, c.Kind, c.Text, guarded(func() lib.Outcome {
				e, err := fhirpath.Compile(c.Text)
				if err != nil {
					return lib.ErrOutcome("cerr", err)
				}
				switch c.Kind {
				case "asbool":
					_, err = e.EvaluateAsBool(lib.AsResources(mr1), env()...)
				case "asstring":
					_, err = e.EvaluateAsString(lib.AsResources(mr1), env()...)
				default:
					_, err = e.EvaluateAsInt32(lib.AsResources(mr1), env()...)
				}
				if err != nil {
					return lib.ErrOutcome("err", err)
				}
				return lib.OkOutcome(nil)
			}))
		case "patch":
			write(c.ID, c.Kind, c.Op+" "+c.Text, guarded(func() lib.Outcome {
				var res fhir.Resource
				if c.Res != "nil" {
					res = proto.Clone(mr1).(fhir.Resource)
				}
				var val fhir.Base
				if c.Value != "nil" {
					val = patchValue(c.Value)
				}
				var err error
				switch c.Op {
				case "add":
					err = patch.Add(res, c.Text, c.Name, val, &patch.Options{})
				case "insert":
					err = patch.Insert(res, c.Text, val, c.Index)
				case "delete":
					err = patch.Delete(res, c.Text)
				case "replace":
					err = patch.Replace(res, c.Text, val)
				case "move":
					err = patch.Move(res, c.Text, c.Index, c.Index2)
				}
				if err != nil {
					return lib.ErrOutcome("err", err)
				}
				return lib.OkOutcome(nil)
			}))
		case "generic":
			for n, res := range generic {
				f, err := lib.NewForest(res)
				if err != nil {
					lib.Fatal("%v", err)
				}
				ty := string(res.ProtoReflect().Descriptor().Name())
				write(c.ID+"/"+ty+"#"+strings.TrimSpace(string(rune('0'+n%10))), c.Kind, ty+": "+c.Text, lib.EvalOutcome(f, c.Text, lib.AsResources(res), copts, env()))
			}
		default:
			lib.Fatal("unknown kind %q", c.Kind)
		}
	})
	// byte-mutated neighbours of valid sources (seeded; judged like every other case)
	nmut := 3000
	if os.Getenv("VERIF_TIER") == "thorough" {
		nmut = 40000
	}
	var seeds []string
	for _, c := range cases {
		if c.Kind == "eval" && len(seeds) < 4000 && rng.Intn(8) == 0 {
			seeds = append(seeds, c.Text)
		}
	}
	junk := []byte("()[]{}.,'`\\@%$|&~!=<>+-*/ \t\n\x00\xff\xc3e1TZ:")
	muts := make([]string, nmut)
	for k := range muts {
		b := []byte(seeds[rng.Intn(len(seeds))])
		for m := 0; m <= rng.Intn(3); m++ {
			switch pos := rng.Intn(len(b) + 1); rng.Intn(3) {
			case 0:
				b = append(b[:pos:pos], append([]byte{junk[rng.Intn(len(junk))]}, b[pos:]...)...)
			case 1:
				if pos < len(b) {
					b = append(b[:pos:pos], b[pos+1:]...)
				}
			default:
				if pos < len(b) {
					b[pos] = junk[rng.Intn(len(junk))]
				}
			}
		}
		muts[k] = string(b)
	}
	lib.ParallelMap(len(muts), runtime.NumCPU(), func(k int) {
		id := "mut/" + strings.TrimSpace(itoa(k))
		write(id, "mutated", muts[k], lib.EvalOutcome(forest, muts[k], lib.AsResources(mr1), nil, env()))
	})
	if err := w.Close(); err != nil {
		lib.Fatal("%v", err)
	}
}

func itoa(n int) string {
	b, _ := json.Marshal(n)
	return string(b)
}
