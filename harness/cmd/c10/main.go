// Command c10 replays the C10 case space (collection algebra) against the real code.
//
//	c10 run cases.ndjson obs.ndjson
package main

import (
	"encoding/json"
	"os"
	"runtime"

	"github.com/verily-src/fhirpath-go/fhirpath"
	"github.com/verily-src/fhirpath-go/fhirpath/evalopts"
	"github.com/verily-src/fhirpath-go/fhirpath/system"
	"github.com/verily-src/fhirpath-go/fhirpath/zzverif/lib"
	"google.golang.org/protobuf/proto"
)

type token struct {
	Src  string          `json:"src"`
	J    int             `json:"j"`
	Item json.RawMessage `json:"item"`
}

type genRec struct {
	ID    string          `json:"id"`
	Cs    json.RawMessage `json:"cs"`
	Text  string          `json:"text"`
	Ftxt  string          `json:"ftxt"`
	Dspec []token         `json:"dspec"`
	N     int64           `json:"n"`
}

// valueOf rebuilds a System value from the few abstract items the DSpecs use.
func valueOf(raw json.RawMessage) any {
	var it struct {
		T   string `json:"t"`
		I   int64  `json:"i"`
		Cp  []int  `json:"cp"`
		Neg bool   `json:"neg"`
		M   []int  `json:"m"`
		E   int    `json:"e"`
	}
	if err := json.Unmarshal(raw, &it); err != nil {
		lib.Fatal("%v", err)
	}
	switch it.T {
	case "i":
		return system.Integer(it.I)
	case "s":
		return system.String(lib.FromCodePoints(it.Cp))
	case "d":
		if len(it.M) == 1 && it.M[0] == 1 && it.E == 0 && !it.Neg {
			return system.MustParseDecimal("1.0")
		}
	}
	lib.Fatal("unsupported value token %s", raw)
	return nil
}

// sim evaluates the randomly grown programs of C10_Sim: [id, ast, text].
func sim(casesPath, obsPath string) {
	type simRec struct {
		ID   string          `json:"id"`
		Ast  json.RawMessage `json:"ast"`
		Text string          `json:"text"`
	}
	var cases []simRec
	if err := lib.ReadNDJSON(casesPath, func(b []byte) error {
		var g simRec
		if err := json.Unmarshal(b, &g); err != nil {
			return err
		}
		g.Ast = append(json.RawMessage{}, g.Ast...)
		cases = append(cases, g)
		return nil
	}); err != nil {
		lib.Fatal("%v", err)
	}
	mr1, mr4 := lib.LoadModelResource("MR1"), lib.LoadModelResource("MR4")
	forest, err := lib.NewForest(mr1, mr4)
	if err != nil {
		lib.Fatal("%v", err)
	}
	w, err := lib.NewWriter(obsPath)
	if err != nil {
		lib.Fatal("%v", err)
	}
	lib.ParallelMap(len(cases), runtime.NumCPU(), func(i int) {
		g := cases[i]
		colls := map[string]system.Collection{
			"ints":   {system.Integer(1), system.Integer(2), system.Integer(2), system.Integer(3)},
			"mixed":  {system.Integer(1), system.String("a"), system.MustParseDecimal("1.0"), system.Integer(2), system.String("a")},
			"none":   {},
			"decint": {system.MustParseDecimal("2.0"), system.Integer(2), system.String("a"), system.MustParseDecimal("2.00"), system.Integer(3), system.MustParseDecimal("3.0")},
			"looks":  {system.Integer(1), system.String("1"), system.Boolean(true), system.String("true"), system.MustParseDecimal("1.0"), system.String("1.0"), system.Integer(1)},
		}
		opts := []fhirpath.EvaluateOption{}
		for name, c := range colls {
			opts = append(opts, evalopts.EnvVariable(name, c))
		}
		snap := lib.TakeSnapshot([]proto.Message{mr1, mr4}, colls)
		out, out2 := lib.EvalTwice(forest, g.Text, lib.AsResources(mr1), nil, func() []fhirpath.EvaluateOption { return opts })
		mut := snap.Report()
		mut["reeval_differs"] = !lib.SameOutcome(out, out2)
		if !lib.SameOutcome(out, out2) {
			// the collection algebra holds for every evaluation, not only the first one
			out = lib.Outcome{"k": "panic", "site": "unstable", "msg": "the same compiled expression evaluated again on the same inputs gave another outcome"}
		}
		if err := w.Write(map[string]any{"id": g.ID, "ast": g.Ast, "src": g.Text, "out": out, "kind": "sim", "mut": mut}); err != nil {
			lib.Fatal("%v", err)
		}
	})
	if err := w.Close(); err != nil {
		lib.Fatal("%v", err)
	}
}

func main() {
	if len(os.Args) == 4 && os.Args[1] == "sim" {
		sim(os.Args[2], os.Args[3])
		return
	}
	if len(os.Args) != 4 || os.Args[1] != "run" {
		lib.Fatal("usage: c10 run|sim cases.ndjson obs.ndjson")
	}
	var cases []genRec
	if err := lib.ReadNDJSON(os.Args[2], func(b []byte) error {
		var g genRec
		if err := json.Unmarshal(b, &g); err != nil {
			return err
		}
		g.Cs = append(json.RawMessage{}, g.Cs...)
		cases = append(cases, g)
		return nil
	}); err != nil {
		lib.Fatal("%v", err)
	}
	mr1, mr4 := lib.LoadModelResource("MR1"), lib.LoadModelResource("MR4")
	forest, err := lib.NewForest(mr1, mr4)
	if err != nil {
		lib.Fatal("%v", err)
	}
	baseEnv := func() []fhirpath.EvaluateOption {
		return []fhirpath.EvaluateOption{
			evalopts.EnvVariable("ints", system.Collection{system.Integer(1), system.Integer(2), system.Integer(2), system.Integer(3)}),
			evalopts.EnvVariable("mixed", system.Collection{system.Integer(1), system.String("a"), system.MustParseDecimal("1.0"), system.Integer(2), system.String("a")}),
			evalopts.EnvVariable("none", system.Collection{}),
			evalopts.EnvVariable("decint", system.Collection{system.MustParseDecimal("2.0"), system.Integer(2), system.String("a"), system.MustParseDecimal("2.00"), system.Integer(3), system.MustParseDecimal("3.0")}),
			evalopts.EnvVariable("looks", system.Collection{system.Integer(1), system.String("1"), system.Boolean(true), system.String("true"), system.MustParseDecimal("1.0"), system.String("1.0"), system.Integer(1)}),
		}
	}
	focusItems := func(txt string, res proto.Message) system.Collection {
		e, err := fhirpath.Compile(txt)
		if err != nil {
			lib.Fatal("focus %q does not compile: %v", txt, err)
		}
		c, err := e.Evaluate(lib.AsResources(res), baseEnv()...)
		if err != nil {
			lib.Fatal("focus %q: %v", txt, err)
		}
		return c
	}
	w, err := lib.NewWriter(os.Args[3])
	if err != nil {
		lib.Fatal("%v", err)
	}
	lib.ParallelMap(len(cases), runtime.NumCPU(), func(i int) {
		g := cases[i]
		colls := map[string]system.Collection{
			"ints":   {system.Integer(1), system.Integer(2), system.Integer(2), system.Integer(3)},
			"mixed":  {system.Integer(1), system.String("a"), system.MustParseDecimal("1.0"), system.Integer(2), system.String("a")},
			"none":   {},
			"decint": {system.MustParseDecimal("2.0"), system.Integer(2), system.String("a"), system.MustParseDecimal("2.00"), system.Integer(3), system.MustParseDecimal("3.0")},
			"looks":  {system.Integer(1), system.String("1"), system.Boolean(true), system.String("true"), system.MustParseDecimal("1.0"), system.String("1.0"), system.Integer(1)},
		}
		if len(g.Dspec) > 0 || containsVar(g.Text, "%d") {
			c1 := focusItems(g.Ftxt, mr1)
			var c4 system.Collection
			d := system.Collection{}
			for _, tk := range g.Dspec {
				switch tk.Src {
				case "focus":
					if tk.J <= len(c1) {
						d = append(d, c1[tk.J-1])
					}
				case "mr4":
					if c4 == nil {
						c4 = focusItems(g.Ftxt, mr4)
					}
					if tk.J <= len(c4) {
						d = append(d, c4[tk.J-1])
					}
				default:
					d = append(d, valueOf(tk.Item))
				}
			}
			colls["d"] = d
		}
		opts := []fhirpath.EvaluateOption{}
		for name, c := range colls {
			opts = append(opts, evalopts.EnvVariable(name, c))
		}
		if containsVar(g.Text, "%n") {
			opts = append(opts, evalopts.EnvVariable("n", system.Integer(g.N)))
		}
		snap := lib.TakeSnapshot([]proto.Message{mr1, mr4}, colls)
		out, out2 := lib.EvalTwice(forest, g.Text, lib.AsResources(mr1), nil, func() []fhirpath.EvaluateOption { return opts })
		mut := snap.Report()
		mut["reeval_differs"] = !lib.SameOutcome(out, out2)
		if !lib.SameOutcome(out, out2) {
			// the collection algebra holds for every evaluation, not only the first one
			out = lib.Outcome{"k": "panic", "site": "unstable", "msg": "the same compiled expression evaluated again on the same inputs gave another outcome"}
		}
		if err := w.Write(map[string]any{"id": g.ID, "cs": g.Cs, "src": g.Text, "out": out, "kind": "prog", "mut": mut}); err != nil {
			lib.Fatal("%v", err)
		}
	})
	if err := w.Close(); err != nil {
		lib.Fatal("%v", err)
	}
}

func containsVar(s, v string) bool {
	for i := 0; i+len(v) <= len(s); i++ {
		if s[i:i+len(v)] == v {
			return true
		}
	}
	return false
}
