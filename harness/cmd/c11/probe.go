package main

import (
	"encoding/json"
	"fmt"

	"github.com/verily-src/fhirpath-go/fhirpath/zzverif/lib"
)

// probe evaluates each argument as a FHIRPath source on MR1 and prints the outcome.
func probe(args []string) {
	patient := lib.LoadModelResource("MR1")
	forest, err := lib.NewForest(patient)
	if err != nil {
		lib.Fatal("%v", err)
	}
	res := lib.AsResources(patient)
	for _, src := range args {
		out := lib.EvalOutcome(forest, src, res, nil, envOpts())
		b, _ := json.Marshal(slim(out))
		fmt.Printf("%-45q %s\n", src, b)
	}
}
