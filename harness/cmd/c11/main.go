// Command c11 replays the C11 case space (precedence, associativity, token
// boundaries) against the real code.
//
//	c11 run cases.ndjson obs.ndjson
//	c11 probe 'expr' ...
//
// A case carries two token sequences of one expression tree (minimal and full
// parenthesisation, both rendered by the TLA+ specification) and, for every
// pair of adjacent tokens, whether the specification's NeedsGap says they must
// be separated. The harness only joins tokens: under every uniform gap
// decoration, under seeded per-gap mixes, and with one trailing junk token. It
// compiles and evaluates each source text on model resource MR1 through the
// public API and records what came back. It decides nothing.
package main

import (
	"crypto/sha1"
	"encoding/hex"
	"encoding/json"
	"hash/fnv"
	"math/rand"
	"os"
	"runtime"
	"strings"

	"github.com/verily-src/fhirpath-go/fhirpath"
	"github.com/verily-src/fhirpath-go/fhirpath/evalopts"
	"github.com/verily-src/fhirpath-go/fhirpath/system"
	"github.com/verily-src/fhirpath-go/fhirpath/zzverif/lib"
)

func envOpts() []fhirpath.EvaluateOption {
	return []fhirpath.EvaluateOption{
		evalopts.EnvVariable("vt", system.Boolean(true)),
		evalopts.EnvVariable("vi", system.Integer(5)),
	}
}

func slim(o lib.Outcome) lib.Outcome { return o }

// decorations: what is written into a gap between two tokens. "glue" writes
// nothing where the specification allows it and one blank elsewhere.
var uniform = []struct{ name, text string }{
	{"glue", ""},
	{"sp", " "},
	{"nl", "\n"},
	{"tab", "\t"},
	{"bc", "/* c */"},
	{"lc", "// c\n"},
}

// junk: one trailing token that can never continue an expression.
var junk = []string{")", "]", "}", ",", "1", "true", "#"}

type caseRec struct {
	ID         string   `json:"id"`
	TokensMin  []string `json:"tokensMin"`
	TokensFull []string `json:"tokensFull"`
	GapsMin    []string `json:"gapsMin"`
	GapsFull   []string `json:"gapsFull"`
}

// join writes the decoration chosen by gap between the tokens, as the
// specification's gap classes allow: "ws" - an empty decoration becomes one
// blank; "slash" - a comment gets a blank in front; "free" - as is.
func join(tokens []string, classes []string, gap func(i int) string) string {
	var b strings.Builder
	for i, t := range tokens {
		if i > 0 {
			g := gap(i - 1)
			switch classes[i-1] {
			case "ws":
				if g == "" {
					g = " "
				}
			case "slash":
				if strings.HasPrefix(g, "/") {
					g = " " + g
				}
			case "free":
			default:
				lib.Fatal("unknown gap class %q", classes[i-1])
			}
			b.WriteString(g)
		}
		b.WriteString(t)
	}
	return b.String()
}

type variant struct {
	R   string `json:"r"`   // rendering: "min" | "full"
	D   string `json:"d"`   // decoration
	Oh  string `json:"oh"`  // digest of the outcome (kind, items / panic site; never the message)
	Str string `json:"str"` // "same": Expression.String() returned the source; "diff"; "none": did not compile
}

type junkObs struct {
	R string `json:"r"`
	J string `json:"j"`
	K string `json:"k"` // "cerr" | "compiled" | "panic" | "timeout"
}

func digest(o lib.Outcome) string {
	c := map[string]any{"k": o["k"]}
	switch o["k"] {
	case "ok":
		c["items"] = o["items"]
	case "panic":
		c["site"] = o["site"]
	}
	b, err := json.Marshal(c)
	if err != nil {
		lib.Fatal("digest: %v", err)
	}
	h := sha1.Sum(b)
	return "h" + hex.EncodeToString(h[:8])
}

// evalOne compiles and evaluates src; str reports Expression.String() against src.
func evalOne(f *lib.Forest, src string, res []lib.Resource) (lib.Outcome, string) {
	var out lib.Outcome
	str := "none"
	rep := lib.SafeRetry(func() {
		out, str = nil, "none"
		e, err := fhirpath.Compile(src)
		if err != nil {
			out = lib.ErrOutcome("cerr", err)
			return
		}
		if e == nil {
			out = lib.Outcome{"k": "cerr", "cls": []string{"NilExpression"}, "msg": "Compile returned nil, nil"}
			return
		}
		if e.String() == src {
			str = "same"
		} else {
			str = "diff"
		}
		c, err := e.Evaluate(res, envOpts()...)
		if err != nil {
			out = lib.ErrOutcome("err", err)
			return
		}
		out = lib.OkOutcome(f.ProjectCollection(c))
	})
	if rep.Timeout {
		return lib.TimeoutOutcome(), str
	}
	if rep.Panic != "" {
		return lib.PanicOutcome(rep), str
	}
	return out, str
}

func compileOnly(src string) string {
	k := "compiled"
	rep := lib.SafeRetry(func() {
		k = "compiled"
		e, err := fhirpath.Compile(src)
		if err != nil || e == nil {
			k = "cerr"
		}
	})
	if rep.Timeout {
		return "timeout"
	}
	if rep.Panic != "" {
		return "panic"
	}
	return k
}

func main() {
	if len(os.Args) >= 2 && os.Args[1] == "probe" {
		probe(os.Args[2:])
		return
	}
	if len(os.Args) != 4 || os.Args[1] != "run" {
		lib.Fatal("usage: c11 run cases.ndjson obs.ndjson | c11 probe expr...")
	}
	var raws []map[string]json.RawMessage
	var cases []caseRec
	if err := lib.ReadNDJSON(os.Args[2], func(b []byte) error {
		var c caseRec
		if err := json.Unmarshal(b, &c); err != nil {
			return err
		}
		var raw map[string]json.RawMessage
		if err := json.Unmarshal(b, &raw); err != nil {
			return err
		}
		if len(c.TokensMin) == 0 || len(c.TokensFull) == 0 || len(c.GapsMin) != len(c.TokensMin)-1 || len(c.GapsFull) != len(c.TokensFull)-1 {
			lib.Fatal("case %s: token/gap sequences inconsistent", c.ID)
		}
		cases = append(cases, c)
		raws = append(raws, raw)
		return nil
	}); err != nil {
		lib.Fatal("%v", err)
	}
	nmix := 1
	if os.Getenv("VERIF_TIER") == "thorough" {
		nmix = 3
	}
	seed := lib.Seed()
	patient := lib.LoadModelResource("MR1")
	forest, err := lib.NewForest(patient)
	if err != nil {
		lib.Fatal("%v", err)
	}
	res := lib.AsResources(patient)
	w, err := lib.NewWriter(os.Args[3])
	if err != nil {
		lib.Fatal("%v", err)
	}
	lib.ParallelMap(len(cases), runtime.NumCPU(), func(i int) {
		c := cases[i]
		rec := map[string]any{}
		for k, v := range raws[i] {
			rec[k] = v
		}
		renderings := []struct {
			name   string
			tokens []string
			needs  []string
		}{{"min", c.TokensMin, c.GapsMin}, {"full", c.TokensFull, c.GapsFull}}
		h := fnv.New64a()
		h.Write([]byte(c.ID))
		rng := rand.New(rand.NewSource(seed*1000003 + int64(h.Sum64()>>1)))
		variants := []variant{}
		outs := map[string]lib.Outcome{}
		srcs := map[string]string{}
		evals := 0
		run := func(r, d, src string) {
			out, str := evalOne(forest, src, res)
			evals++
			oh := digest(out)
			if _, ok := outs[oh]; !ok {
				outs[oh] = out
				srcs[oh] = src
			}
			variants = append(variants, variant{R: r, D: d, Oh: oh, Str: str})
			if str == "diff" {
				srcs["strdiff"] = src
			}
		}
		junks := []junkObs{}
		for _, r := range renderings {
			for _, u := range uniform {
				run(r.name, u.name, join(r.tokens, r.needs, func(int) string { return u.text }))
			}
			// white space before the first and after the last token
			run(r.name, "pad", " "+join(r.tokens, r.needs, func(int) string { return " " })+"\n")
			for m := 0; m < nmix; m++ {
				lead, trail := uniform[rng.Intn(len(uniform))].text, uniform[rng.Intn(len(uniform))].text
				run(r.name, "mix", lead+join(r.tokens, r.needs, func(int) string { return uniform[rng.Intn(len(uniform))].text })+trail)
			}
			base := join(r.tokens, r.needs, func(int) string { return " " })
			for _, j := range junk {
				junks = append(junks, junkObs{R: r.name, J: j, K: compileOnly(base + " " + j)})
				evals++
			}
		}
		rec["variants"] = variants
		rec["outs"] = outs
		if len(outs) > 1 || srcs["strdiff"] != "" {
			rec["srcs"] = srcs // the differing source texts, for the replay file only
		}
		// junk: the number of junk-extended sources tried and those NOT rejected (lossless: the junk set is fixed)
		accepted := []junkObs{}
		for _, j := range junks {
			if j.K != "cerr" {
				accepted = append(accepted, j)
			}
		}
		rec["junkTried"] = len(junks)
		rec["junkAccepted"] = accepted
		rec["src"] = join(c.TokensMin, c.GapsMin, func(int) string { return " " })
		rec["out"] = outs[variants[0].Oh]
		rec["evals"] = evals
		if err := w.Write(rec); err != nil {
			lib.Fatal("%v", err)
		}
	})
	if err := w.Close(); err != nil {
		lib.Fatal("%v", err)
	}
}
