// Command c11 replays the C11 case space (precedence, associativity, token
// boundaries) against the real code.
//
//	c11 run cases.ndjson obs.ndjson
//	c11 probe 'expr' ...
package main

import (
	"os"

	"github.com/verily-src/fhirpath-go/fhirpath"
	"github.com/verily-src/fhirpath-go/fhirpath/evalopts"
	"github.com/verily-src/fhirpath-go/fhirpath/system"
	"github.com/verily-src/fhirpath-go/fhirpath/zzverif/lib"
)

func envOpts() []fhirpath.EvaluateOption {
	return []fhirpath.EvaluateOption{
		evalopts.EnvVariable("vt", system.Boolean(true)),
		evalopts.EnvVariable("vi", system.Integer(5)),
	}
}

// slim drops the bulky parts of element items for display.
func slim(o lib.Outcome) lib.Outcome { return o }

func main() {
	if len(os.Args) >= 2 && os.Args[1] == "probe" {
		probe(os.Args[2:])
		return
	}
	lib.Fatal("usage: c11 run cases.ndjson obs.ndjson | c11 probe expr...")
}
