package main

import (
	"bufio"
	"fmt"
	"os"

	"github.com/verily-src/fhirpath-go/fhirpath"
)

func main() {
	sc := bufio.NewScanner(os.Stdin)
	for sc.Scan() {
		src := sc.Text()
		func() {
			defer func() {
				if r := recover(); r != nil {
					fmt.Printf("%-45s PANIC %v\n", src, r)
				}
			}()
			e, err := fhirpath.Compile(src)
			if err != nil {
				fmt.Printf("%-45s CERR %v\n", src, err)
				return
			}
			c, err := e.Evaluate(nil)
			if err != nil {
				fmt.Printf("%-45s ERR %v\n", src, err)
				return
			}
			fmt.Printf("%-45s %v\n", src, c)
		}()
	}
}
