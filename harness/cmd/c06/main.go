// Command c06 replays the C06 case space (three-valued logic over operand
// forms) against the real code.
//
//	c06 run cases.ndjson obs.ndjson
package main

import (
	"encoding/json"
	"os"
	"runtime"

	"github.com/verily-src/fhirpath-go/fhirpath"
	"github.com/verily-src/fhirpath-go/fhirpath/evalopts"
	"github.com/verily-src/fhirpath-go/fhirpath/system"
	"github.com/verily-src/fhirpath-go/fhirpath/zzverif/lib"
)

type form struct {
	Val string `json:"val"`
	Src string `json:"src"`
}
type caseRec struct {
	Ctx string `json:"ctx"`
	Op  string `json:"op"`
	L   form   `json:"l"`
	R   form   `json:"r"`
}
type genRec struct {
	ID   string          `json:"id"`
	Cs   json.RawMessage `json:"cs"`
	Text string          `json:"text"`
}

// operand texts are re-derived from the whole-expression text by asking the
// generator for them: the specification emits unary "asbool" cases whose text
// is exactly the operand's absolute text, so operands are looked up there.
func main() {
	if len(os.Args) != 4 || os.Args[1] != "run" {
		lib.Fatal("usage: c06 run cases.ndjson obs.ndjson")
	}
	var cases []genRec
	if err := lib.ReadNDJSON(os.Args[2], func(b []byte) error {
		var g genRec
		if err := json.Unmarshal(b, &g); err != nil {
			return err
		}
		cases = append(cases, g)
		return nil
	}); err != nil {
		lib.Fatal("%v", err)
	}
	patient := lib.LoadModelResource("MR1")
	forest, err := lib.NewForest(patient)
	if err != nil {
		lib.Fatal("%v", err)
	}
	res := lib.AsResources(patient)
	env := func() []fhirpath.EvaluateOption {
		return []fhirpath.EvaluateOption{
			evalopts.EnvVariable("vt", system.Boolean(true)),
			evalopts.EnvVariable("vf", system.Boolean(false)),
			evalopts.EnvVariable("ve", system.Collection{}),
			evalopts.EnvVariable("vs", system.String("str")),
			evalopts.EnvVariable("vm", system.Collection{system.Integer(1), system.Integer(2)}),
			evalopts.EnvVariable("vmb", system.Collection{system.Boolean(true), system.Boolean(false)}),
		}
	}
	// absolute operand text of a form = text of its asbool case
	absText := map[form]string{}
	for _, g := range cases {
		var c caseRec
		if err := json.Unmarshal(g.Cs, &c); err != nil {
			lib.Fatal("%v", err)
		}
		if c.Ctx == "asbool" {
			absText[c.L] = g.Text
		}
	}
	w, err := lib.NewWriter(os.Args[3])
	if err != nil {
		lib.Fatal("%v", err)
	}
	lib.ParallelMap(len(cases), runtime.NumCPU(), func(i int) {
		g := cases[i]
		var c caseRec
		_ = json.Unmarshal(g.Cs, &c)
		rec := map[string]any{"id": g.ID, "cs": g.Cs, "src": g.Text}
		lt, ok := absText[c.L]
		if !ok {
			lib.Fatal("no operand text for %+v", c.L)
		}
		rec["lout"] = lib.EvalOutcome(forest, lt, res, nil, env())
		rt, ok := absText[c.R]
		if !ok {
			lib.Fatal("no operand text for %+v", c.R)
		}
		rec["rout"] = lib.EvalOutcome(forest, rt, res, nil, env())
		if c.Ctx == "asbool" {
			rec["out"] = asBool(g.Text, res, env())
		} else {
			rec["out"] = lib.EvalOutcome(forest, g.Text, res, nil, env())
		}
		if err := w.Write(rec); err != nil {
			lib.Fatal("%v", err)
		}
	})
	if err := w.Close(); err != nil {
		lib.Fatal("%v", err)
	}
}

func asBool(src string, res []lib.Resource, opts []fhirpath.EvaluateOption) lib.Outcome {
	var out lib.Outcome
	rep := lib.SafeRetry(func() {
		e, err := fhirpath.Compile(src)
		if err != nil {
			out = lib.ErrOutcome("cerr", err)
			return
		}
		b, err := e.EvaluateAsBool(res, opts...)
		if err != nil {
			out = lib.ErrOutcome("err", err)
			return
		}
		out = lib.OkOutcome([]lib.Item{lib.BoolItem(b)})
	})
	if rep.Timeout {
		return lib.TimeoutOutcome()
	}
	if rep.Panic != "" {
		return lib.PanicOutcome(rep)
	}
	return out
}
