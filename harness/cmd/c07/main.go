// Command c07: empty propagation through operators and the function table.
//
//	c07 table funcs.ndjson          dump the implementation's base and experimental function tables
//	c07 run cases.ndjson obs.ndjson
package main

import (
	"encoding/json"
	"os"
	"runtime"
	"sort"

	"github.com/verily-src/fhirpath-go/fhirpath"
	"github.com/verily-src/fhirpath-go/fhirpath/compopts"
	"github.com/verily-src/fhirpath-go/fhirpath/evalopts"
	"github.com/verily-src/fhirpath-go/fhirpath/internal/funcs"
	"github.com/verily-src/fhirpath-go/fhirpath/system"
	"github.com/verily-src/fhirpath-go/fhirpath/zzverif/lib"
)

type caseRec struct {
	Exp  bool   `json:"exp"`
	Form string `json:"form"`
}

type genRec struct {
	ID   string          `json:"id"`
	Cs   json.RawMessage `json:"cs"`
	Text string          `json:"text"`
}

func main() {
	if len(os.Args) < 3 {
		lib.Fatal("usage: c07 table|run ...")
	}
	switch os.Args[1] {
	case "table":
		table(os.Args[2])
	case "run":
		run(os.Args[2], os.Args[3])
	}
}

func table(path string) {
	base := funcs.Clone()
	all := funcs.AddExperimentalFuncs(funcs.Clone())
	w, err := lib.NewWriter(path)
	if err != nil {
		lib.Fatal("%v", err)
	}
	names := []string{}
	for n := range all {
		names = append(names, n)
	}
	sort.Strings(names)
	for _, n := range names {
		_, inBase := base[n]
		f := all[n]
		if err := w.Write(map[string]any{"name": n, "min": f.MinArity, "max": f.MaxArity, "exp": !inBase}); err != nil {
			lib.Fatal("%v", err)
		}
	}
	if err := w.Close(); err != nil {
		lib.Fatal("%v", err)
	}
}

func run(casesPath, obsPath string) {
	var cases []genRec
	if err := lib.ReadNDJSON(casesPath, func(b []byte) error {
		var g genRec
		if err := json.Unmarshal(b, &g); err != nil {
			return err
		}
		g.Cs = append(json.RawMessage{}, g.Cs...)
		cases = append(cases, g)
		return nil
	}); err != nil {
		lib.Fatal("%v", err)
	}
	mr1 := lib.LoadModelResource("MR1")
	forest, err := lib.NewForest(mr1)
	if err != nil {
		lib.Fatal("%v", err)
	}
	w, err := lib.NewWriter(obsPath)
	if err != nil {
		lib.Fatal("%v", err)
	}
	lib.ParallelMap(len(cases), runtime.NumCPU(), func(i int) {
		g := cases[i]
		var c caseRec
		_ = json.Unmarshal(g.Cs, &c)
		var copts []fhirpath.CompileOption
		if c.Exp {
			copts = append(copts, compopts.WithExperimentalFuncs())
		}
		eopts := []fhirpath.EvaluateOption{
			evalopts.EnvVariable("ints", system.Collection{system.Integer(1), system.Integer(2), system.Integer(3)}),
			evalopts.EnvVariable("none", system.Collection{}),
		}
		var out lib.Outcome
		if c.Form == "var" {
			// compile once; evaluate with %none bound to a value, then with %none empty: the second outcome is judged
			out = twoBindings(forest, g.Text, lib.AsResources(mr1), copts)
		} else {
			out = lib.EvalOutcome(forest, g.Text, lib.AsResources(mr1), copts, eopts)
		}
		if err := w.Write(map[string]any{"id": g.ID, "cs": g.Cs, "src": g.Text, "out": out}); err != nil {
			lib.Fatal("%v", err)
		}
	})
	if err := w.Close(); err != nil {
		lib.Fatal("%v", err)
	}
}

func twoBindings(f *lib.Forest, src string, res []lib.Resource, copts []fhirpath.CompileOption) lib.Outcome {
	var out lib.Outcome
	ints := system.Collection{system.Integer(1), system.Integer(2), system.Integer(3)}
	rep := lib.SafeRetry(func() {
		e, err := fhirpath.Compile(src, copts...)
		if err != nil {
			out = lib.ErrOutcome("cerr", err)
			return
		}
		for _, first := range []any{system.Integer(41), system.String("abc")} {
			_, _ = e.Evaluate(res, evalopts.EnvVariable("ints", ints), evalopts.EnvVariable("none", first))
		}
		c, err := e.Evaluate(res, evalopts.EnvVariable("ints", ints), evalopts.EnvVariable("none", system.Collection{}))
		if err != nil {
			out = lib.ErrOutcome("err", err)
			return
		}
		out = lib.OkOutcome(f.ProjectCollection(c))
	})
	if rep.Timeout {
		return lib.TimeoutOutcome()
	}
	if rep.Panic != "" {
		return lib.PanicOutcome(rep)
	}
	return out
}
