package lib

import (
	"encoding/json"
	"fmt"
	"math/rand"
	"sort"
	"strings"

	apb "github.com/google/fhir/go/proto/google/fhir/proto/annotations_go_proto"
	bcrpb "github.com/google/fhir/go/proto/google/fhir/proto/r4/core/resources/bundle_and_contained_resource_go_proto"
	"google.golang.org/protobuf/proto"
	"google.golang.org/protobuf/reflect/protoreflect"
)

// This file is the schema-driven resource generator (DESIGN.md 2.3 `gen`,
// `schema`): it reads ONLY the google/fhir proto descriptors and produces FHIR
// JSON documents, which are then parsed with jsonformat. It never calls
// fhirpath-go.

// ResourceTypes lists the R4 resource type names (the ContainedResource oneof).
func ResourceTypes() []string {
	d := (&bcrpb.ContainedResource{}).ProtoReflect().Descriptor()
	od := d.Oneofs().Get(0)
	out := []string{}
	for i := 0; i < od.Fields().Len(); i++ {
		out = append(out, string(od.Fields().Get(i).Message().Name()))
	}
	sort.Strings(out)
	return out
}

// ResourceDescriptor finds a resource type's message descriptor.
func ResourceDescriptor(name string) protoreflect.MessageDescriptor {
	d := (&bcrpb.ContainedResource{}).ProtoReflect().Descriptor()
	od := d.Oneofs().Get(0)
	for i := 0; i < od.Fields().Len(); i++ {
		if md := od.Fields().Get(i).Message(); string(md.Name()) == name {
			return md
		}
	}
	return nil
}

// PopOptions steer one populated instance.
type PopOptions struct {
	Inst      int        // instance number: selects choice alternatives, precisions, reference forms
	Repeat    int        // elements per repeated field (default 2)
	MaxDepth  int        // nesting budget for backbone components (default 6)
	TypeDepth int        // nesting budget inside datatypes (default 2)
	Rand      *rand.Rand // nil: fully deterministic from Inst; else fields are dropped at random
	KeepProb  float64    // with Rand: probability of populating an optional field (default 0.7)
	Contained bool       // add a contained resource / fill resource slots
}

type popgen struct {
	o     PopOptions
	count int
	deep  int // values produced at nesting depth >= 2 (budgeted: recursive backbones explode otherwise)
}

const deepBudget = 500

// PopulatedJSON builds a populated instance of the resource type as FHIR JSON.
func PopulatedJSON(resourceType string, o PopOptions) ([]byte, error) {
	md := ResourceDescriptor(resourceType)
	if md == nil {
		return nil, fmt.Errorf("unknown resource type %s", resourceType)
	}
	if o.Repeat == 0 {
		o.Repeat = 2
	}
	if o.MaxDepth == 0 {
		o.MaxDepth = 6
	}
	if o.TypeDepth == 0 {
		o.TypeDepth = 2
	}
	if o.KeepProb == 0 {
		o.KeepProb = 0.7
	}
	g := &popgen{o: o}
	obj := g.message(md, resourceType, 0, 0, true)
	obj["resourceType"] = resourceType
	return json.Marshal(obj)
}

// PopulatedResource builds the instance and parses it with jsonformat.
func PopulatedResource(resourceType string, o PopOptions) (proto.Message, []byte, error) {
	js, err := PopulatedJSON(resourceType, o)
	if err != nil {
		return nil, nil, err
	}
	res, err := ParseResource(js)
	if err != nil {
		return nil, js, fmt.Errorf("jsonformat rejected generated %s: %w", resourceType, err)
	}
	return res, js, nil
}

func (g *popgen) keep() bool {
	if g.o.Rand == nil {
		return true
	}
	return g.o.Rand.Float64() < g.o.KeepProb
}

func (g *popgen) message(md protoreflect.MessageDescriptor, path string, depth, tdepth int, isResource bool) map[string]any {
	obj := map[string]any{}
	fields := md.Fields()
	for i := 0; i < fields.Len(); i++ {
		f := fields.Get(i)
		if f.Message() == nil {
			continue
		}
		name := f.JSONName()
		fpath := path + "." + name
		if !g.keep() && name != "url" {
			continue
		}
		n := 1
		if f.IsList() {
			n = g.o.Repeat
			if depth+tdepth >= 2 && n > 1 {
				n = 1 + (g.count+g.o.Inst)%2 // deeper lists alternate between one and two elements
			}
			if g.o.Rand != nil {
				n = 1 + g.o.Rand.Intn(3)
			}
		}
		if (name == "extension" || name == "modifierExtension") && !isResource && (g.count+g.o.Inst)%9 != 0 {
			continue // element-level extensions only now and then
		}
		vals := []any{}
		exts := []any{}
		hasExt := false
		jsonName := name
		for k := 0; k < n; k++ {
			jn, v, ext, ok := g.value(f, fpath, k, depth, tdepth, isResource)
			if !ok {
				continue
			}
			jsonName = jn
			vals = append(vals, v)
			exts = append(exts, ext)
			if ext != nil {
				hasExt = true
			}
		}
		if len(vals) == 0 {
			continue
		}
		if f.IsList() {
			// string-like lists now and then carry an extension on one entry and a value-less entry
			// (JSON null in the value array, the element living in the parallel "_name" array)
			if md := f.Message(); len(vals) >= 2 && !hasExt && (g.count+g.o.Inst)%5 == 0 {
				if ty, kind := FHIRTypeOf(md); kind == "prim" && (ty == "string" || ty == "uri" || ty == "markdown") {
					exts = make([]any, len(vals))
					exts[0] = map[string]any{"extension": []any{map[string]any{"url": "http://example.org/prim-ext", "valueString": "px0"}}}
					vals[len(vals)-1] = nil
					exts[len(vals)-1] = map[string]any{"extension": []any{map[string]any{"url": "http://example.org/prim-ext", "valueString": "novalue"}}}
					hasExt = true
				}
			}
			obj[jsonName] = vals
			if hasExt {
				obj["_"+jsonName] = exts
			}
		} else {
			obj[jsonName] = vals[0]
			if hasExt {
				obj["_"+jsonName] = exts[0]
			}
		}
	}
	return obj
}

// value produces the JSON name and value for one element of field f.
func (g *popgen) value(f protoreflect.FieldDescriptor, path string, k, depth, tdepth int, inResource bool) (string, any, any, bool) {
	g.count++
	if depth+tdepth >= 2 {
		g.deep++
		if g.deep > deepBudget && (depth >= 2 || k > 0) {
			return "", nil, nil, false
		}
	}
	md := f.Message()
	name := f.JSONName()
	if name == "id" && !inResource {
		// element ids: populate only occasionally
		if (g.count+g.o.Inst)%7 != 0 {
			return "", nil, nil, false
		}
	}
	if isChoice(md) {
		od := md.Oneofs().Get(0)
		alts := od.Fields()
		alt := alts.Get((g.o.Inst + k) % alts.Len())
		if g.o.Rand != nil {
			alt = alts.Get(g.o.Rand.Intn(alts.Len()))
		}
		jn := snakeToLowerCamel(string(f.Name()) + "_" + camelToSnake(alt.JSONName()))
		_, v, ext, ok := g.value(alt, path, k, depth, tdepth+1, inResource)
		return jn, v, ext, ok
	}
	ty, kind := FHIRTypeOf(md)
	switch {
	case kind == "prim":
		v, ok := g.primitive(md, ty, name, path, k)
		if !ok {
			return "", nil, nil, false
		}
		var ext any
		if !f.IsList() && (g.count+g.o.Inst)%11 == 0 && md.Fields().ByName("extension") != nil {
			ext = map[string]any{"extension": []any{map[string]any{"url": "http://example.org/prim-ext", "valueString": "px"}}}
		}
		return name, v, ext, true
	case md.Name() == "ContainedResource":
		if !g.o.Contained {
			return "", nil, nil, false
		}
		inner := []string{"Patient", "Observation", "Organization"}[(g.o.Inst+k)%3]
		js, err := PopulatedJSON(inner, PopOptions{Inst: g.o.Inst + k, Repeat: 1, MaxDepth: 1, TypeDepth: 1})
		if err != nil {
			return "", nil, nil, false
		}
		var obj map[string]any
		_ = json.Unmarshal(js, &obj)
		obj["id"] = fmt.Sprintf("in%d", k)
		return name, obj, nil, true
	case md.FullName() == "google.protobuf.Any":
		if !g.o.Contained || name != "contained" {
			return "", nil, nil, false
		}
		js, err := PopulatedJSON("Organization", PopOptions{Inst: g.o.Inst + k, Repeat: 1, MaxDepth: 1, TypeDepth: 1})
		if err != nil {
			return "", nil, nil, false
		}
		var obj map[string]any
		_ = json.Unmarshal(js, &obj)
		obj["id"] = fmt.Sprintf("c%d", k)
		return name, obj, nil, true
	case proto.HasExtension(md.Options(), apb.E_FhirReferenceType) || md.Name() == "Reference":
		return name, g.reference(f, k), nil, true
	case md.Name() == "Extension":
		if depth+tdepth > 3 {
			return "", nil, nil, false
		}
		url := []string{"http://example.org/ext/a", "http://example.org/ext/b"}[k%2]
		return name, map[string]any{"url": url, "valueString": fmt.Sprintf("e%d", k)}, nil, true
	case kind == "backbone":
		if depth >= g.o.MaxDepth {
			return "", nil, nil, false
		}
		obj := g.message(md, path, depth+1, tdepth, false)
		if len(obj) == 0 {
			return "", nil, nil, false
		}
		return name, obj, nil, true
	default: // complex datatype
		if tdepth >= g.o.TypeDepth {
			return "", nil, nil, false
		}
		obj := g.message(md, path, depth, tdepth+1, false)
		if len(obj) == 0 {
			return "", nil, nil, false
		}
		return name, obj, nil, true
	}
}

func (g *popgen) reference(f protoreflect.FieldDescriptor, k int) map[string]any {
	targets := proto.GetExtension(f.Options(), apb.E_ValidReferenceType).([]string)
	t := "Patient"
	if len(targets) > 0 {
		t = targets[(g.o.Inst+k)%len(targets)]
	}
	if t == "Resource" {
		t = "Organization"
	}
	id := fmt.Sprintf("r%d", g.count%97)
	var ref string
	switch (g.o.Inst + k + g.count) % 6 {
	case 0:
		ref = t + "/" + id
	case 1:
		ref = t + "/" + id + "/_history/3"
	case 2:
		ref = "http://other.example.org/fhir/" + t + "/" + id
	case 3:
		ref = "#c0"
	case 4:
		ref = "urn:uuid:0d6f3f0e-3a7c-4b0a-9c54-6f1f2f3a4b5c"
	default:
		ref = t + "/" + id
	}
	out := map[string]any{"reference": ref}
	if k%2 == 1 {
		out["display"] = "d-" + id
	}
	return out
}

// enumCode gives the FHIR code of an enum value.
func enumCode(ev protoreflect.EnumValueDescriptor) string {
	if proto.HasExtension(ev.Options(), apb.E_FhirOriginalCode) {
		return proto.GetExtension(ev.Options(), apb.E_FhirOriginalCode).(string)
	}
	return strings.ReplaceAll(strings.ToLower(string(ev.Name())), "_", "-")
}

func (g *popgen) primitive(md protoreflect.MessageDescriptor, ty, name, path string, k int) (any, bool) {
	sel := g.o.Inst + k + g.count
	leaf := path[strings.LastIndex(path, ".")+1:]
	switch ty {
	case "boolean":
		return sel%2 == 0, true
	case "integer":
		return json.Number(fmt.Sprint(sel%50 - 10)), true
	case "positiveInt":
		return json.Number(fmt.Sprint(sel%40 + 1)), true
	case "unsignedInt":
		return json.Number(fmt.Sprint(sel % 40)), true
	case "decimal":
		return json.Number([]string{"1.5", "0.25", "72.50", "-3.125", "100", "0.0001"}[sel%6]), true
	case "date":
		return []string{"2019", "2020-02", "2020-02-29", "1999-12-31"}[sel%4], true
	case "dateTime":
		return []string{"2018", "2019-11", "2020-03-01", "2020-03-01T10:30:00Z", "2020-03-01T16:00:00+05:30", "2019-12-31T23:59:59.500-11:00", "2021-06-15T08:00:00.123Z"}[sel%7], true
	case "instant":
		return []string{"2020-03-05T10:11:12Z", "2021-01-02T03:04:05.678+02:00", "2019-07-08T09:10:11.120-08:00"}[sel%3], true
	case "time":
		return []string{"10:20:30", "23:59:59.999", "00:00:00"}[sel%3], true
	case "base64Binary":
		return []string{"AQID", "aGVsbG8="}[sel%2], true
	case "xhtml":
		return "<div xmlns=\"http://www.w3.org/1999/xhtml\">x</div>", true
	case "uri", "url", "canonical":
		return fmt.Sprintf("http://example.org/%s/%d", leaf, sel%5), true
	case "oid":
		return fmt.Sprintf("urn:oid:1.2.3.%d", sel%9), true
	case "uuid":
		return fmt.Sprintf("urn:uuid:0d6f3f0e-3a7c-4b0a-9c54-6f1f2f3a4b%02d", sel%90+10), true
	case "id":
		return fmt.Sprintf("id-%s-%d", strings.ToLower(leaf), sel%7), true
	case "markdown":
		return fmt.Sprintf("md *%s* %d", leaf, k), true
	case "code":
		vf := md.Fields().ByName("value")
		if vf != nil && vf.Kind() == protoreflect.EnumKind {
			vals := vf.Enum().Values()
			if vals.Len() < 2 {
				return nil, false
			}
			return enumCode(vals.Get(1 + sel%(vals.Len()-1))), true
		}
		return fmt.Sprintf("c%d", sel%5), true
	case "string":
		return fmt.Sprintf("s-%s-%d", leaf, k), true
	}
	if vf := md.Fields().ByName("value"); vf != nil && vf.Kind() == protoreflect.StringKind {
		return fmt.Sprintf("v-%s-%d", leaf, k), true
	}
	return nil, false
}

// SchemaNames gives, for a message type, the FHIRPath element names valid on
// it (JSON names; a choice element by its base name), from the descriptor.
func SchemaNames(md protoreflect.MessageDescriptor) []string {
	out := []string{}
	fields := md.Fields()
	for i := 0; i < fields.Len(); i++ {
		f := fields.Get(i)
		if f.Message() == nil {
			continue
		}
		if od := f.ContainingOneof(); od != nil && od.Name() == "reference" && md.Name() == "Reference" {
			// google/fhir splits Reference.reference into a oneof of typed ids; the FHIR element is `reference`
			continue
		}
		out = append(out, f.JSONName())
	}
	if md.Name() == "Reference" {
		out = append(out, "reference")
	}
	sort.Strings(out)
	return out
}

var descRegistry map[string]protoreflect.MessageDescriptor

func registerDesc(md protoreflect.MessageDescriptor) {
	pn := ProtoName(md)
	if _, ok := descRegistry[pn]; ok {
		return
	}
	descRegistry[pn] = md
	fields := md.Fields()
	for i := 0; i < fields.Len(); i++ {
		if m := fields.Get(i).Message(); m != nil {
			registerDesc(m)
		}
	}
}

// DescriptorByProtoName finds a message descriptor reachable from any R4
// resource by its dotted proto name (Patient.Contact).
func DescriptorByProtoName(pn string) protoreflect.MessageDescriptor {
	if descRegistry == nil {
		descRegistry = map[string]protoreflect.MessageDescriptor{}
		for _, t := range ResourceTypes() {
			registerDesc(ResourceDescriptor(t))
		}
	}
	return descRegistry[pn]
}

// SchemaOfTree maps every proto name occurring in the tree to the FHIRPath
// element names valid on that type.
func SchemaOfTree(root *Node) map[string][]string {
	out := map[string][]string{}
	var walk func(n *Node)
	walk = func(n *Node) {
		if _, ok := out[n.Pn]; !ok && n.K != "prim" {
			if md := DescriptorByProtoName(n.Pn); md != nil {
				out[n.Pn] = SchemaNames(md)
			}
		}
		for _, c := range n.Kids {
			walk(c)
		}
	}
	walk(root)
	return out
}
