package lib

import (
	"bufio"
	"encoding/json"
	"fmt"
	"os"
	"runtime/debug"
	"strconv"
	"strings"
	"sync"
	"time"
)

// CallReport says how a guarded call ended.
type CallReport struct {
	Panic   string // non-empty when the call panicked
	Stack   string
	Timeout bool // the call did not return within the deadline
	Ms      int64
}

// DefaultDeadline is the per-call wall-clock budget (DESIGN.md C01). A call
// that misses it is re-run alone with ten times the budget before it is
// reported as a timeout.
var DefaultDeadline = 5 * time.Second

// Safe runs fn under recover and a deadline. When the deadline passes the
// goroutine is abandoned (it cannot be killed); the caller reports a timeout.
func Safe(deadline time.Duration, fn func()) CallReport {
	done := make(chan CallReport, 1)
	start := time.Now()
	go func() {
		rep := CallReport{}
		defer func() {
			if r := recover(); r != nil {
				rep.Panic = Ascii(trim(fmt.Sprint(r), 200))
				rep.Stack = firstRepoFrame(string(debug.Stack()))
			}
			rep.Ms = time.Since(start).Milliseconds()
			done <- rep
		}()
		fn()
	}()
	select {
	case rep := <-done:
		return rep
	case <-time.After(deadline):
		return CallReport{Timeout: true, Ms: time.Since(start).Milliseconds()}
	}
}

// SafeRetry is Safe with the DESIGN.md timeout policy: a missed deadline is
// retried once with a 10x budget; only a second miss is a timeout.
func SafeRetry(fn func()) CallReport {
	rep := Safe(DefaultDeadline, fn)
	if rep.Timeout {
		rep = Safe(10*DefaultDeadline, fn)
	}
	return rep
}

// firstRepoFrame extracts the innermost frame inside the repository, used as
// the call-site part of a panic's signature.
func firstRepoFrame(stack string) string {
	lines := strings.Split(stack, "\n")
	for i := 0; i+1 < len(lines); i++ {
		l := lines[i]
		if strings.Contains(l, "verily-src/fhirpath-go/") && !strings.Contains(l, "zzverif") && !strings.Contains(l, "runtime/") {
			fn := l
			if j := strings.LastIndex(fn, "("); j > 0 {
				fn = fn[:j]
			}
			fn = strings.TrimPrefix(fn, "github.com/verily-src/fhirpath-go/")
			return Ascii(fn)
		}
	}
	return "unknown"
}

// PanicOutcome / TimeoutOutcome are the two outcomes no specification permits.
func PanicOutcome(rep CallReport) Outcome {
	return Outcome{"k": "panic", "msg": rep.Panic, "site": rep.Stack}
}
func TimeoutOutcome() Outcome { return Outcome{"k": "timeout"} }

// ---------------------------------------------------------------- NDJSON I/O

// ReadNDJSON calls fn for every non-empty line.
func ReadNDJSON(path string, fn func(line []byte) error) error {
	f, err := os.Open(path)
	if err != nil {
		return err
	}
	defer f.Close()
	sc := bufio.NewScanner(f)
	sc.Buffer(make([]byte, 1<<20), 1<<28)
	n := 0
	for sc.Scan() {
		n++
		b := sc.Bytes()
		if len(strings.TrimSpace(string(b))) == 0 {
			continue
		}
		if err := fn(b); err != nil {
			return fmt.Errorf("%s:%d: %w", path, n, err)
		}
	}
	return sc.Err()
}

// Writer writes NDJSON records from many goroutines.
type Writer struct {
	mu sync.Mutex
	f  *os.File
	w  *bufio.Writer
	N  int
}

func NewWriter(path string) (*Writer, error) {
	f, err := os.Create(path)
	if err != nil {
		return nil, err
	}
	return &Writer{f: f, w: bufio.NewWriterSize(f, 1<<20)}, nil
}

func (w *Writer) Write(rec any) error {
	b, err := json.Marshal(rec)
	if err != nil {
		return err
	}
	w.mu.Lock()
	defer w.mu.Unlock()
	w.N++
	w.w.Write(b)
	return w.w.WriteByte('\n')
}

func (w *Writer) Close() error {
	if mutLogW != nil && w != mutLogW {
		// the observation writer of a harness command is closed last: flush the traffic monitor with it
		defer FlushMutLog()
	}
	w.mu.Lock()
	defer w.mu.Unlock()
	if err := w.w.Flush(); err != nil {
		return err
	}
	return w.f.Close()
}

// Seed returns VERIF_SEED (default 1).
func Seed() int64 {
	if s := os.Getenv("VERIF_SEED"); s != "" {
		if v, err := strconv.ParseInt(s, 10, 64); err == nil {
			return v
		}
	}
	return 1
}

// Fatal reports a machinery failure (exit 2: inconclusive, never a violation).
func Fatal(format string, args ...any) {
	fmt.Fprintf(os.Stderr, "HARNESS-ERROR: "+format+"\n", args...)
	os.Exit(2)
}

// ParallelMap runs fn over 0..n-1 on `workers` goroutines.
func ParallelMap(n, workers int, fn func(i int)) {
	if workers < 1 {
		workers = 1
	}
	var wg sync.WaitGroup
	ch := make(chan int, 256)
	for w := 0; w < workers; w++ {
		wg.Add(1)
		go func() {
			defer wg.Done()
			for i := range ch {
				fn(i)
			}
		}()
	}
	for i := 0; i < n; i++ {
		ch <- i
	}
	close(ch)
	wg.Wait()
}
