package lib

import (
	"os"
	"path/filepath"

	"github.com/verily-src/fhirpath-go/internal/fhir"
	"google.golang.org/protobuf/proto"
)

// SpecDir is where the specification's data files live.
func SpecDir() string {
	if d := os.Getenv("VERIF_SPEC"); d != "" {
		return d
	}
	return "/verif/spec"
}

// LoadModelResource parses spec/data/<name>.json with jsonformat.
func LoadModelResource(name string) proto.Message {
	js, err := os.ReadFile(filepath.Join(SpecDir(), "data", name+".json"))
	if err != nil {
		Fatal("model resource %s: %v", name, err)
	}
	res, err := ParseResource(js)
	if err != nil {
		Fatal("model resource %s: %v", name, err)
	}
	return res
}

// AsResources converts messages to the repository's Resource interface.
func AsResources(ms ...proto.Message) []fhir.Resource {
	out := make([]fhir.Resource, 0, len(ms))
	for _, m := range ms {
		r, ok := m.(fhir.Resource)
		if !ok {
			Fatal("%T is not a fhir.Resource", m)
		}
		out = append(out, r)
	}
	return out
}

// Resource is the repository's resource interface.
type Resource = fhir.Resource
