package lib

import (
	"os"
	"path/filepath"

	ppb "github.com/google/fhir/go/proto/google/fhir/proto/r4/core/resources/patient_go_proto"
	"github.com/verily-src/fhirpath-go/internal/fhir"
	"google.golang.org/protobuf/proto"
)

// SpecDir is where the specification's data files live.
func SpecDir() string {
	if d := os.Getenv("VERIF_SPEC"); d != "" {
		return d
	}
	return "/verif/spec"
}

// LoadModelResource parses spec/data/<name>.json with jsonformat.
func LoadModelResource(name string) proto.Message {
	js, err := os.ReadFile(filepath.Join(SpecDir(), "data", name+".json"))
	if err != nil {
		Fatal("model resource %s: %v", name, err)
	}
	res, err := ParseResource(js)
	if err != nil {
		Fatal("model resource %s: %v", name, err)
	}
	return FixModelResource(name, res)
}

// FixModelResource applies the per-resource corrections to a freshly parsed model resource (also used by cmd/annotate).
func FixModelResource(name string, res proto.Message) proto.Message {
	if name == "MR1" {
		// jsonformat's unmarshaller marks a primitive whose value is the zero value (false, 0) and that has a `_field`
		// sibling as value-less. MR1's deceasedBoolean is meant to be a genuine `false` that carries an extension
		// (an operand form of the Boolean operators): the marker is removed, the marshaller then renders value and
		// extension, and the annotated tree the specification reads is made from this message.
		if p, ok := res.(interface{ GetDeceased() *ppb.Patient_DeceasedX }); ok {
			if b := p.GetDeceased().GetBoolean(); b != nil {
				kept := b.Extension[:0:0]
				for _, e := range b.Extension {
					if !isNoValueExtension(e.ProtoReflect()) {
						kept = append(kept, e)
					}
				}
				b.Extension = kept
			}
		}
	}
	return res
}

// AsResources converts messages to the repository's Resource interface.
func AsResources(ms ...proto.Message) []fhir.Resource {
	out := make([]fhir.Resource, 0, len(ms))
	for _, m := range ms {
		r, ok := m.(fhir.Resource)
		if !ok {
			Fatal("%T is not a fhir.Resource", m)
		}
		out = append(out, r)
	}
	return out
}

// Resource is the repository's resource interface.
type Resource = fhir.Resource
