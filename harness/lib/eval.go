package lib

import (
	"encoding/json"
	"fmt"
	"os"
	"strconv"
	"strings"
	"sync"
	"sync/atomic"
	"time"

	"github.com/verily-src/fhirpath-go/fhirpath"
	"github.com/verily-src/fhirpath-go/fhirpath/internal/expr"
	"github.com/verily-src/fhirpath-go/fhirpath/internal/funcs/impl"
	"github.com/verily-src/fhirpath-go/fhirpath/system"
	"github.com/verily-src/fhirpath-go/internal/fhir"
	"google.golang.org/protobuf/proto"
)

// EvalOutcome compiles src and evaluates it on the resources through the
// public API, under recover and the deadline, and projects the result.
func EvalOutcome(f *Forest, src string, res []fhir.Resource, copts []fhirpath.CompileOption, eopts []fhirpath.EvaluateOption) Outcome {
	if mutLogOn() {
		return evalLogged(f, src, res, copts, eopts)
	}
	return evalOutcome(f, src, res, copts, eopts)
}

// Traffic monitor for property C03 (DESIGN.md: "every evaluation of every check carries the mutation report"): when
// VERIF_MUTLOG names a file, every evaluation made through EvalOutcome by any harness command is bracketed by
// snapshots of its input resources and the report is appended to that file (one in VERIF_MUTLOG_EVERY calls,
// default every call). The C03 check collects these files and has them judged.
var (
	mutLogOnce sync.Once
	mutLogW    *Writer
	mutLogN    int64
	mutLogStep int64 = 1
)

func mutLogOn() bool {
	mutLogOnce.Do(func() {
		if p := os.Getenv("VERIF_MUTLOG"); p != "" {
			w, err := NewWriter(fmt.Sprintf("%s.%d", p, os.Getpid()))
			if err == nil {
				mutLogW = w
			}
			if n, err := strconv.ParseInt(os.Getenv("VERIF_MUTLOG_EVERY"), 10, 64); err == nil && n > 0 {
				mutLogStep = n
			}
		}
	})
	return mutLogW != nil
}

// FlushMutLog must be called by a harness command before it exits.
func FlushMutLog() {
	if mutLogW != nil {
		_ = mutLogW.Close()
	}
}

func evalLogged(f *Forest, src string, res []fhir.Resource, copts []fhirpath.CompileOption, eopts []fhirpath.EvaluateOption) Outcome {
	n := atomic.AddInt64(&mutLogN, 1)
	if n%mutLogStep != 0 {
		return evalOutcome(f, src, res, copts, eopts)
	}
	msgs := make([]proto.Message, 0, len(res))
	for _, r := range res {
		msgs = append(msgs, r)
	}
	snap := TakeSnapshot(msgs, nil)
	out := evalOutcome(f, src, res, copts, eopts)
	rec := map[string]any{"id": fmt.Sprintf("traffic/%d/%d", os.Getpid(), n), "kind": "traffic", "src": Ascii(trim(src, 300)),
		"out": Outcome{"k": out["k"], "items": []Item{}}, "mut": snap.Report(), "checkown": false}
	_ = mutLogW.Write(rec)
	return out
}

var burstN int64

func repeatable(src string) bool {
	return !strings.Contains(src, "now()") && !strings.Contains(src, "today()") && !strings.Contains(src, "timeOfDay()")
}

func evalOutcome(f *Forest, src string, res []fhir.Resource, copts []fhirpath.CompileOption, eopts []fhirpath.EvaluateOption) Outcome {
	var out Outcome
	rep := SafeRetry(func() {
		out = nil
		e, err := fhirpath.Compile(src, copts...)
		if err != nil {
			out = ErrOutcome("cerr", err)
			return
		}
		if e == nil {
			out = Outcome{"k": "cerr", "cls": []string{"NilExpression"}, "msg": "Compile returned nil, nil"}
			return
		}
		run := func() Outcome {
			c, err := e.Evaluate(res, eopts...)
			if err != nil {
				return ErrOutcome("err", err)
			}
			return OkOutcome(f.ProjectCollection(c))
		}
		out = run()
		// The same compiled expression on the same inputs again, while the other workers of the harness evaluate their
		// own cases: a result that is not a function of its inputs (state shared between goroutines or kept from the
		// first evaluation) shows as an outcome that changes. Not for the clock functions without a fixed clock.
		if repeatable(src) {
			// every 16th evaluation is a burst of 100 repetitions: the workers take neighbouring cases (the same function
			// on other operands), so bursts overlap and shared state between goroutines gets its chance
			reps := 2
			if atomic.AddInt64(&burstN, 1)%16 == 0 {
				reps = 100
			}
			t0 := time.Now()
			for k := 0; k < reps; k++ {
				if k >= 1 && time.Since(t0) > 30*time.Millisecond {
					break // the repetitions must never push a slow evaluation towards its deadline
				}
				if again := run(); !SameOutcome(out, again) {
					out = Outcome{"k": "panic", "site": "unstable", "msg": "the same compiled expression evaluated again on the same inputs gave another outcome"}
					return
				}
			}
		}
	})
	if rep.Timeout {
		return TimeoutOutcome()
	}
	if rep.Panic != "" {
		return PanicOutcome(rep)
	}
	return out
}

// Coll builds a system.Collection.
func Coll(items ...any) system.Collection { return system.Collection(items) }

func init() {
	RegisterSentinels(
		ErrSentinel{fhirpath.ErrInvalidField, "InvalidField"},
		ErrSentinel{fhirpath.ErrUnsupportedType, "UnsupportedType"},
		ErrSentinel{fhirpath.ErrExistingConstant, "ExistingConstant"},
		ErrSentinel{expr.ErrNotSingleton, "NotSingleton"},
		ErrSentinel{expr.ErrInvalidType, "InvalidType"},
		ErrSentinel{expr.ErrConstantNotFound, "ConstantNotFound"},
		ErrSentinel{expr.ErrToBeImplemented, "NotImplemented"},
		ErrSentinel{impl.ErrWrongArity, "WrongArity"},
		ErrSentinel{system.ErrTypeMismatch, "TypeMismatch"},
	)
}

// EvalTwice compiles src once and evaluates the SAME compiled expression twice (eopts builds fresh options for
// each evaluation). The second outcome must equal the first when the compiled expression is immutable (C03/C04).
func EvalTwice(f *Forest, src string, res []fhir.Resource, copts []fhirpath.CompileOption, eopts func() []fhirpath.EvaluateOption) (Outcome, Outcome) {
	var out1, out2 Outcome
	rep := SafeRetry(func() {
		out1, out2 = nil, nil
		e, err := fhirpath.Compile(src, copts...)
		if err != nil {
			out1 = ErrOutcome("cerr", err)
			out2 = out1
			return
		}
		run := func() Outcome {
			c, err := e.Evaluate(res, eopts()...)
			if err != nil {
				return ErrOutcome("err", err)
			}
			return OkOutcome(f.ProjectCollection(c))
		}
		out1 = run()
		out2 = run()
	})
	if rep.Timeout {
		return TimeoutOutcome(), TimeoutOutcome()
	}
	if rep.Panic != "" {
		return PanicOutcome(rep), PanicOutcome(rep)
	}
	return out1, out2
}

// EvalCross compiles src once and evaluates the compiled expression on inputs A, then on OTHER inputs B, then on A
// again; a freshly compiled expression is evaluated on B for reference. It returns the first outcome on A and two
// flags: reevalDiffers (the third evaluation, on A again, differs from the first: the compiled expression or shared
// state was changed by the evaluations in between) and crossDiffers (the reused expression disagrees on B with a fresh
// one: something of the first evaluation - variable values, the resource, a cached descriptor - was kept).
func EvalCross(f *Forest, src string, resA []fhir.Resource, optsA func() []fhirpath.EvaluateOption,
	resB []fhir.Resource, optsB func() []fhirpath.EvaluateOption) (Outcome, Outcome, bool, bool, bool) {
	var outA, outA2, outB, outBfresh, outALate Outcome
	rep := SafeRetry(func() {
		outA, outA2, outB, outBfresh, outALate = nil, nil, nil, nil, nil
		e, err := fhirpath.Compile(src)
		if err != nil {
			outA = ErrOutcome("cerr", err)
			outA2, outB, outBfresh, outALate = outA, outA, outA, outA
			return
		}
		run := func(x *fhirpath.Expression, res []fhir.Resource, opts func() []fhirpath.EvaluateOption) Outcome {
			c, err := x.Evaluate(res, opts()...)
			if err != nil {
				return ErrOutcome("err", err)
			}
			return OkOutcome(f.ProjectCollection(c))
		}
		// the collection the first evaluation returned is KEPT by the caller and projected again after the later
		// evaluations: a result is the caller's, no later call may write into it (a pooled or shared buffer would)
		keptA, errA := e.Evaluate(resA, optsA()...)
		if errA != nil {
			outA = ErrOutcome("err", errA)
		} else {
			outA = OkOutcome(f.ProjectCollection(keptA))
		}
		defer func() {
			if errA != nil {
				outALate = outA
			} else {
				outALate = OkOutcome(f.ProjectCollection(keptA))
			}
		}()
		outB = run(e, resB, optsB)
		outA2 = run(e, resA, optsA)
		fresh, err := fhirpath.Compile(src)
		if err != nil {
			outBfresh = ErrOutcome("cerr", err)
			return
		}
		outBfresh = run(fresh, resB, optsB)
	})
	if rep.Timeout {
		return TimeoutOutcome(), TimeoutOutcome(), false, false, false
	}
	if rep.Panic != "" {
		return PanicOutcome(rep), PanicOutcome(rep), false, false, false
	}
	return outA, outB, !SameOutcome(outA, outA2), !SameOutcome(outB, outBfresh), outALate != nil && !SameOutcome(outA, outALate)
}

// SameOutcome compares two projected outcomes structurally (through their JSON form).
func SameOutcome(a, b Outcome) bool {
	ja, _ := json.Marshal(a)
	jb, _ := json.Marshal(b)
	return string(ja) == string(jb)
}
