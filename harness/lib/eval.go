package lib

import (
	"encoding/json"
	"github.com/verily-src/fhirpath-go/fhirpath"
	"github.com/verily-src/fhirpath-go/fhirpath/internal/expr"
	"github.com/verily-src/fhirpath-go/fhirpath/internal/funcs/impl"
	"github.com/verily-src/fhirpath-go/fhirpath/system"
	"github.com/verily-src/fhirpath-go/internal/fhir"
)

// EvalOutcome compiles src and evaluates it on the resources through the
// public API, under recover and the deadline, and projects the result.
func EvalOutcome(f *Forest, src string, res []fhir.Resource, copts []fhirpath.CompileOption, eopts []fhirpath.EvaluateOption) Outcome {
	var out Outcome
	rep := SafeRetry(func() {
		out = nil
		e, err := fhirpath.Compile(src, copts...)
		if err != nil {
			out = ErrOutcome("cerr", err)
			return
		}
		if e == nil {
			out = Outcome{"k": "cerr", "cls": []string{"NilExpression"}, "msg": "Compile returned nil, nil"}
			return
		}
		c, err := e.Evaluate(res, eopts...)
		if err != nil {
			out = ErrOutcome("err", err)
			return
		}
		out = OkOutcome(f.ProjectCollection(c))
	})
	if rep.Timeout {
		return TimeoutOutcome()
	}
	if rep.Panic != "" {
		return PanicOutcome(rep)
	}
	return out
}

// Coll builds a system.Collection.
func Coll(items ...any) system.Collection { return system.Collection(items) }

func init() {
	RegisterSentinels(
		ErrSentinel{fhirpath.ErrInvalidField, "InvalidField"},
		ErrSentinel{fhirpath.ErrUnsupportedType, "UnsupportedType"},
		ErrSentinel{fhirpath.ErrExistingConstant, "ExistingConstant"},
		ErrSentinel{expr.ErrNotSingleton, "NotSingleton"},
		ErrSentinel{expr.ErrInvalidType, "InvalidType"},
		ErrSentinel{expr.ErrConstantNotFound, "ConstantNotFound"},
		ErrSentinel{expr.ErrToBeImplemented, "NotImplemented"},
		ErrSentinel{impl.ErrWrongArity, "WrongArity"},
		ErrSentinel{system.ErrTypeMismatch, "TypeMismatch"},
	)
}

// EvalTwice compiles src once and evaluates the SAME compiled expression twice (eopts builds fresh options for
// each evaluation). The second outcome must equal the first when the compiled expression is immutable (C03/C04).
func EvalTwice(f *Forest, src string, res []fhir.Resource, copts []fhirpath.CompileOption, eopts func() []fhirpath.EvaluateOption) (Outcome, Outcome) {
	var out1, out2 Outcome
	rep := SafeRetry(func() {
		out1, out2 = nil, nil
		e, err := fhirpath.Compile(src, copts...)
		if err != nil {
			out1 = ErrOutcome("cerr", err)
			out2 = out1
			return
		}
		run := func() Outcome {
			c, err := e.Evaluate(res, eopts()...)
			if err != nil {
				return ErrOutcome("err", err)
			}
			return OkOutcome(f.ProjectCollection(c))
		}
		out1 = run()
		out2 = run()
	})
	if rep.Timeout {
		return TimeoutOutcome(), TimeoutOutcome()
	}
	if rep.Panic != "" {
		return PanicOutcome(rep), PanicOutcome(rep)
	}
	return out1, out2
}

// SameOutcome compares two projected outcomes structurally (through their JSON form).
func SameOutcome(a, b Outcome) bool {
	ja, _ := json.Marshal(a)
	jb, _ := json.Marshal(b)
	return string(ja) == string(jb)
}
