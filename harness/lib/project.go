package lib

import (
	"bytes"
	"encoding/json"
	"errors"
	"fmt"
	"strings"

	dtpb "github.com/google/fhir/go/proto/google/fhir/proto/r4/core/datatypes_go_proto"
	"github.com/verily-src/fhirpath-go/fhirpath/system"
	"google.golang.org/protobuf/proto"
	"google.golang.org/protobuf/reflect/protoreflect"
)

// Forest is the set of annotated input resources of one evaluation.
type Forest struct {
	Res []*Annotated
}

// NewForest annotates every resource.
func NewForest(rs ...proto.Message) (*Forest, error) {
	f := &Forest{}
	for _, r := range rs {
		a, err := Annotate(r)
		if err != nil {
			return nil, err
		}
		f.Res = append(f.Res, a)
	}
	return f, nil
}

func (f *Forest) lookup(m proto.Message) (int, PtrInfo, bool) {
	if f == nil {
		return 0, PtrInfo{}, false
	}
	for i, a := range f.Res {
		if pi, ok := a.Ptrs[m]; ok {
			return i + 1, pi, true
		}
	}
	return 0, PtrInfo{}, false
}

// detachedPrimValue renders a free-standing primitive through jsonformat by
// placing a clone in an Extension value and reading the JSON back. It never
// calls fhirpath-go. ok=false when the type is not an extension value type.
func detachedPrimValue(m proto.Message) (Item, bool) {
	d := m.ProtoReflect().Descriptor()
	ty, k := FHIRTypeOf(d)
	if q, ok := m.(*dtpb.Quantity); ok {
		// A FHIR Quantity stands for the System Quantity (value, code).
		if q.GetValue() == nil {
			return nil, false
		}
		dv, err := DecFromString(q.GetValue().GetValue())
		if err != nil {
			return Item{"t": "unk", "go": "quantity:" + q.GetValue().GetValue()}, true
		}
		return QtyItem(dv, q.GetCode().GetValue()), true
	}
	if k != "prim" {
		return nil, false
	}
	// Fast paths on the `value` scalar for types whose JSON form is the scalar.
	vf := d.Fields().ByName("value")
	if vf != nil {
		val := m.ProtoReflect().Get(vf)
		switch vf.Kind() {
		case protoreflect.StringKind:
			if ty != "decimal" {
				return StrItem(val.String()), true
			}
			if it, err := DecFromString(val.String()); err == nil {
				return it, true
			}
			return Item{"t": "unk", "go": "decimal:" + val.String()}, true
		case protoreflect.BoolKind:
			return BoolItem(val.Bool()), true
		case protoreflect.Int32Kind, protoreflect.Sint32Kind:
			return IntItem(val.Int()), true
		case protoreflect.Uint32Kind:
			return IntItem(int64(val.Uint())), true
		}
	}
	ext := &dtpb.Extension{Url: &dtpb.Uri{Value: "u"}, Value: &dtpb.Extension_ValueX{}}
	vx := ext.Value.ProtoReflect()
	od := vx.Descriptor().Oneofs().Get(0)
	var slot protoreflect.FieldDescriptor
	for i := 0; i < od.Fields().Len(); i++ {
		if fd := od.Fields().Get(i); fd.Message() != nil && fd.Message().FullName() == d.FullName() {
			slot = fd
			break
		}
	}
	if slot == nil {
		if ty == "code" {
			// value-set bound code: enum rendered by jsonformat only in context; report the enum name
			if vf != nil && vf.Kind() == protoreflect.EnumKind {
				ev := vf.Enum().Values().ByNumber(m.ProtoReflect().Get(vf).Enum())
				if ev != nil {
					return Item{"t": "enum", "name": string(ev.Name())}, true
				}
			}
		}
		return nil, false
	}
	vx.Set(slot, protoreflect.ValueOfMessage(proto.Clone(m).ProtoReflect()))
	js, err := r4Marshaller.MarshalElement(ext)
	if err != nil {
		return Item{"t": "unk", "go": "marshal:" + err.Error()}, true
	}
	dec := json.NewDecoder(bytes.NewReader(js))
	dec.UseNumber()
	var obj map[string]any
	if err := dec.Decode(&obj); err != nil {
		return nil, false
	}
	for k, v := range obj {
		if strings.HasPrefix(k, "value") {
			return primValue(ty, v), true
		}
	}
	return Item{"t": "none"}, true
}

// ProjectItem maps one result item to its abstract form.
//
//	System value      -> the abstract value
//	proto message     -> {t:"el", ft, pn, h [, r, addr, wrapped] [, v]}
//	untyped nil       -> {t:"nil"}
//	anything else     -> {t:"unk"}
func (f *Forest) ProjectItem(v any) Item {
	if v == nil {
		return Item{"t": "nil"}
	}
	if sv, ok := v.(system.Any); ok {
		return SystemItem(sv)
	}
	m, ok := v.(proto.Message)
	if !ok {
		return Item{"t": "unk", "go": fmt.Sprintf("%T", v)}
	}
	if !m.ProtoReflect().IsValid() {
		return Item{"t": "nil", "typed": fmt.Sprintf("%T", v)}
	}
	d := m.ProtoReflect().Descriptor()
	ty, k := FHIRTypeOf(d)
	it := Item{"t": "el", "ft": ty, "fk": k, "pn": ProtoName(d), "h": HashMsg(m), "wrapped": false, "r": 0, "addr": []int{}}
	if isChoice(d) {
		it["wrapped"] = true
	}
	it["xurl"] = ""
	if e, ok := m.(*dtpb.Extension); ok {
		it["xurl"] = Ascii(e.GetUrl().GetValue())
	}
	if r, pi, ok := f.lookup(m); ok {
		it["r"] = r
		it["addr"] = append([]int{}, pi.Node.Addr...)
		// the pointer is a wrapper around the node's element (a choice wrapper, a ContainedResource or the
		// Any holding a contained resource) rather than the element itself
		it["wrapped"] = pi.Wrapped
	}
	if r, pi, ok := f.lookup(m); ok && r > 0 && !pi.Wrapped && pi.Node.K == "prim" {
		it["v"] = pi.Node.V
	} else if pv, ok := detachedPrimValue(m); ok {
		it["v"] = pv
	} else {
		it["v"] = Item{"t": "none"}
	}
	return it
}

// ProjectCollection maps a result collection.
func (f *Forest) ProjectCollection(c system.Collection) []Item {
	out := make([]Item, 0, len(c))
	for _, v := range c {
		out = append(out, f.ProjectItem(v))
	}
	return out
}

// Outcome is the abstract outcome of one API call.
type Outcome map[string]any

// ErrClass maps an error to the coarse classes the properties talk about.
// known is a list of (sentinel, class) pairs tried with errors.Is.
type ErrSentinel struct {
	Err   error
	Class string
}

var sentinels []ErrSentinel

// RegisterSentinels installs the sentinel errors used to classify errors.
func RegisterSentinels(s ...ErrSentinel) { sentinels = append(sentinels, s...) }

// ErrClasses returns every class whose sentinel matches.
func ErrClasses(err error) []string {
	out := []string{}
	for _, s := range sentinels {
		if errors.Is(err, s.Err) {
			out = append(out, s.Class)
		}
	}
	return out
}

func trim(s string, n int) string {
	if len(s) > n {
		return s[:n]
	}
	return s
}

// OkOutcome / ErrOutcome build outcomes. Messages are ASCII-sanitised because
// TLC's JSON reader is only trusted with ASCII.
func OkOutcome(items []Item) Outcome { return Outcome{"k": "ok", "items": items} }

func ErrOutcome(kind string, err error) Outcome {
	return Outcome{"k": kind, "cls": ErrClasses(err), "msg": Ascii(trim(err.Error(), 200))}
}

// Ascii replaces non-ASCII and control characters.
func Ascii(s string) string {
	var b strings.Builder
	for _, r := range s {
		if r < 32 || r > 126 || r == '"' || r == '\\' {
			b.WriteByte('?')
		} else {
			b.WriteRune(r)
		}
	}
	return b.String()
}
