package lib

import (
	"bytes"
	"fmt"
	"reflect"
	"sort"

	"github.com/verily-src/fhirpath-go/fhirpath/system"
	"google.golang.org/protobuf/proto"
	"google.golang.org/protobuf/reflect/protoreflect"
)

// Snapshot records everything the caller owns before a call, so that the
// mutation report (property C03) can be computed afterwards:
//
//   - every input resource: deterministic serialisation, a clone for
//     proto.Equal, and the presence bits of every field of every message
//     (a has-bit materialised on a read path changes neither bytes nor
//     equality for some field kinds, but it does change Has);
//   - every environment collection: slice header (array pointer, len, cap) and
//     every cell of the backing array up to its CAPACITY (the cells behind len
//     hold sentinels), with proto cells also recorded by content.
type Snapshot struct {
	res   []proto.Message
	clone []proto.Message
	bytes [][]byte
	has   [][]string
	colls []collSnap
}

type collSnap struct {
	name       string
	coll       system.Collection
	ptr        uintptr
	len, cap   int
	cells      []any
	cellBytes  [][]byte
	cellIsNode []bool
}

func detBytes(m proto.Message) []byte {
	b, err := proto.MarshalOptions{Deterministic: true}.Marshal(m)
	if err != nil {
		return []byte("marshal-error:" + err.Error())
	}
	return b
}

// presence lists "path:field" for every populated field, recursively.
func presence(m protoreflect.Message, path string, out *[]string) {
	if !m.IsValid() {
		return
	}
	fields := m.Descriptor().Fields()
	for i := 0; i < fields.Len(); i++ {
		f := fields.Get(i)
		if !m.Has(f) {
			continue
		}
		p := path + "/" + string(f.Name())
		*out = append(*out, p)
		if f.Message() == nil || f.IsMap() {
			continue
		}
		if f.IsList() {
			l := m.Get(f).List()
			for j := 0; j < l.Len(); j++ {
				presence(l.Get(j).Message(), fmt.Sprintf("%s[%d]", p, j), out)
			}
			continue
		}
		presence(m.Get(f).Message(), p, out)
	}
}

func presenceOf(m proto.Message) []string {
	out := []string{}
	presence(m.ProtoReflect(), "", &out)
	sort.Strings(out)
	return out
}

// TakeSnapshot records the inputs. colls maps variable names to the
// collections passed as environment variables.
func TakeSnapshot(res []proto.Message, colls map[string]system.Collection) *Snapshot {
	s := &Snapshot{}
	for _, r := range res {
		s.res = append(s.res, r)
		s.clone = append(s.clone, proto.Clone(r))
		s.bytes = append(s.bytes, detBytes(r))
		s.has = append(s.has, presenceOf(r))
	}
	names := []string{}
	for n := range colls {
		names = append(names, n)
	}
	sort.Strings(names)
	for _, n := range names {
		c := colls[n]
		cs := collSnap{name: n, coll: c, len: len(c), cap: cap(c)}
		if cap(c) > 0 {
			cs.ptr = reflect.ValueOf(c).Pointer()
		}
		full := c[:cap(c)]
		for _, cell := range full {
			cs.cells = append(cs.cells, cell)
			if m, ok := cell.(proto.Message); ok && m != nil {
				cs.cellBytes = append(cs.cellBytes, detBytes(m))
				cs.cellIsNode = append(cs.cellIsNode, true)
			} else {
				cs.cellBytes = append(cs.cellBytes, nil)
				cs.cellIsNode = append(cs.cellIsNode, false)
			}
		}
		s.colls = append(s.colls, cs)
	}
	return s
}

func sameCell(a, b any) bool {
	ma, oka := a.(proto.Message)
	mb, okb := b.(proto.Message)
	if oka || okb {
		return oka && okb && ma == mb // the very same message
	}
	return reflect.DeepEqual(a, b)
}

// Report compares the present state with the snapshot. Every flag is true
// when something CHANGED.
func (s *Snapshot) Report() map[string]any {
	rep := map[string]any{"res_bytes": false, "res_equal": false, "res_presence": false,
		"env_header": false, "env_cells": false, "env_spare": false, "env_content": false, "reeval_differs": false, "detail": ""}
	detail := ""
	for i, r := range s.res {
		if !bytes.Equal(detBytes(r), s.bytes[i]) {
			rep["res_bytes"] = true
			detail += fmt.Sprintf("resource %d bytes;", i+1)
		}
		if !proto.Equal(r, s.clone[i]) {
			rep["res_equal"] = true
		}
		now := presenceOf(r)
		if !reflect.DeepEqual(now, s.has[i]) {
			rep["res_presence"] = true
			detail += fmt.Sprintf("resource %d presence (%d -> %d fields);", i+1, len(s.has[i]), len(now))
		}
	}
	for _, cs := range s.colls {
		c := cs.coll
		if len(c) != cs.len || cap(c) != cs.cap || (cap(c) > 0 && reflect.ValueOf(c).Pointer() != cs.ptr) {
			rep["env_header"] = true
		}
		full := c[:cap(c)]
		for j := range cs.cells {
			if j >= len(full) {
				break
			}
			if !sameCell(full[j], cs.cells[j]) {
				if j < cs.len {
					rep["env_cells"] = true
					detail += fmt.Sprintf("%%%s[%d] replaced;", cs.name, j)
				} else {
					rep["env_spare"] = true
					detail += fmt.Sprintf("%%%s spare cell %d overwritten;", cs.name, j)
				}
			}
			if cs.cellIsNode[j] {
				if m, ok := full[j].(proto.Message); ok && !bytes.Equal(detBytes(m), cs.cellBytes[j]) {
					rep["env_content"] = true
					detail += fmt.Sprintf("%%%s[%d] content;", cs.name, j)
				}
			}
		}
	}
	rep["detail"] = Ascii(trim(detail, 200))
	return rep
}
