// Package lib holds the shared parts of the conformance harness: the abstract
// item encoding exchanged with the TLA+ specification, the projection from Go
// values to abstract items, the annotated FHIR JSON tree of a resource, safe
// execution of the public API and NDJSON I/O.
//
// Nothing in this package decides whether an observation is right; that is the
// TLA+ judge's job. This package only builds inputs, runs the real code and
// describes what came back.
package lib

import (
	"crypto/sha256"
	"encoding/hex"
	"fmt"
	"math/big"
	"strconv"
	"strings"
	"unicode/utf8"

	"github.com/shopspring/decimal"
	"github.com/verily-src/fhirpath-go/fhirpath/system"
	"google.golang.org/protobuf/proto"
)

// Item is the JSON form of one abstract item (DESIGN.md section 3.1). Every
// item carries "t"; the other keys depend on t and never share a name across
// kinds with different value types (TLC refuses to compare a string with an
// integer).
type Item map[string]any

// CodePoints renders a Go string as the sequence of its code points. Invalid
// UTF-8 is reported through ok=false; each invalid byte becomes -1-byte so the
// judge sees a value no reference string can contain.
func CodePoints(s string) (cps []int, ok bool) {
	ok = true
	cps = []int{}
	for i := 0; i < len(s); {
		r, n := utf8.DecodeRuneInString(s[i:])
		if r == utf8.RuneError && n <= 1 {
			ok = false
			cps = append(cps, -1-int(s[i]))
			i++
			continue
		}
		cps = append(cps, int(r))
		i += n
	}
	return cps, ok
}

// FromCodePoints is the inverse of CodePoints for valid sequences.
func FromCodePoints(cps []int) string {
	var b strings.Builder
	for _, c := range cps {
		b.WriteRune(rune(c))
	}
	return b.String()
}

// StrItem is the abstract String.
func StrItem(s string) Item {
	cps, ok := CodePoints(s)
	it := Item{"t": "s", "cp": cps}
	if !ok {
		it["badutf8"] = true
	}
	return it
}

// BoolItem is the abstract Boolean.
func BoolItem(b bool) Item { return Item{"t": "b", "b": b} }

// IntItem is the abstract Integer.
func IntItem(i int64) Item { return Item{"t": "i", "i": i} }

const limbBase = 10000

// Limbs returns the base-10^4 little-endian limbs of |x| (empty for zero).
func Limbs(x *big.Int) []int {
	x = new(big.Int).Abs(x)
	out := []int{}
	base := big.NewInt(limbBase)
	r := new(big.Int)
	for x.Sign() != 0 {
		x.QuoRem(x, base, r)
		out = append(out, int(r.Int64()))
	}
	return out
}

// DecFromBig is the abstract Decimal coef * 10^exp, normalised so that the
// coefficient has no trailing decimal zeros (so equal numbers have one form)
// and zero is (+, <<>>, 0).
func DecFromBig(coef *big.Int, exp int) Item {
	c := new(big.Int).Set(coef)
	neg := c.Sign() < 0
	c.Abs(c)
	if c.Sign() == 0 {
		return Item{"t": "d", "neg": false, "m": []int{}, "e": 0}
	}
	ten := big.NewInt(10)
	q, r := new(big.Int), new(big.Int)
	for {
		q.QuoRem(c, ten, r)
		if r.Sign() != 0 {
			break
		}
		c.Set(q)
		exp++
	}
	return Item{"t": "d", "neg": neg, "m": Limbs(c), "e": exp}
}

// DecItem is the abstract Decimal of a shopspring value (exact).
func DecItem(d decimal.Decimal) Item {
	return DecFromBig(d.Coefficient(), int(d.Exponent()))
}

// DecFromString parses a plain decimal text ([+-]digits[.digits][e[+-]digits]).
func DecFromString(s string) (Item, error) {
	d, err := decimal.NewFromString(s)
	if err != nil {
		return nil, err
	}
	return DecItem(d), nil
}

// QtyItem is the abstract Quantity.
func QtyItem(val Item, unit string) Item {
	cps, _ := CodePoints(unit)
	return Item{"t": "q", "val": val, "unit": cps}
}

// Temporal precisions, shared by Date, DateTime and Time:
// 1 year, 2 month, 3 day, 4 hour, 5 minute, 6 second, 7 millisecond.

// ParseTemporal parses the lexical forms produced by system.Date/DateTime/Time
// String() and by the FHIR JSON renderer:
//
//	Date      YYYY | YYYY-MM | YYYY-MM-DD
//	DateTime  date [ "T" [ hh [ :mm [ :ss [ .fff ] ] ] ] [ Z | (+|-)hh:mm ] ]
//	Time      hh [ :mm [ :ss [ .fff ] ] ]
//
// kind is "date", "dt" or "time". The fraction is kept as milliseconds plus the
// number of fraction digits seen ("fd"), so that a renderer dropping or
// inventing digits is visible.
func ParseTemporal(kind, s string) (Item, error) {
	it := Item{"t": kind}
	bad := func() (Item, error) { return nil, fmt.Errorf("bad %s text %q", kind, s) }
	num := func(x string, n int) (int, bool) {
		if len(x) != n {
			return 0, false
		}
		for _, c := range x {
			if c < '0' || c > '9' {
				return 0, false
			}
		}
		v, _ := strconv.Atoi(x)
		return v, true
	}
	parseTime := func(t string, it Item) (int, bool) {
		// returns precision 4..7
		p := 0
		it["h"], it["mi"], it["sec"], it["ms"], it["fd"] = 0, 0, 0, 0, 0
		if len(t) < 2 {
			return 0, false
		}
		h, ok := num(t[:2], 2)
		if !ok {
			return 0, false
		}
		it["h"] = h
		p = 4
		t = t[2:]
		if t == "" {
			return p, true
		}
		if t[0] != ':' || len(t) < 3 {
			return 0, false
		}
		mi, ok := num(t[1:3], 2)
		if !ok {
			return 0, false
		}
		it["mi"] = mi
		p = 5
		t = t[3:]
		if t == "" {
			return p, true
		}
		if t[0] != ':' || len(t) < 3 {
			return 0, false
		}
		sec, ok := num(t[1:3], 2)
		if !ok {
			return 0, false
		}
		it["sec"] = sec
		p = 6
		t = t[3:]
		if t == "" {
			return p, true
		}
		if t[0] != '.' || len(t) < 2 {
			return 0, false
		}
		frac := t[1:]
		for _, c := range frac {
			if c < '0' || c > '9' {
				return 0, false
			}
		}
		it["fd"] = len(frac)
		f3 := (frac + "000")[:3]
		ms, _ := strconv.Atoi(f3)
		it["ms"] = ms
		// digits beyond the third are reported separately (micros)
		if len(frac) > 3 {
			rest := (frac[3:] + "000")[:3]
			us, _ := strconv.Atoi(rest)
			it["us"] = us
		}
		return 7, true
	}
	switch kind {
	case "time":
		p, ok := parseTime(s, it)
		if !ok {
			return bad()
		}
		it["p"] = p
		return it, nil
	case "date", "dt":
		it["y"], it["mo"], it["d"] = 0, 1, 1
		rest := s
		if len(rest) < 4 {
			return bad()
		}
		y, ok := num(rest[:4], 4)
		if !ok {
			return bad()
		}
		it["y"] = y
		p := 1
		rest = rest[4:]
		if strings.HasPrefix(rest, "-") && len(rest) >= 3 {
			mo, ok := num(rest[1:3], 2)
			if !ok {
				return bad()
			}
			it["mo"] = mo
			p = 2
			rest = rest[3:]
			if strings.HasPrefix(rest, "-") && len(rest) >= 3 {
				d, ok := num(rest[1:3], 2)
				if !ok {
					return bad()
				}
				it["d"] = d
				p = 3
				rest = rest[3:]
			}
		}
		if kind == "date" {
			if rest != "" {
				return bad()
			}
			it["p"] = p
			return it, nil
		}
		it["h"], it["mi"], it["sec"], it["ms"], it["fd"] = 0, 0, 0, 0, 0
		it["tz"] = false
		it["off"] = 0
		if rest == "" {
			it["p"] = p
			return it, nil
		}
		if rest[0] != 'T' {
			return bad()
		}
		rest = rest[1:]
		// split off the zone designator
		tz := ""
		if strings.HasSuffix(rest, "Z") {
			tz = "Z"
			rest = rest[:len(rest)-1]
		} else if len(rest) >= 6 && (rest[len(rest)-6] == '+' || rest[len(rest)-6] == '-') && rest[len(rest)-3] == ':' {
			tz = rest[len(rest)-6:]
			rest = rest[:len(rest)-6]
		}
		if rest != "" {
			if p != 3 {
				return bad()
			}
			tp, ok := parseTime(rest, it)
			if !ok {
				return bad()
			}
			p = tp
		}
		if tz != "" {
			it["tz"] = true
			if tz != "Z" {
				hh, ok1 := num(tz[1:3], 2)
				mm, ok2 := num(tz[4:6], 2)
				if !ok1 || !ok2 {
					return bad()
				}
				off := hh*60 + mm
				if tz[0] == '-' {
					off = -off
				}
				it["off"] = off
			}
		}
		it["p"] = p
		return it, nil
	}
	return bad()
}

// SystemItem projects a System value through its exported surface only
// (typed conversion for the scalar types, String() for the temporal types and
// Quantity whose fields are unexported).
func SystemItem(v system.Any) Item {
	switch x := v.(type) {
	case system.Boolean:
		return BoolItem(bool(x))
	case system.Integer:
		return IntItem(int64(x))
	case system.String:
		return StrItem(string(x))
	case system.Decimal:
		return DecItem(decimal.Decimal(x))
	case system.Date:
		it, err := ParseTemporal("date", x.String())
		if err != nil {
			return Item{"t": "unk", "go": fmt.Sprintf("Date(%q)", x.String())}
		}
		return it
	case system.DateTime:
		it, err := ParseTemporal("dt", x.String())
		if err != nil {
			return Item{"t": "unk", "go": fmt.Sprintf("DateTime(%q)", x.String())}
		}
		return it
	case system.Time:
		it, err := ParseTemporal("time", x.String())
		if err != nil {
			return Item{"t": "unk", "go": fmt.Sprintf("Time(%q)", x.String())}
		}
		return it
	case system.Quantity:
		s := x.String()
		num, unit := s, ""
		if i := strings.IndexByte(s, ' '); i >= 0 {
			num, unit = s[:i], s[i+1:]
		}
		d, err := DecFromString(num)
		if err != nil {
			return Item{"t": "unk", "go": fmt.Sprintf("Quantity(%q)", s)}
		}
		return QtyItem(d, unit)
	}
	return Item{"t": "unk", "go": fmt.Sprintf("%T", v)}
}

// HashMsg is a short content hash of a proto message (deterministic
// serialisation), used to compare elements that have no address in the input.
func HashMsg(m proto.Message) string {
	b, err := proto.MarshalOptions{Deterministic: true}.Marshal(m)
	if err != nil {
		return "marshal-error"
	}
	h := sha256.Sum256(append([]byte(string(m.ProtoReflect().Descriptor().FullName())+"|"), b...))
	return hex.EncodeToString(h[:8])
}
