package lib

import (
	"bytes"
	"encoding/json"
	"fmt"
	"strings"
	"unicode"

	"github.com/google/fhir/go/fhirversion"
	"github.com/google/fhir/go/jsonformat"
	apb "github.com/google/fhir/go/proto/google/fhir/proto/annotations_go_proto"
	dtpb "github.com/google/fhir/go/proto/google/fhir/proto/r4/core/datatypes_go_proto"
	bcrpb "github.com/google/fhir/go/proto/google/fhir/proto/r4/core/resources/bundle_and_contained_resource_go_proto"
	"google.golang.org/protobuf/proto"
	"google.golang.org/protobuf/reflect/protoreflect"
	"google.golang.org/protobuf/types/known/anypb"
)

// Node is one element of the annotated FHIR JSON tree of a resource: the tree
// jsonformat renders, with each node labelled by its FHIRPath name (choice
// suffix stripped), JSON name, FHIR type, kind and - for primitives - its
// abstract value. Repeated elements appear as consecutive children with the
// same name, in list order. The address of a node is the sequence of child
// positions (1-based, as TLA+ sequences are) from the resource root.
type Node struct {
	N    string  `json:"n"`  // FHIRPath name
	JN   string  `json:"jn"` // JSON name (choice: base + type suffix)
	Ty   string  `json:"ty"` // FHIR type name
	K    string  `json:"k"`  // prim | complex | backbone | resource
	Pn   string  `json:"pn"` // proto message name (dotted, package stripped)
	Li   bool    `json:"li"` // element of a repeated field
	Ch   bool    `json:"cx"` // reached through a choice wrapper
	V    Item    `json:"v"`  // abstract value (t="none" when not a primitive or valueless)
	H    string  `json:"h"`  // content hash of the proto message
	Kids []*Node `json:"ch"`

	Addr []int         `json:"-"`
	Ptr  proto.Message `json:"-"` // the message this node stands for (nil inside Any)
	Wrap proto.Message `json:"-"` // the choice / ContainedResource wrapper, if any
}

// PtrInfo says which node a proto message pointer denotes.
type PtrInfo struct {
	Node    *Node
	Wrapped bool // the pointer is the wrapper around the node's message
}

// Annotated is an annotated resource.
type Annotated struct {
	Root *Node
	Ptrs map[proto.Message]PtrInfo
	JSON []byte // the jsonformat rendering it was built from
}

var r4Marshaller *jsonformat.Marshaller
var r4Unmarshaller *jsonformat.Unmarshaller

func init() {
	var err error
	r4Marshaller, err = jsonformat.NewMarshaller(false, "", "", fhirversion.R4)
	if err != nil {
		panic(err)
	}
	r4Unmarshaller, err = jsonformat.NewUnmarshallerWithoutValidation("UTC", fhirversion.R4)
	if err != nil {
		panic(err)
	}
}

// ParseResource reads FHIR JSON (no validation) and returns the resource
// message (not the ContainedResource wrapper).
func ParseResource(js []byte) (proto.Message, error) {
	cr, err := r4Unmarshaller.Unmarshal(js)
	if err != nil {
		return nil, err
	}
	return UnwrapContained(cr.(*bcrpb.ContainedResource)), nil
}

// UnwrapContained returns the resource inside a ContainedResource (by
// reflection on the oneof; independent of the repository's helper).
func UnwrapContained(cr *bcrpb.ContainedResource) proto.Message {
	r := cr.ProtoReflect()
	od := r.Descriptor().Oneofs().Get(0)
	fd := r.WhichOneof(od)
	if fd == nil {
		return nil
	}
	return r.Get(fd).Message().Interface()
}

// MarshalResource renders a resource with jsonformat. The resource is cloned
// first because the marshaller rewrites typed references in place.
func MarshalResource(res proto.Message) ([]byte, error) {
	return r4Marshaller.MarshalResource(proto.Clone(res))
}

func kindOf(d protoreflect.MessageDescriptor) apb.StructureDefinitionKindValue {
	return proto.GetExtension(d.Options(), apb.E_StructureDefinitionKind).(apb.StructureDefinitionKindValue)
}

func isChoice(d protoreflect.MessageDescriptor) bool {
	return proto.HasExtension(d.Options(), apb.E_IsChoiceType) && proto.GetExtension(d.Options(), apb.E_IsChoiceType).(bool)
}

// IsPrimitiveDesc reports whether a message type is a FHIR primitive.
func IsPrimitiveDesc(d protoreflect.MessageDescriptor) bool {
	return kindOf(d) == apb.StructureDefinitionKindValue_KIND_PRIMITIVE_TYPE
}

func lowerFirst(s string) string {
	if s == "" {
		return s
	}
	r := []rune(s)
	r[0] = unicode.ToLower(r[0])
	return string(r)
}

func upperFirst(s string) string {
	if s == "" {
		return s
	}
	r := []rune(s)
	r[0] = unicode.ToUpper(r[0])
	return string(r)
}

// ProtoName is the message name without the package (Patient.Contact).
func ProtoName(d protoreflect.MessageDescriptor) string {
	full := string(d.FullName())
	pkg := string(d.ParentFile().Package())
	return strings.TrimPrefix(full, pkg+".")
}

// FHIRTypeOf gives the FHIR type name and kind of a message type, read from
// the google/fhir descriptor annotations only.
func FHIRTypeOf(d protoreflect.MessageDescriptor) (ty, kind string) {
	switch kindOf(d) {
	case apb.StructureDefinitionKindValue_KIND_PRIMITIVE_TYPE:
		if proto.HasExtension(d.Options(), apb.E_FhirValuesetUrl) {
			return "code", "prim"
		}
		return lowerFirst(string(d.Name())), "prim"
	case apb.StructureDefinitionKindValue_KIND_RESOURCE:
		return string(d.Name()), "resource"
	case apb.StructureDefinitionKindValue_KIND_COMPLEX_TYPE:
		if _, nested := d.Parent().(protoreflect.MessageDescriptor); !nested {
			return string(d.Name()), "complex"
		}
	}
	// nested component: BackboneElement under a resource, Element under a datatype
	top := d
	for {
		p, ok := top.Parent().(protoreflect.MessageDescriptor)
		if !ok {
			break
		}
		top = p
	}
	if kindOf(top) == apb.StructureDefinitionKindValue_KIND_RESOURCE {
		return "BackboneElement", "backbone"
	}
	return "Element", "backbone"
}

// primValue builds the abstract value of a primitive from its JSON rendering.
func primValue(ty string, jv any) Item {
	none := Item{"t": "none"}
	if jv == nil {
		return none
	}
	switch ty {
	case "boolean":
		if b, ok := jv.(bool); ok {
			return BoolItem(b)
		}
	case "integer", "positiveInt", "unsignedInt":
		if n, ok := jv.(json.Number); ok {
			if i, err := n.Int64(); err == nil {
				return IntItem(i)
			}
		}
	case "decimal":
		if n, ok := jv.(json.Number); ok {
			if d, err := DecFromString(n.String()); err == nil {
				return d
			}
		}
	case "date":
		if s, ok := jv.(string); ok {
			if it, err := ParseTemporal("date", s); err == nil {
				return it
			}
		}
	case "dateTime", "instant":
		if s, ok := jv.(string); ok {
			if it, err := ParseTemporal("dt", s); err == nil {
				return it
			}
		}
	case "time":
		if s, ok := jv.(string); ok {
			if it, err := ParseTemporal("time", s); err == nil {
				return it
			}
		}
	default:
		if s, ok := jv.(string); ok {
			return StrItem(s)
		}
	}
	return Item{"t": "unk", "go": fmt.Sprintf("%s:%v", ty, jv)}
}

type annotator struct {
	ptrs map[proto.Message]PtrInfo
	errs []string
}

func (a *annotator) errf(f string, args ...any) { a.errs = append(a.errs, fmt.Sprintf(f, args...)) }

func (a *annotator) setPtr(n *Node, m proto.Message, wrapped bool, track bool) {
	if !track || m == nil {
		return
	}
	if wrapped {
		n.Wrap = m
	} else {
		n.Ptr = m
	}
	a.ptrs[m] = PtrInfo{Node: n, Wrapped: wrapped}
}

func jsonIndex(v any, idx int) any {
	if idx < 0 {
		return v
	}
	arr, ok := v.([]any)
	if !ok || idx >= len(arr) {
		return nil
	}
	return arr[idx]
}

// walkFields adds one child per populated element of pb to parent.
func (a *annotator) walkFields(pb protoreflect.Message, obj map[string]any, parent *Node, track bool) {
	fields := pb.Descriptor().Fields()
	for i := 0; i < fields.Len(); i++ {
		f := fields.Get(i)
		if !pb.Has(f) || f.Message() == nil {
			continue
		}
		if f.IsList() {
			l := pb.Get(f).List()
			for j := 0; j < l.Len(); j++ {
				a.fieldValue(f, l.Get(j).Message(), obj, j, parent, track)
			}
			continue
		}
		a.fieldValue(f, pb.Get(f).Message(), obj, -1, parent, track)
	}
}

func camelToSnake(s string) string {
	var b strings.Builder
	for i, r := range s {
		if unicode.IsUpper(r) {
			if i > 0 {
				b.WriteByte('_')
			}
			b.WriteRune(unicode.ToLower(r))
		} else {
			b.WriteRune(r)
		}
	}
	return b.String()
}

func snakeToLowerCamel(s string) string {
	parts := strings.Split(s, "_")
	for i := 1; i < len(parts); i++ {
		parts[i] = upperFirst(parts[i])
	}
	return strings.Join(parts, "")
}

func (a *annotator) addChild(parent, n *Node) {
	parent.Kids = append(parent.Kids, n)
	n.Addr = append(append([]int{}, parent.Addr...), len(parent.Kids))
}

func (a *annotator) fieldValue(f protoreflect.FieldDescriptor, msg protoreflect.Message, obj map[string]any, idx int, parent *Node, track bool) {
	name := f.JSONName()
	jsonName := name
	var wrapper proto.Message
	viaChoice := false
	d := msg.Descriptor()
	if isChoice(d) {
		od := d.Oneofs().Get(0)
		fd := msg.WhichOneof(od)
		if fd == nil {
			return // an empty choice wrapper renders nothing
		}
		wrapper = msg.Interface()
		viaChoice = true
		jsonName = snakeToLowerCamel(string(f.Name()) + "_" + camelToSnake(fd.JSONName()))
		msg = msg.Get(fd).Message()
		d = msg.Descriptor()
	}
	jv := jsonIndex(obj[jsonName], idx)
	jext := jsonIndex(obj["_"+jsonName], idx)
	if jv == nil && jext == nil {
		// jsonformat dropped it (e.g. an empty message): no node.
		if _, present := obj[jsonName]; !present {
			if _, presentExt := obj["_"+jsonName]; !presentExt {
				return
			}
		}
	}
	n := &Node{N: name, JN: jsonName, Li: idx >= 0, Ch: viaChoice, V: Item{"t": "none"}, Kids: []*Node{}}
	a.addChild(parent, n)
	if wrapper != nil {
		a.setPtr(n, wrapper, true, track)
	}
	a.fill(n, msg, jv, jext, track)
}

// fill completes node n for message msg whose JSON value is jv (and primitive
// extension object jext).
func (a *annotator) fill(n *Node, msg protoreflect.Message, jv, jext any, track bool) {
	d := msg.Descriptor()
	// ContainedResource: look through to the resource.
	if d.Name() == "ContainedResource" {
		od := d.Oneofs().Get(0)
		fd := msg.WhichOneof(od)
		if fd == nil {
			n.Ty, n.K, n.Pn, n.H = "Resource", "resource", "ContainedResource", HashMsg(msg.Interface())
			return
		}
		a.setPtr(n, msg.Interface(), true, track)
		msg = msg.Get(fd).Message()
		d = msg.Descriptor()
	}
	if anyMsg, ok := msg.Interface().(*anypb.Any); ok {
		cr := &bcrpb.ContainedResource{}
		if err := anyMsg.UnmarshalTo(cr); err != nil {
			a.errf("contained Any: %v", err)
			return
		}
		// Fresh messages: no stable pointers below this node.
		a.setPtr(n, anyMsg, true, track)
		inner := UnwrapContained(cr)
		if inner == nil {
			n.Ty, n.K, n.Pn, n.H = "Resource", "resource", "ContainedResource", HashMsg(cr)
			return
		}
		msg = inner.ProtoReflect()
		d = msg.Descriptor()
		track = false
	}
	n.Ty, n.K = FHIRTypeOf(d)
	n.Pn = ProtoName(d)
	n.H = HashMsg(msg.Interface())
	a.setPtr(n, msg.Interface(), false, track)
	if n.K == "prim" {
		n.V = primValue(n.Ty, jv)
		if ext, ok := jext.(map[string]any); ok {
			a.primChildren(n, msg, ext, track)
		}
		return
	}
	obj, ok := jv.(map[string]any)
	if !ok {
		a.errf("%s: complex element without JSON object (%T)", n.JN, jv)
		return
	}
	if ref, ok := msg.Interface().(*dtpb.Reference); ok {
		a.reference(n, ref, obj, track)
		return
	}
	a.walkFields(msg, obj, n, track)
}

func (a *annotator) primChildren(n *Node, msg protoreflect.Message, ext map[string]any, track bool) {
	fields := msg.Descriptor().Fields()
	if idf := fields.ByName("id"); idf != nil && msg.Has(idf) {
		if _, ok := ext["id"]; ok {
			a.fieldValue(idf, msg.Get(idf).Message(), ext, -1, n, track)
		}
	}
	if ef := fields.ByName("extension"); ef != nil {
		l := msg.Get(ef).List()
		j := 0
		for i := 0; i < l.Len(); i++ {
			em := l.Get(i).Message()
			if isNoValueExtension(em) {
				continue
			}
			a.fieldValue(ef, em, ext, j, n, track)
			j++
		}
	}
}

func isNoValueExtension(em protoreflect.Message) bool {
	e, ok := em.Interface().(*dtpb.Extension)
	return ok && e.GetUrl().GetValue() == "https://g.co/fhir/StructureDefinition/primitiveHasNoValue"
}

// reference renders a Reference: the `reference` oneof becomes one string
// child whose value is what jsonformat rendered; every other field is walked
// normally.
func (a *annotator) reference(n *Node, ref *dtpb.Reference, obj map[string]any, track bool) {
	msg := ref.ProtoReflect()
	fields := msg.Descriptor().Fields()
	od := msg.Descriptor().Oneofs().ByName("reference")
	refDone := false
	for i := 0; i < fields.Len(); i++ {
		f := fields.Get(i)
		if !msg.Has(f) || f.Message() == nil {
			continue
		}
		if f.ContainingOneof() == od && od != nil {
			if refDone {
				continue
			}
			refDone = true
			jv, ok := obj["reference"]
			if !ok {
				continue
			}
			c := &Node{N: "reference", JN: "reference", Ty: "string", K: "prim", Pn: "String", V: primValue("string", jv), Kids: []*Node{}}
			a.addChild(n, c)
			if u := ref.GetUri(); u != nil {
				c.H = HashMsg(u)
				a.setPtr(c, u, false, track)
				if ext, ok := obj["_reference"].(map[string]any); ok {
					a.primChildren(c, u.ProtoReflect(), ext, track)
				}
			} else {
				s, _ := jv.(string)
				c.H = HashMsg(&dtpb.String{Value: s})
			}
			continue
		}
		if f.IsList() {
			l := msg.Get(f).List()
			for j := 0; j < l.Len(); j++ {
				a.fieldValue(f, l.Get(j).Message(), obj, j, n, track)
			}
			continue
		}
		a.fieldValue(f, msg.Get(f).Message(), obj, -1, n, track)
	}
}

// Annotate builds the annotated tree of a resource by walking the proto and
// the jsonformat rendering of (a clone of) it in parallel.
func Annotate(res proto.Message) (*Annotated, error) {
	js, err := MarshalResource(res)
	if err != nil {
		return nil, fmt.Errorf("jsonformat: %w", err)
	}
	dec := json.NewDecoder(bytes.NewReader(js))
	dec.UseNumber()
	var obj map[string]any
	if err := dec.Decode(&obj); err != nil {
		return nil, err
	}
	a := &annotator{ptrs: map[proto.Message]PtrInfo{}}
	d := res.ProtoReflect().Descriptor()
	ty, k := FHIRTypeOf(d)
	root := &Node{N: ty, JN: ty, Ty: ty, K: k, Pn: ProtoName(d), V: Item{"t": "none"}, H: HashMsg(res), Kids: []*Node{}, Addr: []int{}}
	a.setPtr(root, res, false, true)
	a.walkFields(res.ProtoReflect(), obj, root, true)
	if len(a.errs) > 0 {
		return nil, fmt.Errorf("annotate: %s", strings.Join(a.errs, "; "))
	}
	if err := checkCoverage(root, obj); err != nil {
		return nil, err
	}
	return &Annotated{Root: root, Ptrs: a.ptrs, JSON: js}, nil
}

// checkCoverage is the projection self-check: every JSON member (other than
// resourceType) of every object must be represented by tree nodes, with list
// lengths matching. A failure is a harness defect, never a violation.
func checkCoverage(n *Node, obj map[string]any) error {
	count := map[string]int{}
	for _, c := range n.Kids {
		count[c.JN]++
	}
	for key, v := range obj {
		if key == "resourceType" {
			continue
		}
		base := strings.TrimPrefix(key, "_")
		want := 1
		if arr, ok := v.([]any); ok {
			want = len(arr)
		}
		if count[base] == 0 {
			return fmt.Errorf("annotate self-check: JSON member %q of %s has no node", key, n.JN)
		}
		if !strings.HasPrefix(key, "_") && count[base] != want {
			return fmt.Errorf("annotate self-check: JSON member %q of %s has %d values, tree has %d", key, n.JN, want, count[base])
		}
	}
	// recurse into complex children
	seen := map[string]int{}
	for _, c := range n.Kids {
		i := seen[c.JN]
		seen[c.JN]++
		if c.K == "prim" {
			continue
		}
		v := obj[c.JN]
		if c.Li {
			v = jsonIndex(v, i)
		}
		co, ok := v.(map[string]any)
		if !ok {
			continue
		}
		if err := checkCoverage(c, co); err != nil {
			return err
		}
	}
	return nil
}

// NodeAt follows an address.
func (a *Annotated) NodeAt(addr []int) *Node {
	n := a.Root
	for _, i := range addr {
		if i < 1 || i > len(n.Kids) {
			return nil
		}
		n = n.Kids[i-1]
	}
	return n
}
