package lib

import (
	"encoding/json"
	"fmt"
	"strings"

	"github.com/verily-src/fhirpath-go/fhirpath/system"
	"google.golang.org/protobuf/proto"
	"google.golang.org/protobuf/reflect/protoreflect"
)

// Lexical describes a value by kind and lexical text, the way pools written
// by the specification's generators do:
//
//	kind in boolean integer decimal string date dateTime time quantity
//	text = lexical form without FHIRPath decoration (no @, no quotes)
//	unit = quantity unit
type Lexical struct {
	Kind string `json:"kind"`
	Text string `json:"text"`
	Unit string `json:"unit"`
}

// SystemValue builds the System value through the library's public
// constructors.
func SystemValue(l Lexical) (system.Any, error) {
	switch l.Kind {
	case "boolean":
		return system.Boolean(l.Text == "true"), nil
	case "integer":
		return system.ParseInteger(l.Text)
	case "decimal":
		return system.ParseDecimal(l.Text)
	case "string":
		return system.String(l.Text), nil
	case "date":
		return system.ParseDate(l.Text)
	case "dateTime":
		return system.ParseDateTime(l.Text)
	case "time":
		return system.ParseTime(l.Text)
	case "quantity":
		return system.ParseQuantity(l.Text, l.Unit)
	}
	return nil, fmt.Errorf("unknown lexical kind %q", l.Kind)
}

// FHIRElement builds a free-standing FHIR primitive (or Quantity) element of
// FHIR type fhirType from its JSON lexical form, using google/fhir's JSON
// parser only: the value is placed in an extension of a Patient and read back.
// It returns an error when jsonformat cannot represent the value in that type.
func FHIRElement(fhirType string, l Lexical) (proto.Message, error) {
	var val string
	switch l.Kind {
	case "boolean", "integer", "decimal":
		val = l.Text
	case "quantity":
		u, _ := json.Marshal(l.Unit)
		val = fmt.Sprintf(`{"value": %s, "unit": %s, "code": %s}`, l.Text, u, u)
	default:
		b, _ := json.Marshal(l.Text)
		val = string(b)
	}
	name := "value" + strings.ToUpper(fhirType[:1]) + fhirType[1:]
	js := fmt.Sprintf(`{"resourceType":"Patient","extension":[{"url":"http://u","%s":%s}]}`, name, val)
	res, err := ParseResource([]byte(js))
	if err != nil {
		return nil, err
	}
	return FirstExtensionValue(res)
}

// FirstExtensionValue returns the chosen value of the resource's first extension.
func FirstExtensionValue(res proto.Message) (proto.Message, error) {
	r := res.ProtoReflect()
	ef := r.Descriptor().Fields().ByName("extension")
	if ef == nil || r.Get(ef).List().Len() == 0 {
		return nil, fmt.Errorf("no extension")
	}
	ext := r.Get(ef).List().Get(0).Message()
	vf := ext.Descriptor().Fields().ByName("value")
	if vf == nil || !ext.Has(vf) {
		return nil, fmt.Errorf("extension without value")
	}
	vx := ext.Get(vf).Message()
	od := vx.Descriptor().Oneofs().Get(0)
	fd := vx.WhichOneof(od)
	if fd == nil {
		return nil, fmt.Errorf("extension value not set")
	}
	return vx.Get(fd).Message().Interface(), nil
}

// Child returns the i-th (0-based) element of the repeated (or the single)
// message field with the given proto name.
func Child(m proto.Message, field string, i int) proto.Message {
	r := m.ProtoReflect()
	fd := r.Descriptor().Fields().ByName(protoreflect.Name(field))
	if fd == nil {
		Fatal("no field %s on %T", field, m)
	}
	if fd.IsList() {
		l := r.Get(fd).List()
		if i >= l.Len() {
			Fatal("field %s of %T has %d elements, want index %d", field, m, l.Len(), i)
		}
		return l.Get(i).Message().Interface()
	}
	return r.Get(fd).Message().Interface()
}
