"""Programs of the whole abstract machine (spec/FPMachine*.tla), shared by the checks of the properties whose
semantics the machine composes (C02 C05 C06 C07 C08 C10 C12 C13 C14).

TLC grows tagged programs (FPMachine_Sim), the harness command `machine` evaluates every expression of every chain with
the real interpreter, TLC judges each observation against FPEval!Eval of the same tree (FPMachine_Judge).  A rejected
program is charged to the property of its last growth step, and only when the expression it was grown from was
accepted: the first step at which implementation and machine part company.  Each check reports the programs
charged to its own property; the others are that property's business (its check draws its own lanes)."""
import os
from lib import driver as D

PARAMS = {"ModelFile": os.path.join(D.SPEC, "gen", "ModelResources.json"),
          "ModelSchemaFile": os.path.join(D.SPEC, "gen", "ModelResourcesSchema.json")}
SIZES = {"quick": (600, 4), "thorough": (4000, 5)}
# Deliberately wrong variants of the reference modules: judged against the very same observations, each must reject at
# least one program charged to the property - otherwise the programs drawn do not exercise that piece of semantics.
MUTANTS = {
    "C02": ["firstChildOnly", "noFlatten"],
    "C05": ["intDecimalNoPromote"],
    "C06": ["andFalseNeedsBoth", "impliesEmptyIsTrue"],
    "C07": ["firstOfEmptyFabricates", "cmpEmptyIsFalse"],
    "C08": ["noOverflowCheck", "modSignOfDivisor"],
    "C09": ["noClamp", "weekIs5Days"],
    "C10": ["takeOffByOne", "whereKeepsEmpty"],
    "C12": ["primitiveNoSpecialise"],
    "C13": ["convertsIgnoresTo", "toDateKeepsTime"],
    "C14": ["byteLength", "replaceFirstOnly"],
}


def observe(ctx, prop, lanes=None, depth=None):
    """Grow the programs (lanes of property `prop`, None: no bias) and evaluate them with the real interpreter.
    Returns (observations of the programs, staged spec directory, Params for the judge)."""
    c02 = D.build_harness(ctx, "c02")
    binary = D.build_harness(ctx, "machine")
    types = ctx.path("machine_types.json")
    D.run_harness(ctx, c02, ["types", types])
    L, dep = SIZES[ctx.tier]
    lanes, depth = lanes or L, depth or dep
    d = D.stage_spec(ctx)
    cfg = "FPMachine_sim_run.cfg"
    with open(os.path.join(d, cfg), "w") as f:
        f.write("SPECIFICATION Spec\nCONSTANT Mutant = \"none\"\nCONSTANT MaxDepth = %d\nCONSTANT Lanes = %d\nCONSTANT Seed = %d\n"
                "CONSTANT Prop = \"%s\"\nINVARIANT Emitting\nINVARIANT MachineTotal\n" % (depth, lanes, ctx.seed % 1000, prop or "all"))
    params = dict(PARAMS, TypesFile=types, ObsFile="/dev/null", VarsObsFile="/dev/null")
    D.write_params(ctx, params)
    sim = D.model_check(ctx, "FPMachine_Sim", cfg, timeout=3600, tag="machine-sim")
    seen, cases, varsrec = set(), [], None
    for c in sim.records:
        if c["id"] == "vars":
            varsrec = c
        elif c["id"] not in seen:
            seen.add(c["id"])
            cases.append(c)
    if varsrec is None or len(cases) < lanes:
        raise D.Inconclusive("machine: generator emitted %d programs, vars record %s" % (len(cases), "present" if varsrec else "missing"))
    D.write_ndjson(ctx.path("machine_cases.ndjson"), [varsrec] + cases)
    D.run_harness(ctx, binary, ["run", ctx.path("machine_cases.ndjson"), ctx.path("machine_obs_all.ndjson")])
    allobs = D.read_ndjson(ctx.path("machine_obs_all.ndjson"))
    obs = [o for o in allobs if o.get("kind") == "prog"]
    D.write_ndjson(ctx.path("machine_obs.ndjson"), obs)
    D.write_ndjson(ctx.path("machine_vars_obs.ndjson"), [o for o in allobs if o.get("kind") == "vars"])
    return obs, d, params


def run(ctx, prop, lanes=None, depth=None):
    """Returns (verdicts, obs_by_id, stats) for the programs charged to `prop` (None: every program)."""
    obs, d, params = observe(ctx, prop, lanes, depth)
    verdicts = D.judge(ctx, "FPMachine_Judge", "FPMachine_judge.cfg", ctx.path("machine_obs.ndjson"),
                       params=dict(params, VarsObsFile=ctx.path("machine_vars_obs.ndjson")), timeout=3600, tag="machine-judge")
    D.check_complete(verdicts, obs, what="machine program")
    if any(v.get("sig", "").startswith("malformed") for v in verdicts):
        raise D.Inconclusive("machine: a program's source text is not the rendering of its tree")
    by_id = {o["id"]: o for o in obs}
    vd = {v["id"]: v for v in verdicts}
    mine, derived, others = [], 0, 0
    for v in verdicts:
        o = by_id[v["id"]]
        if not v["ok"]:
            pv = vd.get("m/" + o["parent"]) if o["parent"] else None
            if pv is not None and not pv["ok"]:
                derived += 1          # grown on top of an expression that already deviates: charged there
                continue
            if prop is not None and o["prop"] != prop:
                others += 1           # another property's operation: that property's check reports it
                continue
        elif prop is not None and o["prop"] != prop:
            continue
        mine.append(v)
    killed, survived = [], []
    for m in MUTANTS.get(prop, []):
        cfgm = "FPMachine_judge_%s.cfg" % m
        with open(os.path.join(d, cfgm), "w") as f:
            f.write("SPECIFICATION JSpec\nCONSTANT Mutant = \"%s\"\n" % m)
        mv = D.judge(ctx, "FPMachine_Judge", cfgm, ctx.path("machine_obs.ndjson"),
                     params=dict(params, VarsObsFile=ctx.path("machine_vars_obs.ndjson")), timeout=3600, tag="machine-judge-mut-" + m)
        if any((not v["ok"]) and by_id[v["id"]]["prop"] == prop for v in mv):
            killed.append(m)
        else:
            survived.append(m)
    ctx.mutants_killed.extend("machine:" + m for m in killed)
    if survived and not killed and ctx.tier == "thorough" and all(v["ok"] for v in mine):
        # not one wrong variant is noticed: the lanes of this property are dead.  (A single survivor is recorded in the
        # evidence; when programs are rejected the implementation itself may behave like the variant: those are reported.)
        raise D.Inconclusive("machine: the programs charged to %s do not distinguish the reference semantics from any of the wrong variants %s" % (prop, survived))
    stats = {"machine_programs": len(obs), "machine_wrong_variants_not_distinguished": survived, "machine_programs_charged_to_property": len(mine),
             "machine_programs_unconstrained": sum(1 for v in verdicts if v.get("open")),
             "machine_rejections_derived": derived, "machine_rejections_of_other_properties": others,
             "machine_mutation_flags": sum(1 for o in obs if any(o.get("mut", {}).values()))}
    if not mine:
        raise D.Inconclusive("machine: no program was charged to %s" % prop)
    slim = {i: {"src": o["src"], "out": o["out"], "out_reused_on_other_inputs": o.get("outB"), "prop": o["prop"], "parent": o["parent"]} for i, o in by_id.items()}
    return mine, slim, stats


def extend(ctx, verdicts, by_id, prop=None):
    """Append the machine programs charged to the check's property to its verdicts (call just before finish)."""
    mv, mo, stats = run(ctx, prop or ctx.prop)
    ctx.extra.update(stats)
    for i in {v["id"] for v in mv}:
        by_id[i] = mo[i]
    # counted by finish(): every program is evaluated four times (inputs, other inputs, inputs again, fresh compilation on the
    # other inputs); distinct non-trivial = charged programs with a non-empty result
    ctx.machine_evals = 4 * stats["machine_programs"]
    ctx.machine_keys = [("machine", mo[v["id"]]["src"]) for v in mv if mo[v["id"]]["out"].get("k") == "ok" and mo[v["id"]]["out"].get("items")]
    return verdicts + mv
