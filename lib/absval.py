"""Abstract items (BUILDING.md) from lexical texts, and TLA+ rendering. Used by pool generators only."""
import re
from decimal import Decimal


def cps(s):
    return [ord(c) for c in s]


def dec(text):
    d = Decimal(text)
    sign, digits, exp = d.as_tuple()
    coef = int("".join(map(str, digits)))
    if coef == 0:
        return {"t": "d", "neg": False, "m": [], "e": 0}
    while coef % 10 == 0:
        coef //= 10
        exp += 1
    m = []
    while coef:
        m.append(coef % 10000)
        coef //= 10000
    return {"t": "d", "neg": bool(sign), "m": m, "e": exp}


def integer(n):
    return {"t": "i", "i": n}


def boolean(b):
    return {"t": "b", "b": b}


def string(s):
    return {"t": "s", "cp": cps(s)}


def qty(num, unit):
    return {"t": "q", "val": dec(num), "unit": cps(unit)}


_T = re.compile(r"^(\d\d)(?::(\d\d)(?::(\d\d)(?:\.(\d+))?)?)?$")


def _time_fields(t):
    m = _T.match(t)
    if not m:
        raise ValueError(t)
    h, mi, s, f = m.groups()
    p = 4 + (mi is not None) + (s is not None) + (f is not None)
    ms = int((f + "000")[:3]) if f else 0
    return p, {"h": int(h), "mi": int(mi or 0), "sec": int(s or 0), "ms": ms, "fd": len(f) if f else 0}


def time(text):
    p, f = _time_fields(text)
    return dict({"t": "time", "p": p}, **f)


def date(text):
    parts = text.split("-")
    return {"t": "date", "p": len(parts), "y": int(parts[0]), "mo": int(parts[1]) if len(parts) > 1 else 1, "d": int(parts[2]) if len(parts) > 2 else 1}


def datetime(text):
    """text without '@': 2020T, 2020-03-01T10:30:00+05:30, ..."""
    if "T" in text:
        d, t = text.split("T", 1)
    else:
        d, t = text, ""
    base = date(d)
    out = {"t": "dt", "p": base["p"], "y": base["y"], "mo": base["mo"], "d": base["d"], "h": 0, "mi": 0, "sec": 0, "ms": 0, "fd": 0, "tz": False, "off": 0}
    tz = None
    if t.endswith("Z"):
        tz, t = 0, t[:-1]
    else:
        m = re.search(r"([+-])(\d\d):(\d\d)$", t)
        if m:
            tz = (int(m.group(2)) * 60 + int(m.group(3))) * (1 if m.group(1) == "+" else -1)
            t = t[: m.start()]
    if t:
        p, f = _time_fields(t)
        out.update(f)
        out["p"] = p
    if tz is not None:
        out["tz"], out["off"] = True, tz
    return out


def tla(v):
    if isinstance(v, bool):
        return "TRUE" if v else "FALSE"
    if isinstance(v, int):
        return str(v)
    if isinstance(v, str):
        assert all(32 <= ord(c) < 127 and c not in '"\\' for c in v), v
        return '"%s"' % v
    if isinstance(v, list):
        return "<<" + ", ".join(tla(x) for x in v) + ">>"
    if isinstance(v, dict):
        return "[" + ", ".join("%s |-> %s" % (k, tla(x)) for k, x in v.items()) + "]"
    raise TypeError(v)
