"""Node-level trace validation (spec/FPNodeTrace.tla; hook fhirpath/verif_on.go, build tag verif).

The implementation, built with the verif tag, records a begin and an end event for every node evaluation of every
expression it compiles (VERIF_NODETRACE=<file>).  Two sources of executions are recorded:
  * the repository's own test suite run with the tag on (tests that already trigger behaviour but do not assert it);
  * the harness commands of the calling check, re-run on their case files with tracing on (every sub-evaluation
    inside every program becomes a checked transition).
TLC consumes the trace with the stack machine FPNodeTrace (one worker, one state per event; an event that does not fit
the stack discipline leaves the trace unconsumed: machinery error) and prints one verdict per semantic law a step
breaks.  Each law is a clause of one property; a check reports the verdicts charged to its own property."""
import json
import os
import re
import subprocess
import time
from lib import driver as D

# the end event of an outermost node (the keys of an event are written in alphabetical order; items inside an event have a
# "d" of their own - the day of a date - so the depth is read at its place, never searched for)
END_OF_BLOCK = re.compile(r'^\{"cls":"[A-Z]","d":1,')
CHUNK = 40000          # events per TLC run, cut at evaluation-block boundaries
TWINS = {"C06": ("andFalseNeedsBoth", "iifManyIsTrue"), "C05": "intDecimalNoPromote", "C08": "c08twins", "C14": "byteLength", "C13": "toIntegerAcceptsDecimalString", "C09": "weekIs5Days",
         "C10": "c10twins", "C07": "concatEmptyIsEmpty", "C12": "isNeverSubtype"}
# the laws a (composite) wrong variant must make the recorded trace break - each of them, or the trace does not exercise that law
TWIN_LAWS = {"c08twins": ("arith", "mathfn"), "c10twins": ("setfn",), "concatEmptyIsEmpty": ("concat",), "isNeverSubtype": ("typeop",), "iifManyIsTrue": ("iif",)}
# value laws (eqval/cmpval C05, arith C08, strfn C14): the node whose logged outcome the binding probe corrupts
VALUE_PROBE = {"C05": ("Equality", "eqval"), "C08": ("Arithmetic", "arith"), "C14": ("Function", "strfn"), "C13": ("Function", "convfn"), "C10": ("Function", "setfn")}


def record_repo_tests(ctx, out):
    """go test -tags verif over the packages that compile expressions, tracing into `out`."""
    env = dict(D.GOENV, VERIF_NODETRACE=out, VERIF_NODETRACE_PER_EXPR="3")
    t = time.time()
    p = subprocess.run(["go", "test", "-tags", "verif", "-vet=off", "-count=1", "./fhirpath/..."], cwd=D.REPO, env=env,
                       capture_output=True, text=True, timeout=1500)
    D.log("  repository tests under trace: %.1fs, exit %d" % (time.time() - t, p.returncode))
    if p.returncode != 0:
        # the pinned suite passes on the unchanged tree; a change under test may break it - the trace written so far is still judged
        ctx.notes.append("repository tests under trace exited %d" % p.returncode)


def split_blocks(path, ctx):
    """Cut the trace into files of about CHUNK events, never inside an evaluation block (a block ends with d = 1, e = E)."""
    parts, cur, n, total = [], None, 0, 0
    with open(path) as f:
        for line in f:
            if cur is None:
                parts.append(ctx.path("nt_part%d.ndjson" % (len(parts) + 1)))
                cur = open(parts[-1], "w")
                n = 0
            cur.write(line)
            n += 1
            total += 1
            if n >= CHUNK and END_OF_BLOCK.match(line):
                cur.close()
                cur = None
    if cur:
        cur.close()
    return parts, total


def with_values(ctx, path):
    """harness/cmd/ntvals: the System values the hook spells become abstract items of the specification (FPValues)."""
    if not getattr(ctx, "ntvals_bin", None):
        ctx.ntvals_bin = D.build_harness(ctx, "ntvals")
    out = path + ".vals"
    D.run_harness(ctx, ctx.ntvals_bin, [path, out])
    return out


def judge_trace(ctx, path, mutant="none", tag="nodetrace"):
    parts, total = split_blocks(with_values(ctx, path), ctx)
    d = D.stage_spec(ctx)
    cfg = "FPNodeTrace_%s.cfg" % mutant
    with open(os.path.join(d, cfg), "w") as f:
        f.write('SPECIFICATION Spec\nCONSTANT Mutant = "%s"\nINVARIANT StackBounded\nPOSTCONDITION TraceConsumed\n' % mutant)
    verdicts = []
    types = ctx.path("machine_types.json")
    if not os.path.exists(types):        # FHIR type name -> kind, from the google/fhir descriptors (harness c02 types)
        D.run_harness(ctx, D.build_harness(ctx, "c02"), ["types", types])
    for k, part in enumerate(parts):
        D.write_params(ctx, {"ObsFile": part, "TypesFile": types})
        r = D.run_tlc(ctx, "FPNodeTrace", cfg, workers=1, timeout=1800, tag="%s-%s-%d" % (tag, mutant, k + 1), expect_violation=True)
        if r.violated or r.error:
            raise D.Inconclusive("node trace: part %d of the trace is not a behaviour of the stack machine (%s)\n%s" % (
                k + 1, r.violated or "TLC error", r.stdout[-1500:]))
        lines = None
        for v in r.records:
            if lines is None:
                lines = open(part).read().split("\n")
            # the evaluation block up to the offending event, for the replay file
            i = v["line"] - 1
            j = i
            while j > 0 and not (json.loads(lines[j])["d"] == 1 and json.loads(lines[j])["e"] == "B"):
                j -= 1
            v["block"] = [json.loads(x) for x in lines[j:i + 1]][-40:]
            v["part"] = k + 1
            verdicts.append(v)
    return verdicts, total


def machine_rerun(ctx):
    """The machine programs of this check (lib/machine.py), to be evaluated again under trace."""
    if os.path.exists(ctx.path("bin-machine")) and os.path.exists(ctx.path("machine_cases.ndjson")):
        return [(ctx.path("bin-machine"), ["run", ctx.path("machine_cases.ndjson"), ctx.path("machine_obs_traced.ndjson")])]
    return []


def sample_cases(ctx, path, limit):
    """Every k-th line of a case file, so that the traced re-run stays within the tier's budget (the full file has been
    replayed and judged by the check itself; the trace adds the node-level view of a spread of it)."""
    lines = open(path).read().splitlines()
    k = max(1, -(-len(lines) // limit))
    out = ctx.path("nt_cases_sample.ndjson")
    with open(out, "w") as f:
        f.write("\n".join(lines[ctx.seed % k::k]) + "\n")
    ctx.extra["node_trace_cases_rerun"] = len(lines[ctx.seed % k::k])
    return out


def extend(ctx, verdicts, by_id, reruns=(), repo_tests=True):
    """Record and judge node-level traces; append the verdicts charged to ctx.prop.  `reruns` is a list of
    (harness binary, argument list) to execute again with tracing on.  A machinery problem of this stage must not hide what
    the check has already established: it is kept and raised by driver.finish only if no violation is reported."""
    try:
        return _extend(ctx, verdicts, by_id, reruns, repo_tests)
    except D.Inconclusive as e:
        ctx.deferred_inconclusive = str(e)
        return verdicts


def _extend(ctx, verdicts, by_id, reruns=(), repo_tests=True):
    trace = ctx.path("nodetrace.ndjson")
    open(trace, "w").close()
    if repo_tests:
        record_repo_tests(ctx, trace)
    n_repo = sum(1 for _ in open(trace))
    for binary, args in list(reruns) + machine_rerun(ctx):
        D.run_harness(ctx, binary, args, env={"VERIF_NODETRACE": trace, "VERIF_NODETRACE_PER_EXPR": "2"})
    vs, total = judge_trace(ctx, trace)
    if total == 0:
        raise D.Inconclusive("node trace: no event was recorded (is the hook in place? fhirpath/verif_on.go, tag verif)")
    mine = [v for v in vs if v["prop"] == ctx.prop]
    out = []
    for n, v in enumerate(mine):
        vid = "nt/%d/%d/%s" % (v["part"], v["line"], v["law"])
        out.append({"id": vid, "ok": False, "sig": "node|%s|%s" % (v["law"], v["k"])})
        by_id[vid] = {"src": "node evaluation %s (event %d of trace part %d)" % (v["k"], v["line"], v["part"]), "out": v["block"][-1], "block": v["block"]}
    out.append({"id": "nt/trace", "ok": True, "sig": ""})
    by_id["nt/trace"] = {"src": "node-level trace: %d events (%d from the repository's tests)" % (total, n_repo), "out": {}}
    ctx.extra.update({"node_trace_events": total, "node_trace_events_from_repository_tests": n_repo,
                      "node_trace_laws_broken_charged_to_other_properties": len(vs) - len(mine)})
    ctx.nodetrace_evals = total // 2
    try:
        twins = TWINS.get(ctx.prop) or ()
        for twin in ([twins] if isinstance(twins, str) else list(twins)):
            tv, _ = judge_trace(ctx, trace, mutant=twin, tag="nodetrace-twin")
            need = TWIN_LAWS.get(twin)
            seen = set(v["law"] for v in tv if v["prop"] == ctx.prop)
            if (need and all(w in seen for w in need)) or (not need and seen):
                ctx.mutants_killed.append("nodetrace:" + twin + ("(" + ",".join(need) + ")" if need else ""))
            elif need and seen:
                raise D.Inconclusive("node trace: the wrong variant %s is noticed under %s only, not under %s (the trace does not exercise that law)" % (
                    twin, sorted(seen), sorted(set(need) - seen)))
            else:
                raise D.Inconclusive("node trace: the wrong variant %s of the reference tables is not noticed on this trace (the trace does not exercise the law)" % twin)
        binding_probe(ctx, trace)
        if ctx.prop in VALUE_PROBE:
            value_probe(ctx, trace, *VALUE_PROBE[ctx.prop])
    except D.Inconclusive as e:
        ctx.deferred_inconclusive = str(e)
    return verdicts + out


def binding_probe(ctx, trace):
    """The binding demonstrated: (i) the first evaluation blocks with ONE event removed are not a behaviour of the stack
    machine; (ii) with the outcome class of one Boolean node flipped, exactly a k3 verdict appears."""
    lines = []
    with open(trace) as f:
        for line in f:
            lines.append(line)
            if len(lines) >= 3000 and END_OF_BLOCK.match(line):
                break
    cut = ctx.path("nt_probe_cut.ndjson")
    open(cut, "w").writelines(lines[:1] + lines[2:])
    try:
        judge_trace(ctx, cut, tag="nodetrace-probe-cut")
    except D.Inconclusive:
        ctx.extra["node_trace_with_a_removed_event_rejected"] = True
    else:
        raise D.Inconclusive("node trace: a trace with an event removed was accepted (the trace specification constrains nothing)")
    opened, nkids, victim = {}, {}, None
    for i, line in enumerate(lines):
        r = json.loads(line)
        if r["e"] == "B":
            opened[r["d"]] = r
            nkids[r["d"]] = 0
            continue
        nkids[r["d"] - 1] = nkids.get(r["d"] - 1, 0) + (1 if r["ok"] else -100)
        # a Boolean node that evaluated both operands successfully (the k3 law speaks of those)
        if opened.get(r["d"], {}).get("k") == "Boolean" and r["ok"] and r["cls"] in ("T", "F") and nkids.get(r["d"]) == 2:
            victim = i
            break
    if victim is None:
        return
    r = json.loads(lines[victim])
    r["cls"] = "F" if r["cls"] == "T" else "T"
    flipped = ctx.path("nt_probe_flip.ndjson")
    open(flipped, "w").writelines(lines[:victim] + [json.dumps(r, separators=(",", ":")) + "\n"] + lines[victim + 1:])
    vs, _ = judge_trace(ctx, flipped, tag="nodetrace-probe-flip")
    if not any(v["law"] == "k3" and v["line"] == victim + 1 for v in vs):
        raise D.Inconclusive("node trace: a flipped Boolean outcome was not reported by the k3 law")
    ctx.extra["node_trace_with_a_flipped_outcome_reported"] = True


def value_probe(ctx, trace, kind, law):
    """The binding of the value laws demonstrated: the logged outcome of one node of `kind` whose operands are logged values
    is altered (a Boolean flipped, an Integer moved by one); exactly that event must be reported under `law`."""
    lines = []
    with open(trace) as f:
        for line in f:
            lines.append(line)
            if len(lines) >= 100000 and END_OF_BLOCK.match(line):
                break
    opened, kids, victim = {}, {}, None
    for i, line in enumerate(lines):
        r = json.loads(line)
        d = r["d"]
        if r["e"] == "B":
            opened[d] = r
            kids[d] = []
            continue
        b = opened.get(d, {})
        kids.setdefault(d - 1, []).append(r)
        mine = kids.get(d, [])
        valued = lambda vs, t: len(vs) == 1 and vs[0].split(":")[0] in t
        if kind == "Function" and law == "setfn":
            # distinct() over logged values: the first item of its outcome is repeated at the end - no longer duplicate-free
            if not (b.get("k") == kind and b.get("p") == "Distinct" and r["ok"] and 1 <= len(r.get("outv", [])) < 8 and len(r["outv"]) == len(r["out"])
                    and len(b.get("inv", [])) == len(b.get("in", [])) and all(x.split(":")[0] in ("Integer", "String", "Boolean") for x in b["inv"] + r["outv"])):
                continue
            r["out"].append(r["out"][0])
            r["outv"].append(r["outv"][0])
            victim = i
            lines[i] = json.dumps(r, separators=(",", ":")) + "\n"
            break
        if b.get("k") != kind or not r["ok"] or len(r.get("outv", [])) != 1:
            continue
        if kind == "Equality" and r["cls"] in ("T", "F") and len(mine) == 2 and all(k["ok"] and valued(k["outv"], ("Integer", "Decimal", "String", "Boolean")) for k in mine):
            r["cls"] = "F" if r["cls"] == "T" else "T"
        elif kind == "Arithmetic" and r["hi"] and abs(r["iv"]) < 1000000 and len(mine) == 2 and all(k["ok"] and valued(k["outv"], ("Integer",)) for k in mine):
            r["iv"] += 1
            r["outv"] = ["Integer:%d" % r["iv"]]
        elif kind == "Function" and law == "strfn" and b.get("p") == "Length" and r["hi"] and valued(b.get("inv", []), ("String",)):
            r["iv"] += 1
            r["outv"] = ["Integer:%d" % r["iv"]]
        elif kind == "Function" and law == "convfn" and b.get("p") in ("ConvertsToInteger", "ConvertsToBoolean", "ConvertsToDecimal", "ConvertsToString") and r["cls"] in ("T", "F") and valued(b.get("inv", []), ("Integer", "Boolean", "Decimal", "String")):
            r["cls"] = "F" if r["cls"] == "T" else "T"
        else:
            continue
        victim = i
        lines[i] = json.dumps(r, separators=(",", ":")) + "\n"
        break
    if victim is None:
        raise D.Inconclusive("node trace: no %s node with logged operand values in the first %d events (the value law %s is not exercised)" % (kind, len(lines), law))
    # the evaluation block of the altered event alone (line numbers of verdicts are relative to the judged part)
    a = victim
    while a > 0 and not (json.loads(lines[a])["e"] == "B" and json.loads(lines[a])["d"] == 1):
        a -= 1
    z = victim
    while z < len(lines) - 1 and not END_OF_BLOCK.match(lines[z]):
        z += 1
    path = ctx.path("nt_probe_value.ndjson")
    open(path, "w").writelines(lines[a:z + 1])
    vs, _ = judge_trace(ctx, path, tag="nodetrace-probe-value")
    if not any(v["law"] == law and v["line"] == victim - a + 1 for v in vs):
        raise D.Inconclusive("node trace: an altered %s outcome was not reported by the %s law" % (kind, law))
    ctx.extra["node_trace_with_an_altered_value_reported"] = law
