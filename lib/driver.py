"""Shared driver for /verif checks (Python 3 stdlib only).

Pipeline of one check (DESIGN.md section 2.4):
  1 build the Go harness against /repo's working tree (build tag `verif`)
  2 TLC: model-check the property's configuration, emit cases; mutant twins must fail
  3 harness: run the cases (plus seeded random ones) against the real code -> observations
  4 TLC: judge the observations (Permitted sets computed from the TLA+ text)
  5 report: known findings, evidence, VIOLATION lines, exit 0 / 1 / 2

Exit codes: 0 held (possibly KNOWN-FINDING lines), 1 violation, 2 inconclusive (machinery).
"""
import json, os, re, shutil, subprocess, sys, time, hashlib, glob

VERIF = os.path.dirname(os.path.dirname(os.path.abspath(__file__)))
REPO = os.environ.get("VERIF_REPO", "/repo")
SPEC = os.path.join(VERIF, "spec")
HARNESS = os.path.join(VERIF, "harness")
WORKROOT = os.path.join(VERIF, ".work")
NCPU = os.cpu_count() or 4

GOENV = dict(os.environ, GOFLAGS="-mod=mod", GOPROXY="off", GOSUMDB="off", GOTOOLCHAIN="local")


class Inconclusive(Exception):
    """Machinery failure: exit 2, never a violation."""


def log(*a):
    print(*a, file=sys.stderr, flush=True)


# ----------------------------------------------------------------------------- context

class Ctx:
    def __init__(self, prop, tier, seed, keep=False):
        self.prop, self.tier, self.seed, self.keep = prop, tier, seed, keep
        self.t0 = time.time()
        self.work = os.path.join(WORKROOT, "%s-%s-%d-%d" % (prop, tier, seed, os.getpid()))
        shutil.rmtree(self.work, ignore_errors=True)
        os.makedirs(self.work)
        self.states = 0
        self.transitions = 0
        self.tlc_cmds = []
        self.mutants_killed = []
        self.notes = []
        self.extra = {}

    def path(self, *p):
        return os.path.join(self.work, *p)

    def cleanup(self):
        if not self.keep:
            shutil.rmtree(self.work, ignore_errors=True)
            try:
                os.rmdir(WORKROOT)
            except OSError:
                pass


# ----------------------------------------------------------------------------- go harness

def build_harness(ctx, cmd, race=False):
    """Build harness/cmd/<cmd> against /repo's current working tree."""
    sumsrc = os.path.join(REPO, "go.sum")
    # atomically, and only when it differs: several checks may build at the same time (a half-written go.sum is "malformed")
    dst = os.path.join(HARNESS, "go.sum")
    want = open(sumsrc, "rb").read()
    if not (os.path.exists(dst) and open(dst, "rb").read() == want):
        tmp = "%s.%d.tmp" % (dst, os.getpid())
        open(tmp, "wb").write(want)
        os.replace(tmp, dst)
    out = ctx.path("bin-" + cmd + ("-race" if race else ""))
    args = ["go", "build", "-tags", "verif", "-o", out]
    if race:
        args.append("-race")
    if os.environ.get("VERIF_COVERDIR"):
        # opt-in measurement (tools/coverage.sh): which statements of the library the checks execute
        args += ["-cover", "-coverpkg=github.com/verily-src/fhirpath-go/..."]
    args.append("./cmd/" + cmd)
    env = dict(GOENV)
    if REPO != "/repo":
        # alternate tree (used only for trying seeded patches in scratch worktrees)
        modfile = ctx.path("go.alt.mod")
        src = open(os.path.join(HARNESS, "go.mod")).read().replace("=> /repo", "=> " + REPO)
        open(modfile, "w").write(src)
        shutil.copyfile(sumsrc, ctx.path("go.alt.sum"))
        args[2:2] = ["-modfile", modfile]
    p = subprocess.run(args, cwd=HARNESS, env=env, capture_output=True, text=True)
    if p.returncode != 0:
        raise Inconclusive("harness build failed (the tree under test may not compile):\n" + p.stdout + p.stderr)
    return out


def run_harness(ctx, binary, args, timeout=3600, env=None):
    e = dict(GOENV, VERIF_SEED=str(ctx.seed), VERIF_TIER=ctx.tier, VERIF_SPEC=SPEC)
    if env:
        e.update(env)
    if os.environ.get("VERIF_COVERDIR"):
        e["GOCOVERDIR"] = os.environ["VERIF_COVERDIR"]
    t = time.time()
    try:
        p = subprocess.run([binary] + args, cwd=ctx.work, env=e, capture_output=True, text=True, timeout=timeout)
    except subprocess.TimeoutExpired:
        raise Inconclusive("harness timed out: %s %s" % (binary, args))
    if p.returncode != 0:
        raise Inconclusive("harness failed (%d): %s\n%s" % (p.returncode, " ".join(args), (p.stdout + p.stderr)[-4000:]))
    log("  harness %s: %.1fs" % (" ".join(os.path.basename(a) for a in args[:3]), time.time() - t))
    return p.stdout


# ----------------------------------------------------------------------------- TLC

TLC_JAR = "/opt/veriftools/tla/tla2tools.jar:/opt/veriftools/tla/CommunityModules-deps.jar"


class TlcResult:
    def __init__(self):
        self.stdout = ""
        self.generated = 0
        self.distinct = 0
        self.violated = None      # name of the violated invariant / property, or None
        self.error = None         # TLC runtime/parse error text
        self.records = []         # JSON values printed by the spec
        self.seconds = 0.0


_UNQ = re.compile(r'\\(.)')


def _unquote_tla(s):
    # TLC prints strings with \" and \\ escapes
    return _UNQ.sub(lambda m: {"n": "\n", "t": "\t"}.get(m.group(1), m.group(1)), s)


def stage_spec(ctx, params=None, extra_files=()):
    """Copy the specification into the scratch directory and write Params.tla."""
    d = ctx.path("spec")
    if not os.path.isdir(d):
        os.makedirs(d)
        for f in glob.glob(os.path.join(SPEC, "*.tla")) + glob.glob(os.path.join(SPEC, "cfg", "*.cfg")):
            shutil.copy(f, d)
        gen = os.path.join(SPEC, "gen")
        if os.path.isdir(gen):
            for f in glob.glob(os.path.join(gen, "*")):
                shutil.copy(f, d)
    for f in extra_files:
        shutil.copy(f, d)
    if params is not None:
        write_params(ctx, params)
    return d


def set_cfg_constant(ctx, cfg, name, value):
    """Rewrite `CONSTANT <name> = ...` in the staged copy of a configuration."""
    path = os.path.join(ctx.path("spec"), cfg)
    text = open(path).read()
    new, n = re.subn(r"(?m)^CONSTANT %s = .*$" % re.escape(name), "CONSTANT %s = %s" % (name, tla_value(value)), text)
    if n != 1:
        raise Inconclusive("configuration %s has no constant %s" % (cfg, name))
    open(path, "w").write(new)


def tla_value(v):
    if isinstance(v, bool):
        return "TRUE" if v else "FALSE"
    if isinstance(v, int):
        return str(v)
    if isinstance(v, str):
        return '"' + v.replace("\\", "\\\\").replace('"', '\\"') + '"'
    if isinstance(v, (list, tuple)):
        return "<<" + ", ".join(tla_value(x) for x in v) + ">>"
    if isinstance(v, (set, frozenset)):
        return "{" + ", ".join(tla_value(x) for x in sorted(v)) + "}"
    raise TypeError(v)


def write_params(ctx, params, name="Params"):
    """Params.tla: per-run constants (file paths, tier, seed) as operator definitions."""
    d = ctx.path("spec")
    os.makedirs(d, exist_ok=True)
    lines = ["---- MODULE %s ----" % name]
    for k, v in params.items():
        lines.append("%s == %s" % (k, tla_value(v)))
    lines.append("====")
    open(os.path.join(d, name + ".tla"), "w").write("\n".join(lines) + "\n")


def run_tlc(ctx, module, cfg, workers=None, timeout=1800, simulate=None, depth=None, expect_violation=False, heap=None, tag=None, deadlock=False):
    """Run TLC on spec/<module>.tla with spec/<cfg> inside the scratch copy."""
    d = stage_spec(ctx)
    tag = tag or (module + "-" + os.path.splitext(os.path.basename(cfg))[0])
    meta = ctx.path("meta-" + tag)
    workers = workers or NCPU
    heap = heap or os.environ.get("VERIF_TLC_HEAP") or "6g"
    cmd = ["java", "-XX:+UseParallelGC", "-Xss512m", "-Xmx" + heap, "-cp", TLC_JAR, "tlc2.TLC",
           "-workers", str(workers), "-metadir", meta, "-config", cfg, "-noGenerateSpecTE"]
    if not deadlock:
        cmd.append("-deadlock")   # -deadlock DISABLES deadlock checking in TLC
    if simulate:
        cmd += ["-simulate", simulate]
        if depth:
            cmd += ["-depth", str(depth)]
        cmd += ["-seed", str(ctx.seed)]
    cmd.append(module)
    ctx.tlc_cmds.append(" ".join(cmd[cmd.index("tlc2.TLC"):]))
    t = time.time()
    res = TlcResult()
    outpath = ctx.path("tlc-" + tag + ".out")
    with open(outpath, "w") as fo:
        try:
            p = subprocess.run(cmd, cwd=d, stdout=fo, stderr=subprocess.STDOUT, timeout=timeout)
            rc = p.returncode
        except subprocess.TimeoutExpired:
            subprocess.run(["pkill", "-f", "metadir " + meta])
            raise Inconclusive("TLC timed out after %ds: %s %s" % (timeout, module, cfg))
    res.seconds = time.time() - t
    recs = []
    tail = []
    with open(outpath, errors="replace") as fi:
        for line in fi:
            line = line.rstrip("\n")
            if line.startswith('"{') or line.startswith('"['):
                try:
                    recs.append(json.loads(_unquote_tla(line[1:-1])))
                    continue
                except Exception as e:
                    raise Inconclusive("unparseable record from TLC: %s (%s)" % (line[:300], e))
            tail.append(line)
            if len(tail) > 400:
                tail.pop(0)
            m = re.search(r"(\d+) states generated, (\d+) distinct states found", line)
            if m:
                res.generated, res.distinct = int(m.group(1)), int(m.group(2))
            m = re.search(r"Invariant (\S+) is violated", line) or re.search(r"The invariant of (\S+) is equal to FALSE", line)
            if m:
                res.violated = m.group(1)
            m = re.search(r"Action property (\S+) is violated|Temporal properties were violated|Assumption .* is false", line)
            if m and not res.violated:
                res.violated = m.group(1) or "property"
            if "The postcondition" in line and "violated" in line and not res.violated:
                res.violated = "postcondition"
    res.records = recs
    res.stdout = "\n".join(tail)
    if res.violated is None and rc != 0:
        res.error = res.stdout[-3000:]
    ctx.states += res.distinct
    ctx.transitions += res.generated
    log("  tlc %s/%s: %.1fs, %d generated, %d distinct, %d records%s" % (
        module, cfg, res.seconds, res.generated, res.distinct, len(recs),
        (", VIOLATED " + str(res.violated)) if res.violated else ""))
    if res.error and not expect_violation:
        raise Inconclusive("TLC error in %s/%s:\n%s" % (module, cfg, res.error))
    return res


def model_check(ctx, module, cfg, **kw):
    """Role 1: the property's invariants must hold on the specification itself."""
    r = run_tlc(ctx, module, cfg, **kw)
    if r.violated:
        raise Inconclusive("specification %s/%s violates its own property %s:\n%s" % (module, cfg, r.violated, r.stdout[-3000:]))
    return r


def mutant_twin(ctx, module, cfg, name, **kw):
    """A mutant configuration must FAIL; if it passes the property is vacuous in the model."""
    r = run_tlc(ctx, module, cfg, expect_violation=True, tag="mut-" + name, **kw)
    if not r.violated:
        raise Inconclusive("mutant twin %s (%s/%s) was not rejected: property vacuous in the model\n%s" % (name, module, cfg, r.stdout[-2000:]))
    ctx.mutants_killed.append(name)
    return r


# ----------------------------------------------------------------------------- records

def write_ndjson(path, recs):
    with open(path, "w") as f:
        for r in recs:
            f.write(json.dumps(r, separators=(",", ":")) + "\n")


def read_ndjson(path):
    out = []
    with open(path) as f:
        for line in f:
            line = line.strip()
            if line:
                out.append(json.loads(line))
    return out


def judge(ctx, module, cfg, obs_path, params=None, workers=None, timeout=3600, tag=None, heap=None, chunk=60000):
    """Role 3: TLC reads the observations and prints one verdict per record.

    The judge module reads Params!ObsFile. Verdict records are {"id","ok","sig",...}.
    Large observation files are judged in chunks of `chunk` records (TLC's JSON reader is
    single-threaded and memory-hungry); every observation must receive exactly one verdict.
    """
    paths = [obs_path]
    n = sum(1 for _ in open(obs_path))
    if n > chunk:
        paths = []
        with open(obs_path) as f:
            k, out = 0, None
            for j, line in enumerate(f):
                if j % chunk == 0:
                    if out:
                        out.close()
                    k += 1
                    p = "%s.part%d" % (obs_path, k)
                    paths.append(p)
                    out = open(p, "w")
                out.write(line)
            if out:
                out.close()
    records = []
    for k, pth in enumerate(paths):
        p = dict(params or {})
        p["ObsFile"] = pth
        write_params(ctx, p)
        t = (tag or ("judge-" + module)) + ("" if len(paths) == 1 else "-part%d" % (k + 1))
        r = run_tlc(ctx, module, cfg, workers=workers, timeout=timeout, tag=t, heap=heap)
        if r.violated:
            raise Inconclusive("judge %s reported a TLC-level violation %s:\n%s" % (module, r.violated, r.stdout[-2000:]))
        records.extend(r.records)
        if len(paths) > 1:
            os.remove(pth)
    return records


# ----------------------------------------------------------------------------- known findings

def load_known(prop):
    paths = [os.path.join(VERIF, "known_findings.jsonl")] + sorted(glob.glob(os.path.join(VERIF, "known_findings.d", "*.jsonl")))
    out = []
    for path in paths:
        if not os.path.exists(path):
            continue
        for line in open(path):
            line = line.strip()
            if not line or line.startswith("#") or line.startswith("fixed:"):
                continue
            rec = json.loads(line)
            if rec.get("property") == prop and rec.get("status", "open") == "open":
                out.append(rec)
    return out


def match_known(known, sig):
    for k in known:
        pat = k["signature"]
        if pat == sig or (k.get("regex") and re.fullmatch(pat, sig)):
            return k
    return None


# ----------------------------------------------------------------------------- report

def finish(ctx, verdicts, obs_by_id=None, *, evaluations, rule, nontrivial_keys, samples,
           exhaustive=False, assumptions=(), extra=None, level="model_checking"):
    """Write evidence, print KNOWN-FINDING / VIOLATION lines, return exit code."""
    known = load_known(ctx.prop)
    rid = getattr(ctx, "replay_id", None)
    if rid is not None:
        # --replay <file>: the whole check was re-executed against the current tree; report on that record only
        verdicts = [v for v in verdicts if v.get("id") == rid]
        if not verdicts:
            raise Inconclusive("replay: record %r was not produced by this run (use the tier and seed recorded in the replay file)" % rid)
    bad = [v for v in verdicts if not v.get("ok")]
    seen_known = {}
    violations = []
    for v in bad:
        k = match_known(known, v.get("sig", ""))
        if k is not None:
            seen_known.setdefault(k["signature"], (k, []))[1].append(v)
        else:
            violations.append(v)
    for sig, (k, vs) in sorted(seen_known.items()):
        print("KNOWN-FINDING: property=%s %s [%s; %d occurrence(s)]" % (ctx.prop, k["what"], sig, len(vs)))
    outroot = VERIF if (REPO == "/repo" and rid is None and not os.environ.get("VERIF_NO_EVIDENCE")) else os.path.join(WORKROOT, "alt")   # never clobber evidence when trying another tree
    replay_dir = os.path.join(outroot, "replay")
    shown = {}
    for v in violations:
        sig = v.get("sig", "?")
        if sig in shown:
            shown[sig] += 1
            continue
        shown[sig] = 1
        os.makedirs(replay_dir, exist_ok=True)
        rid = re.sub(r"[^A-Za-z0-9_.-]", "_", "%s-%s" % (ctx.prop, hashlib.sha1((sig + str(v.get("id"))).encode()).hexdigest()[:10]))
        rp = os.path.join(replay_dir, rid + ".json")
        rec = {"property": ctx.prop, "tier": ctx.tier, "seed": ctx.seed, "verdict": v}
        if obs_by_id is not None and v.get("id") in obs_by_id:
            rec["observation"] = obs_by_id[v["id"]]
        json.dump(rec, open(rp, "w"), indent=1)
        print("VIOLATION property=%s replay=%s" % (ctx.prop, rp))
        print("  signature: %s" % sig)
        if "want" in v:
            print("  specification permits: %s" % json.dumps(v["want"])[:400])
        if obs_by_id is not None and v.get("id") in obs_by_id:
            o = obs_by_id[v["id"]]
            print("  observed: src=%s out=%s" % (json.dumps(o.get("src", ""))[:200], json.dumps(o.get("out", ""))[:300]))
    for sig, n in shown.items():
        if n > 1:
            print("  (%d further record(s) with signature %s)" % (n - 1, sig))
    evaluations += getattr(ctx, "machine_evals", 0)
    nontrivial_keys = list(nontrivial_keys) + list(getattr(ctx, "machine_keys", []))
    cov = {
        "states": max(ctx.states, 0),
        "transitions": max(ctx.transitions, 0),
        "traces_validated_against_impl": len(verdicts),
        "evaluations": evaluations,
        "distinct_nontrivial": len(set(nontrivial_keys)),
        "rule": rule,
        "samples": samples[:6],
        "exhaustive": bool(exhaustive),
        "checker_cmd": "; ".join(ctx.tlc_cmds[:6]),
        "trusted_base": ["TLC 2026.09 (tla2tools 1.8.0)", "the TLA+ text under /verif/spec", "google/fhir jsonformat v0.7.4 (input construction and tree rendering)", "the harness projection (lib/annotate.go, lib/project.go; self-checked per resource)"],
        "mutants_killed": ctx.mutants_killed,
        "known_findings_seen": sorted(seen_known.keys()),
        "violation_signatures": sorted(shown.keys()),
    }
    if extra:
        cov.update(extra)
    cov.update(ctx.extra)
    ev = {
        "property_id": ctx.prop, "tier": ctx.tier, "seed": ctx.seed, "level": level,
        "coverage": cov, "assumptions": list(assumptions), "wall_s": round(time.time() - ctx.t0, 1),
        "violations": len(violations),
    }
    os.makedirs(os.path.join(outroot, "evidence"), exist_ok=True)
    json.dump(ev, open(os.path.join(outroot, "evidence", ctx.prop + ".json"), "w"), indent=1)
    log("%s %s: %d verdicts, %d rejected (%d known, %d new), %.0fs" % (
        ctx.prop, ctx.tier, len(verdicts), len(bad), len(bad) - len(violations), len(violations), time.time() - ctx.t0))
    if not violations and getattr(ctx, "deferred_inconclusive", None):
        # a machinery problem met in a later stage (node-level trace) was held back so that it could not hide a violation
        raise Inconclusive(ctx.deferred_inconclusive)
    return 1 if violations else 0


def check_complete(verdicts, obs, what="observation"):
    ids = {o["id"] for o in obs}
    vids = [v.get("id") for v in verdicts]
    if len(vids) != len(set(vids)) or set(vids) != ids:
        missing = list(ids - set(vids))[:5]
        raise Inconclusive("judge returned %d verdicts for %d %ss (missing e.g. %s)" % (len(vids), len(ids), what, missing))
    if not obs:
        raise Inconclusive("dead driver: no observations")


def main(run):
    """Entry point used by bin/check: run(ctx) -> exit code."""
    import argparse
    ap = argparse.ArgumentParser()
    ap.add_argument("prop")
    ap.add_argument("--tier", default=os.environ.get("VERIF_TIER", "quick"), choices=["quick", "thorough"])
    ap.add_argument("--seed", type=int, default=int(os.environ.get("VERIF_SEED", "1")))
    ap.add_argument("--keep", action="store_true")
    ap.add_argument("--replay")
    a = ap.parse_args()
    replay_id = None
    if a.replay:
        rec = json.load(open(a.replay))
        replay_id = rec["verdict"]["id"]
        a.tier, a.seed = rec.get("tier", a.tier), rec.get("seed", a.seed)
    ctx = Ctx(a.prop, a.tier, a.seed, keep=a.keep)
    ctx.replay = a.replay
    if replay_id is not None:
        ctx.replay_id = replay_id
    try:
        rc = run(ctx)
    except Inconclusive as e:
        print("INCONCLUSIVE property=%s: %s" % (a.prop, str(e)[:6000]), file=sys.stderr)
        rc = 2
    finally:
        ctx.cleanup()
    sys.exit(rc)
