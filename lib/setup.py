"""bin/check --setup: build the framework from files on disk only (offline).

 * copies /repo/go.sum next to the harness go.mod and builds every harness command once
   (warms Go's build cache; checks rebuild against /repo's working tree on every run);
 * generates spec/gen/* (R4 schema module, annotated model resources) with the harness;
 * parses every TLA+ module with SANY.
"""
import glob, json, os, re, shutil, subprocess, sys
from lib import driver as D


def main():
    os.makedirs(os.path.join(D.SPEC, "gen"), exist_ok=True)
    tmp = os.path.join(D.HARNESS, "go.sum.%d.tmp" % os.getpid())
    shutil.copyfile(os.path.join(D.REPO, "go.sum"), tmp)
    os.replace(tmp, os.path.join(D.HARNESS, "go.sum"))
    # build the commands of the registered checks (others may be work in progress)
    claimed = claimed_props()
    cmds = ["annotate", "machine"] + [c.lower() for c in claimed if os.path.isdir(os.path.join(D.HARNESS, "cmd", c.lower()))]
    for c in cmds:
        p = subprocess.run(["go", "build", "-tags", "verif", "-o", os.devnull, "./cmd/" + c], cwd=D.HARNESS, env=D.GOENV, capture_output=True, text=True)
        if p.returncode != 0:
            print(p.stdout + p.stderr, file=sys.stderr)
            return 2
    gen = generate() or pools()
    if gen:
        return gen
    # SANY over every module, in a scratch copy
    ctx = D.Ctx("SETUP", "quick", 0)
    try:
        names = {"ObsFile"}
        for f in glob.glob(os.path.join(D.SPEC, "*.tla")):
            names.update(re.findall(r"\b[A-Z][A-Za-z0-9]*File\b", open(f).read()))
        d = D.stage_spec(ctx, params={n: "/dev/null" for n in sorted(names)})
        bad = 0
        claimed = claimed_props()
        for f in sorted(glob.glob(os.path.join(d, "*.tla"))):
            base = os.path.basename(f)
            m = re.match(r"(C\d\d)", base)
            if m and m.group(1) not in claimed:
                continue   # module of a check that is not registered (yet)
            q = subprocess.run(["java", "-cp", D.TLC_JAR, "tla2sany.SANY", os.path.basename(f)], cwd=d, capture_output=True, text=True)
            if q.returncode != 0 or "Semantic errors" in q.stdout or "Fatal errors" in q.stdout or "*** Errors" in q.stdout:
                print("SANY failed on %s:\n%s" % (f, q.stdout[-3000:]), file=sys.stderr)
                bad += 1
        if bad:
            # informational only: per-run parameters (Params.tla) are written by each check, so a module that needs
            # one this pass does not know may fail to parse here and still be fine when its check runs
            print("setup: %d module(s) did not pass the generic SANY pass (informational)" % bad, file=sys.stderr)
    finally:
        ctx.cleanup()
    print("setup ok")
    return 0


def claimed_props():
    try:
        return [c["property_id"] for c in json.load(open(os.path.join(D.VERIF, "MANIFEST.json")))["checks"]]
    except Exception:
        return []


def generate():
    """Generated specification inputs (never edited by hand)."""
    gen = os.path.join(D.SPEC, "gen")
    ctx = D.Ctx("SETUPGEN", "quick", 0)
    try:
        for cmd, args in GENERATORS:
            binary = D.build_harness(ctx, cmd)
            q = subprocess.run([binary] + [a.replace("{gen}", gen).replace("{spec}", D.SPEC) for a in args], env=D.GOENV, capture_output=True, text=True)
            if q.returncode != 0:
                print("generator %s failed:\n%s" % (cmd, q.stdout + q.stderr), file=sys.stderr)
                return 2
    except D.Inconclusive as e:
        print(str(e), file=sys.stderr)
        return 2
    finally:
        ctx.cleanup()
    return 0


def pools():
    for script in sorted(glob.glob(os.path.join(D.VERIF, "tools", "gen_*_pool.py"))):
        q = subprocess.run([sys.executable, script], capture_output=True, text=True)
        if q.returncode != 0:
            print("pool generator %s failed:\n%s" % (script, q.stdout + q.stderr), file=sys.stderr)
            return 2
    return 0


GENERATORS = [
    ("annotate", ["{gen}/ModelResources.json", "MR1={spec}/data/MR1.json", "MR2={spec}/data/MR2.json", "MR3={spec}/data/MR3.json", "MR4={spec}/data/MR4.json"]),
]
